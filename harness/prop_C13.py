"""C13 - conversions do not interfere through shared inputs.

Oracle on the implementation: one IR object handed to every call of a sequence over {emit.class_, emit.function,
emit.argparse_function, emit.docstring} (each with options drawn per IR), all sequences with repetition up to
length 3 (quick) / 4 (thorough); the artefact of every call is compared with the artefact the same call gives on
a fresh deep copy (ast.dump of the node / the docstring text; an exception counts as its kind), and the IR object is
compared before/after every call ORDER-SENSITIVELY (items of `params`, of every parameter and of `returns` in iteration
order, recursively): a call that only reorders the caller's mapping is a write.  IR strata include a `...kwargs`
parameter that is first / in the middle (as parse.class_ and parse.docstring produce), not only last.
Second part: the three parsers applied repeatedly to one shared AST node (and emitters applied to the IRs they
return, whose `_internal` bodies alias the tree): ast.dump of the tree before/after, and every result against
the result on a fresh copy; the IR a parser returned is then shared by the emitters (docstring included), each compared
with the same call on a fresh copy of that IR and the IR compared order-sensitively around each call.
Third part (gen_tree_module / explore_tree): the PARSE side on written modules - one tree object holding several
definitions (interface stubs and implementations that share a docstring character for character, with and without a
return entry / a `return` statement; a class with attributes and an `__init__` whose instance argument has any name,
parsed with and without merge_inner_function; an argparse function; a plain definition); every sequence with repetition
of parse calls up to length 3/4 on that ONE tree, the caller keeping every IR it was given: ast.dump of the whole tree
after every call, every held IR against its picture at the time it was returned, every result against the same call on
an untouched copy of the tree, then the emitters on the last IR (tree and other held IRs watched) and one more parse.
Failures are classified by finding_class_C13 (coq/model/C13Spec.v) through the driver."""
import ast
import collections
import copy
from collections import OrderedDict

from common import Sym, dumps, loads, opt, impl, run_model, unhx, exc_kind
import irwire
import gen_ir
import fam_emitast

ID = "C13"
COQ_PROP = "C13"
import fam_docemit  # noqa: E402

# the docstring emitter is the fourth shared-input conversion (its purity is the premise of theorem C13)
FAMILIES = [(fam_emitast, 3000, 40000), (fam_docemit, 1500, 20000)]
TECHNIQUE = ("Coq proof (the three AST emitters write nothing into the IR; non-interference by induction over call sequences "
             "of any length; emit.docstring abstract with the hypothesis that it does not write) + differential "
             "correspondence of EmitAst.v (artefact AND post-call IR) "
             "+ exhaustive enumeration of call sequences up to length 3/4 on the implementation")
TRUSTED = [
    "the TEXT to_docstring / emit.docstring return is a parameter of the theorems (another layer's model); that "
    "to_docstring does not write into the IR is part of the EmitAst model and compared after every call by the emitast family",
    "emit.docstring as a call on the shared IR is abstract (doc_op); whether it rewrote the shared IR in a run is observed "
    "by the harness and passed to the class function (the full statement assumes it does not: doc_pure)",
    "ast.parse on code strings outside TyExpr's fragment is an input table",
    "the parsers' side (parse.class_/function/argparse_ast do not alter the tree) is checked by execution only",
]


# ------------------------------------------------------------------ ops
def gen_ops(rng):
    """one option assignment per emitter kind (+ sometimes a second variant of one of them)"""
    ww = rng.random() < 0.5
    ops = [
        {"k": "class", "emit_call": rng.random() < 0.5, "class_name": "C", "word_wrap": ww,
         "emit_default_doc": rng.random() < 0.5},
        {"k": "function", "function_name": "f", "function_type": rng.choice(["static", "self", "cls"]), "word_wrap": ww,
         "emit_default_doc": rng.random() < 0.5, "indent_level": rng.choice([0, 1, 2]),
         "emit_separating_tab": rng.random() < 0.5, "inline_types": rng.random() < 0.5,
         "emit_as_kwonlyargs": rng.random() < 0.5},
        {"k": "argparse", "emit_default_doc": rng.random() < 0.5, "function_name": "set_cli_args", "function_type": "static",
         "wrap_description": rng.random() < 0.5, "word_wrap": ww},
        {"k": "docstring", "word_wrap": ww, "emit_default_doc": rng.random() < 0.5},
    ]
    return ops


def op_wire(o):
    k = o["k"]
    if k == "class":
        return [Sym("class"), o["emit_call"], o["class_name"], ["object"], [], o["word_wrap"], o["emit_default_doc"]]
    if k == "function":
        return [Sym("function"), opt(o["function_name"]), opt(o["function_type"]), o["word_wrap"], o["emit_default_doc"],
                o["indent_level"], o["emit_separating_tab"], o["inline_types"], o["emit_as_kwonlyargs"]]
    if k == "argparse":
        return [Sym("argparse"), o["emit_default_doc"], opt(o["function_name"]), opt(o["function_type"]),
                o["wrap_description"], o["word_wrap"]]
    return [Sym("docstring"), o["word_wrap"], o["emit_default_doc"]]


def apply_op(o, ir):
    """the artefact as a comparable value; the IR object is used as it is (mutated in place)"""
    m = impl()
    k = o["k"]
    try:
        if k == "class":
            return ast.dump(m.emit.class_(ir, emit_call=o["emit_call"], class_name=o["class_name"], word_wrap=o["word_wrap"],
                                          emit_default_doc=o["emit_default_doc"]))
        if k == "function":
            return ast.dump(m.emit.function(ir, function_name=o["function_name"], function_type=o["function_type"],
                                            word_wrap=o["word_wrap"], emit_default_doc=o["emit_default_doc"],
                                            indent_level=o["indent_level"], emit_separating_tab=o["emit_separating_tab"],
                                            inline_types=o["inline_types"], emit_as_kwonlyargs=o["emit_as_kwonlyargs"]))
        if k == "argparse":
            return ast.dump(m.emit.argparse_function(ir, emit_default_doc=o["emit_default_doc"],
                                                     function_name=o["function_name"], function_type=o["function_type"],
                                                     wrap_description=o["wrap_description"], word_wrap=o["word_wrap"]))
        return m.emit.docstring(ir, word_wrap=o["word_wrap"], emit_default_doc=o["emit_default_doc"])
    except Exception as e:  # noqa
        return "<raised %s>" % exc_kind(e)


def snapshot(ir):
    try:
        return dumps(irwire.enc_ir(ir))
    except Exception:  # noqa
        return repr(ir)


def strict_snapshot(o):
    """order-SENSITIVE picture of a value: mapping items in iteration order (recursively), sequence kind, scalar type.
    Two IRs that are == as dicts but list their parameters (or a parameter's fields) in a different order differ here:
    every emitter walks `params` in iteration order, so key order is part of what a later call sees"""
    if isinstance(o, dict):
        return [type(o).__name__, [[repr(k), strict_snapshot(v)] for k, v in o.items()]]
    if isinstance(o, (list, tuple)):
        return [type(o).__name__, [strict_snapshot(x) for x in o]]
    if isinstance(o, ast.AST):
        return ["ast", ast.dump(o)]
    return [type(o).__name__, repr(o)]


def _first_change(a, b, path="ir"):
    """where two strict snapshots differ (for the report)"""
    if a == b:
        return None
    if a[0] != b[0] or not isinstance(a[1], list) or not isinstance(b[1], list):
        return "%s: %s -> %s" % (path, str(a)[:120], str(b)[:120])
    if a[0] in ("dict", "OrderedDict"):
        ka, kb = [x[0] for x in a[1]], [x[0] for x in b[1]]
        if ka != kb:
            return "%s: keys %s -> %s" % (path, ka, kb)
        for (k, x), (_, y) in zip(a[1], b[1]):
            r = _first_change(x, y, "%s[%s]" % (path, k))
            if r:
                return r
        return "%s changed" % path
    if len(a[1]) != len(b[1]):
        return "%s: length %d -> %d" % (path, len(a[1]), len(b[1]))
    for n, (x, y) in enumerate(zip(a[1], b[1])):
        r = _first_change(x, y, "%s[%d]" % (path, n))
        if r:
            return r
    return "%s changed" % path


KWARGS_NAMES = ["kwargs", "data_loader_kwargs", "model_kwargs", "loader_kwargs", "optimizer_kwargs", "fit_kwargs"]


def _is_kwargs_name(n):
    return n.endswith("kwargs")


def place_kwargs(rng, params, tags):
    """stratum `kwargs:first|middle|several`: a `...kwargs` parameter that is NOT the last entry of `params`, as
    parse.class_ (attributes are in no particular order) and parse.docstring (documented in any order) produce.
    gen_ir only ever appends it at the end."""
    names = [n for n in params if not _is_kwargs_name(n)]
    if not names:
        return params
    kw = [(n, params[n]) for n in params if _is_kwargs_name(n)]
    if not kw or rng.random() < 0.25:
        free = [n for n in KWARGS_NAMES if n not in params]
        kw.append((rng.choice(free), rng.choice([
            {"doc": "pass this as arguments to the loader function", "typ": "Optional[dict]", "default": "```(None)```"},
            {"doc": "extra keyword arguments.", "typ": "dict"},
            {"doc": "forwarded as they are", "typ": "Optional[dict]", "default": "```(None)```"},
            {"typ": "dict", "doc": "keyword arguments"}])))
    items = [(n, params[n]) for n in names]
    where = rng.choice(["first", "middle", "middle"]) if len(names) > 1 else "first"
    for k, e in enumerate(kw):
        if k > 0:
            pos = rng.randrange(0, len(items))          # a second one anywhere before the last entry
        elif where == "first":
            pos = 0
        else:
            pos = rng.randrange(1, len(items))
        items.insert(pos, e)
    tags.append("kwargs:" + ("several" if len(kw) > 1 else where))
    return OrderedDict(items)


def gen_ir_spec(rng):
    ir, tags = gen_ir.gen_ir(rng, clean=rng.random() < 0.4)
    if rng.random() < 0.3:
        ir["params"] = place_kwargs(rng, ir["params"], tags)
    spec = {"name": "f", "type": "static", "doc": ir["doc"],
            "params": OrderedDict((k, dict(v)) for k, v in ir["params"].items()),
            "returns": None if ir["returns"] is None else OrderedDict((k, dict(v)) for k, v in ir["returns"].items())}
    if rng.random() < 0.4:
        pn = list(spec["params"])
        spec["_internal"] = {"body_src": fam_emitast.gen_body_src(rng, pn), "from_name": rng.choice(["f", "C", "set_cli_args"]),
                             "from_type": "static"}
        tags.append("body")
    return spec, tags


def explore(spec, ops, maxlen):
    """-> (evaluations, failures[list of dict(seq, td_mutated, what)])"""
    ir0 = fam_emitast.materialise_ir(spec)
    fresh = [apply_op(o, copy.deepcopy(ir0)) for o in ops]
    failures, evals, wrote = [], [0], []

    def rec(prefix, state, td_mut, failed):
        if len(prefix) == maxlen:
            return
        for j, o in enumerate(ops):
            ir = copy.deepcopy(state)
            before, sbefore = snapshot(ir), strict_snapshot(ir)
            art = apply_op(o, ir)
            evals[0] += 1
            safter = strict_snapshot(ir)
            changed = snapshot(ir) != before or safter != sbefore
            seq = prefix + [j]
            bad = art != fresh[j]
            if bad and not failed:
                failures.append({"seq": seq, "td_mutated": td_mut,
                                 "what": "call %d (%s) of the sequence differs from the same call on a fresh copy"
                                         % (len(seq), o["k"])})
            elif changed and not failed and not wrote:
                # the call left its mark on the caller's IR (compared order-sensitively, nested mappings included):
                # what a later conversion of this object sees is no longer what a fresh copy gives it
                wrote.append(1)
                failures.append({"seq": seq, "td_mutated": td_mut or o["k"] == "docstring", "ir_written": True,
                                 "what": "call %d (%s) of the sequence wrote into the shared IR: %s"
                                         % (len(seq), o["k"], _first_change(sbefore, safter))})
            rec(seq, ir, td_mut or (changed and o["k"] == "docstring"), failed or bad)
    rec([], ir0, False, False)
    return evals[0], failures


# ------------------------------------------------------------------ parsers on a shared tree
def parser_checks(rng, spec, maxlen):
    """-> (evaluations, failures)"""
    m = impl()
    failures, evals = [], 0
    ir0 = fam_emitast.materialise_ir(spec)
    nodes = []
    try:
        irb = copy.deepcopy(ir0)
        irb["_internal"] = {"body": ast.parse(fam_emitast.gen_body_src(rng, list(ir0["params"]))).body,
                            "from_name": "f", "from_type": "static"}
        nodes.append(("function", m.emit.function(irb, "f", "static", inline_types=rng.random() < 0.5)))
    except Exception:  # noqa
        pass
    try:
        nodes.append(("class", m.emit.class_(copy.deepcopy(ir0))))
    except Exception:  # noqa
        pass
    try:
        nodes.append(("argparse", m.emit.argparse_function(copy.deepcopy(ir0))))
    except Exception:  # noqa
        pass
    for kind, node in nodes:
        try:
            node = ast.parse(ast.unparse(ast.fix_missing_locations(node))).body[0]
        except Exception:  # noqa
            continue
        parsers = {"class": [("class_", m.parse.class_)],
                   "function": [("function", m.parse.function)],
                   "argparse": [("argparse_ast", m.parse.argparse_ast), ("function", m.parse.function)]}[kind]
        emitters = [("emit.docstring", lambda ir: m.emit.docstring(ir)),
                    ("emit.class_", lambda ir: m.emit.class_(ir, emit_call=True)),
                    ("emit.function", lambda ir: m.emit.function(ir, ir.get("name") or "f", ir.get("type") or "static")),
                    ("emit.argparse", lambda ir: m.emit.argparse_function(ir, function_name=ir.get("name"))),
                    ("emit.docstring", lambda ir: m.emit.docstring(ir))]
        if rng.random() < 0.5:
            emitters = emitters[1:]
        dump0 = ast.dump(node)

        def run(f, arg):
            try:
                return f(arg)
            except Exception as e:  # noqa
                return "<raised %s>" % exc_kind(e)

        def show(r):
            if isinstance(r, ast.AST):
                return ast.dump(r)
            if isinstance(r, dict):
                return snapshot(r)
            return repr(r)
        fresh_p = {n: show(run(f, copy.deepcopy(node))) for n, f in parsers}
        import itertools
        for L in range(1, maxlen + 1):
            for seq in itertools.product(range(len(parsers)), repeat=L):
                shared = copy.deepcopy(node)
                for step, j in enumerate(seq):
                    n, f = parsers[j]
                    r = run(f, shared)
                    evals += 1
                    if ast.dump(shared) != dump0:
                        failures.append({"case": {"kind": kind, "seq": [parsers[x][0] for x in seq[:step + 1]]},
                                         "what": "parse.%s altered the tree it was given" % n, "class": None})
                        break
                    if show(r) != fresh_p[n]:
                        failures.append({"case": {"kind": kind, "seq": [parsers[x][0] for x in seq[:step + 1]]},
                                         "what": "parse.%s on the shared tree differs from a fresh parse" % n, "class": None})
                        break
                    if isinstance(r, dict) and step == len(seq) - 1:
                        # emit from the IR whose carried body aliases the shared tree; twice, then parse again
                        pristine = copy.deepcopy(r)
                        for ek, (en, ef) in enumerate(emitters):
                            sb = strict_snapshot(r)
                            a1 = show(run(ef, r))
                            evals += 1
                            if ast.dump(shared) != dump0:
                                failures.append({"case": {"kind": kind, "seq": [parsers[x][0] for x in seq] + [en]},
                                                 "what": "%s altered the tree its IR's body aliases" % en, "class": None})
                                break
                            # the IR a parser returned, shared by the emitters (what sync does with its truth)
                            if a1 != show(run(ef, copy.deepcopy(pristine))):
                                failures.append({"case": {"kind": kind, "src": ast.unparse(node),
                                                          "seq": [parsers[x][0] for x in seq] + [e[0] for e in emitters[:ek + 1]]},
                                                 "what": "%s on the IR parse.%s returned, after the emitters before it, differs from the same call on a fresh copy of that IR" % (en, n),
                                                 "class": None})
                                break
                            sa = strict_snapshot(r)
                            if sa != sb:
                                failures.append({"case": {"kind": kind, "src": ast.unparse(node),
                                                          "seq": [parsers[x][0] for x in seq] + [en]},
                                                 "what": "%s wrote into the IR parse.%s returned: %s" % (en, n, _first_change(sb, sa)),
                                                 "class": None})
                                break
                        r2 = show(run(f, shared))
                        if r2 != fresh_p[n]:
                            failures.append({"case": {"kind": kind, "seq": [parsers[x][0] for x in seq] + ["emitters", n]},
                                             "what": "parse.%s after emitting from its IR differs from a fresh parse" % n,
                                             "class": None})
    return evals, failures


# ------------------------------------------------------------------ parsers on one WRITTEN module (source strata)
# The trees above are what the emitters print: no `__init__`, no method receivers, one definition per tree.  What a
# caller of gen / sync holds is one module tree with several definitions in it, parsed one after the other (and more
# than once: one class goes to several targets), the IRs of the earlier parses still in its hands.
RECEIVERS = ["self", "self", "self", "self", "cls", "cls", "this", "_", "me", "obj", "instance", None]
STUB_BODIES = ["raise NotImplementedError()", "pass", "...", "raise NotImplementedError", "return None"]
RETURN_ENTRIES = [("int", "the result."), ("float", "scaled reading"), ("str", "Trained model"), ("List[int]", "the numbers"),
                  ("bool", "whether it worked."), ("Tuple[int, int]", "a pair")]
RET_ANNS = ["", "", "", " -> int", " -> float", " -> str", " -> List[int]", " -> Optional[str]"]


TRAILING_PARAGRAPHS = ["Example usage is shown in the README.\nSee also the tests.", "This call blocks until the device answers.",
                       "The defaults suit a laptop; raise them on a server.\n\nNothing is written to disk.",
                       "Deprecated since 2.0, kept for the old clients."]
TRAILING_SECTIONS = {"google": ["Example:\n  call it with the defaults", "Note:\n  not thread safe", "Raises:\n  ValueError: when empty"],
                     "numpydoc": ["Notes\n-----\nnot thread safe", "Examples\n--------\ncall it with the defaults", "Example:\n  call it"],
                     "rest": [".. note:: not thread safe", ":raises ValueError: when empty"]}


def _trailing_prose(rng, doc, style, tags, p=0.4):
    """with probability p the docstring text gets prose AFTER its parameter section, as written docstrings have it: one
    or two section-less paragraphs, or a further section (Example / Note / Raises), at the very end of the text or
    between the parameter section and the Returns section (stratum `trailing:<where>:<what>`)"""
    if rng.random() >= p:
        return doc
    what = rng.choice(["paragraph", "paragraph", "paragraph", "section", "both"])
    extra = []
    if what in ("paragraph", "both"):
        extra.append(rng.choice(TRAILING_PARAGRAPHS))
    if what in ("section", "both"):
        extra.append(rng.choice(TRAILING_SECTIONS[style]))
    if rng.random() < 0.3:
        extra.reverse()
    extra = "\n\n".join(extra)
    lines = doc.rstrip("\n").split("\n")
    rk = next((i for i, l in enumerate(lines) if l in ("Returns:", "Returns") or l.startswith(":returns:")), None)
    if rk is not None and rng.random() < 0.5:
        while rk > 0 and not lines[rk - 1].strip():
            rk -= 1
        lines[rk:rk] = [""] + extra.split("\n")
        where = "before-returns"
    else:
        lines += [""] + extra.split("\n")
        where = "end" if rk is None else "after-returns"
    tags.append("trailing:%s:%s" % (where, what))
    return "\n".join(lines) + "\n"


def _return_tail(rng, ps):
    """the closing statements of an implementation: mostly a `return <expression>`"""
    a = ps[0]["name"] if ps else "1"
    b = ps[-1]["name"] if ps else "2"
    expr = rng.choice([a, "%s * 2" % a, "%s + %s" % (a, b), "%s, %s" % (a, b), "(%s, %s)" % (a, b), "5", "'x'", "0.5", "None",
                       "[%s]" % a, "%s * gain + offset" % a, "True", "{'%s': %s}" % (a, a), "str(%s)" % a])
    pre = rng.choice([[], [], ["offset = 0.5", "gain = 2"], ["print(%s)" % a], ["if %s:\n        return 7" % a]])
    if rng.random() < 0.1:
        return pre + [rng.choice(["pass", "return"])]
    return pre + ["return " + expr]


def gen_tree_module(rng):
    """-> {"src", "targets": [{"path", "parser", "kw", "label"}], "tags"}: one module text with
      * doc-sharing groups (stratum `shared-doc`): an interface class whose stub methods carry a docstring, and the
        implementations (top-level functions, sometimes a second one) with the CHARACTER-IDENTICAL docstring - with and
        without a return entry, stub bodies without a value, implementation bodies that end in `return <expr>`, with
        and without a `->` annotation: whatever is remembered per docstring text shows between their parses;
      * a class with attributes and an `__init__` to be merged (parse.class_(..., merge_inner_function='__init__') and
        without), whose instance argument is called self / cls / anything else / is absent (stratum `receiver:<name>`);
      * an argparse function (parse.argparse_ast, and parse.function on the same node);
      * an ordinary function of fam_parsesig's signature shapes (keyword-only, *args, **kwargs, partial docs).
    The docstrings of the doc-sharing groups and of the `__init__` have, in a share of the modules, prose AFTER their
    parameter section (_trailing_prose: section-less paragraphs, further sections; at the end or before Returns).
    Every target names a node of the ONE tree by its path of body indices."""
    import c12_scen as S
    import fam_parsesig
    blocks, targets, tags = [], [], []

    def add(src, entries):
        """entries: (path inside this block, parser, kw, label)"""
        k = len(blocks)
        blocks.append(src.rstrip("\n") + "\n")
        for sub, parser, kw, label in entries:
            targets.append({"path": [k] + sub, "parser": parser, "kw": kw, "label": label})

    # ---- doc-sharing groups
    for g in range(rng.choice([0, 1, 1, 1, 2])):
        ps, _t = S.gen_params(rng, allow_fail=False)
        for p in ps:
            p["sentence"] = p["sentence"].replace("\n", " ")
        style = rng.choice(["rest", "rest", "google", "numpydoc"])
        ret = rng.choice(RETURN_ENTRIES) if rng.random() < 0.7 else None
        doc = S.render_doc(rng, style, rng.choice(S.SUMMARIES), ps, ret)
        tags.append("shared-doc:%s:%s" % (style, "returns" if ret else "no-returns"))
        doc = _trailing_prose(rng, doc, style, tags)
        fname = rng.choice(S.FUNC_NAMES) + ("" if g == 0 else str(g))
        sig = S._sig(rng, ps)
        ann = rng.choice(RET_ANNS)
        layout = rng.choice(["stub+impl", "stub+impl", "stub+impl", "impl+impl", "stub+impl+impl", "stub+stub"])
        tags.append("layout:" + layout)
        stub_src = ["class %s(object):" % rng.choice(["Interface", "Base", "Sensor", "Protocol_"]) + ("" if g == 0 else ""),
                    '    """ the interface """', ""]
        n_stub = layout.count("stub")
        n_impl = layout.count("impl")
        entries = []
        for k in range(n_stub):
            recv = rng.choice(["self", "self", "self", "cls"])
            stub_src += ["    def %s(%s)%s:" % (fname if k == 0 else fname + "_too", ", ".join([recv] + ([sig] if sig else [])),
                                               ann if rng.random() < 0.7 else rng.choice(RET_ANNS)),
                         S._quote(doc, "        "), "        " + rng.choice(STUB_BODIES), ""]
            entries.append(([len(entries) + 1], "function", {}, "stub %s" % fname))
        if n_stub:
            # the paths of the methods: body[0] is the class docstring, then one FunctionDef per stub
            add("\n".join(stub_src), entries)
        impls = []
        for k in range(n_impl):
            name = fname if k == 0 else fname + "_v%d" % (k + 1)
            body = _return_tail(rng, ps)
            src = "\n".join(["def %s(%s)%s:" % (name, sig, ann if rng.random() < 0.5 else rng.choice(RET_ANNS)), S._quote(doc, "    ")]
                            + ["    " + l for l in body])
            impls.append((src, [([], "function", {}, "implementation %s" % name)]))
        if rng.random() < 0.3:
            impls.reverse()
        for src, e in impls:
            add(src, e)
    # ---- a class with an __init__ to merge
    if rng.random() < 0.8:
        style = rng.choice(["rest", "rest", "google", "numpydoc"])
        ps, _t = S.gen_params(rng, allow_fail=False)
        ips, _t = S.gen_params(rng, allow_fail=False)
        if rng.random() < 0.3:
            ips = ps                                              # attributes and constructor arguments coincide
        recv = rng.choice(RECEIVERS)
        decorators = ()
        if recv is None and rng.random() < 0.6:
            decorators = ("@staticmethod",)
        elif recv == "cls" and rng.random() < 0.5:
            decorators = ("@classmethod",)
        tags.append("receiver:%s" % (recv if recv in ("self", "cls") else "none" if recv is None else "other"))
        r = rng.random()
        istyle = rng.choice(["rest", "google", "numpydoc"])
        idoc = "" if r < 0.25 else S._quote(_trailing_prose(rng, S.render_doc(rng, istyle, rng.choice(["Construct it", ""]), ips,
                                                                           rng.choice(RETURN_ENTRIES) if rng.random() < 0.15 else None),
                                                            istyle, tags), "        ")
        inner = S._init(rng, ips, idoc, receiver=recv, decorators=decorators)
        if rng.random() < 0.2:
            inner += "\n\n    def __call__(self, x):\n        return x"
        src = S.gen_class(rng, ps, [], style, inner=inner)
        ntop = len(ast.parse(src).body[0].body)
        entries = []
        how = rng.choice(["merge", "merge", "merge", "both", "both", "plain"])
        if how in ("merge", "both"):
            entries.append(([], "class_", {"merge_inner_function": "__init__"}, "class, __init__ merged"))
        if how in ("plain", "both"):
            entries.append(([], "class_", {}, "class"))
        if rng.random() < 0.3:
            # the constructor on its own, too (what sync does with a `Class.method` path)
            k = next(i for i, st in enumerate(ast.parse(src).body[0].body) if isinstance(st, ast.FunctionDef) and st.name == "__init__")
            entries.append(([k], "function", {}, "__init__ of the class"))
            assert k < ntop
        tags.append("class:" + how)
        add(src, entries)
    # ---- an argparse function
    if rng.random() < 0.5:
        ps, _t = S.gen_params(rng, allow_fail=False)
        src = S.gen_argparse(rng, ps, [], choices=0.2)
        entries = [([], "argparse_ast", {}, "argparse function")]
        if rng.random() < 0.4:
            entries.append(([], "function", {}, "argparse function read as a function"))
        tags.append("argparse")
        add(src, entries)
    # ---- an ordinary definition of the signature strata
    if rng.random() < 0.4 or not targets:
        for _ in range(20):
            src, info = fam_parsesig.gen_def(rng, kind="static", name=rng.choice(["g", "h", "run_all"]))
            if fam_parsesig._ok_source(src):
                tags.append("plain-def")
                add(src, [([], "function", {}, "function g")])
                break
    order = list(range(len(blocks)))
    if rng.random() < 0.3:                                        # the definitions in another order in the file
        rng.shuffle(order)
        pos = {old: new for new, old in enumerate(order)}
        for t in targets:
            t["path"][0] = pos[t["path"][0]]
    head = "from typing import List, Optional, Tuple\n\n\n"
    src = head + "\n\n".join(blocks[o] for o in order)
    for t in targets:
        t["path"][0] += 1                                         # the import statement is body[0]
    if len(targets) > 4:
        # keep the sequences enumerable: four targets, chosen so that doc-sharing partners stay together
        keep = targets[:2] + rng.sample(targets[2:], 2)
        targets = [t for t in targets if t in keep]
    return {"src": src, "targets": targets, "tags": tags}


_ADDRESS = __import__("re").compile(r" at 0x[0-9a-fA-F]+>")


def _node_at(tree, path):
    node = tree
    for k in path:
        node = node.body[k]
    return node


def _tree_emitters(m):
    return [("emit.docstring", lambda ir: m.emit.docstring(ir)),
            ("emit.class_", lambda ir: m.emit.class_(ir, emit_call=True)),
            ("emit.function", lambda ir: m.emit.function(ir, ir.get("name") or "f", ir.get("type") or "static")),
            ("emit.argparse", lambda ir: m.emit.argparse_function(ir, function_name=ir.get("name"))),
            ("emit.docstring", lambda ir: m.emit.docstring(ir))]


def explore_tree(mod, maxlen, emit_share=1.0, rng=None):
    """every sequence (with repetition, up to maxlen) of the module's parse targets on ONE tree object, the returned
    IRs kept by the caller.  After every call: the tree still dumps as before; every IR an earlier call returned is
    still what it was when it was returned (order-sensitive picture, carried bodies included); the result equals the
    one the same call gave on an untouched copy of the tree at the start.  After the last call of a sequence the
    emitters run on the IR it returned (its carried body aliases the tree), then the target is parsed once more.
    -> (evaluations, failures)"""
    import itertools
    import json
    m = impl()
    try:
        tree0 = ast.parse(mod["src"])
    except SyntaxError:
        return 0, []
    targets = mod["targets"]
    fns = {"function": m.parse.function, "class_": m.parse.class_, "argparse_ast": m.parse.argparse_ast}
    dump0 = ast.dump(tree0)
    evals, failures = 0, []

    def run(f, *a, **kw):
        try:
            return f(*a, **kw)
        except Exception as e:  # noqa
            return "<raised %s>" % exc_kind(e)

    def show(r):
        # an IR that holds a raw ast node as a default (the open C12 finding) is printed with the node's memory address,
        # and a deep copy of that IR has its nodes elsewhere: the address says nothing about interference
        if isinstance(r, ast.AST):
            return _ADDRESS.sub(" at 0x?>", ast.dump(r))
        if isinstance(r, dict):
            return json.dumps(strict_snapshot(r))
        return _ADDRESS.sub(" at 0x?>", repr(r))

    def call(j, tree):
        t = targets[j]
        return run(fns[t["parser"]], _node_at(tree, t["path"]), **t["kw"])

    def label(j):
        t = targets[j]
        return "parse.%s(%s%s)" % (t["parser"], t["label"], "".join(", %s=%r" % kv for kv in sorted(t["kw"].items())))

    def fail(seq, what):
        failures.append({"case": {"tree": {"src": mod["src"], "targets": targets, "maxlen": maxlen},
                                  "seq": [label(x) for x in seq]}, "what": what, "class": None})
    # the reference: each target on its own untouched copy of the tree
    fresh = []
    for j in range(len(targets)):
        fresh.append(show(call(j, copy.deepcopy(tree0))))
        evals += 1
    emitters = _tree_emitters(m)
    for L in range(1, maxlen + 1):
        for seq in itertools.product(range(len(targets)), repeat=L):
            if len(failures) >= 3:                      # enough witnesses from one module
                return evals, failures
            shared = copy.deepcopy(tree0)
            held = []                                   # (position in seq, IR object, its picture when it was returned)
            ok = True
            for step, j in enumerate(seq):
                r = call(j, shared)
                evals += 1
                if ast.dump(shared) != dump0:
                    fail(seq[:step + 1], "%s altered the tree it was given (call %d on this tree): %s"
                         % (label(j), step + 1, _tree_change(tree0, shared)))
                    ok = False
                    break
                for pos, ir, pic in held:
                    now = strict_snapshot(ir)
                    if now != pic:
                        fail(seq[:step + 1], "%s changed the IR that call %d (%s) had returned to the caller: %s"
                             % (label(j), pos + 1, label(seq[pos]), _first_change(pic, now)))
                        ok = False
                        break
                if not ok:
                    break
                if show(r) != fresh[j]:
                    fail(seq[:step + 1], "%s as call %d on the shared tree differs from what the same call gave on an untouched copy "
                         "of the tree at the start (before the other parses of this module ran in this process: %s)"
                         % (label(j), step + 1, [label(x) for x in range(len(targets))]))
                    ok = False
                    break
                if isinstance(r, dict):
                    held.append((step, r, strict_snapshot(r)))
            if not ok or not held or held[-1][0] != len(seq) - 1:
                continue
            if emit_share < 1.0 and rng is not None and rng.random() >= emit_share:
                continue
            # emit from the IR of the last call (what sync does with its truth), then parse that target again
            j = seq[-1]
            _pos, r, _pic = held.pop()
            pristine = copy.deepcopy(r)
            for ek, (en, ef) in enumerate(emitters):
                sb = strict_snapshot(r)
                a1 = show(run(ef, r))
                evals += 1
                if ast.dump(shared) != dump0:
                    fail(seq, "%s on the IR of %s altered the tree that IR's body aliases: %s" % (en, label(j), _tree_change(tree0, shared)))
                    ok = False
                    break
                if a1 != show(run(ef, copy.deepcopy(pristine))):
                    fail(seq, "%s on the IR %s returned, after %s, differs from the same call on a fresh copy of that IR"
                         % (en, label(j), [e[0] for e in emitters[:ek]]))
                    ok = False
                    break
                sa = strict_snapshot(r)
                if sa != sb:
                    fail(seq, "%s wrote into the IR %s returned: %s" % (en, label(j), _first_change(sb, sa)))
                    ok = False
                    break
                for pos, ir, pic in held:
                    now = strict_snapshot(ir)
                    if now != pic:
                        fail(seq, "%s on the IR of %s changed the IR that call %d (%s) had returned: %s"
                             % (en, label(j), pos + 1, label(seq[pos]), _first_change(pic, now)))
                        ok = False
                        break
                if not ok:
                    break
            if ok:
                evals += 1
                if show(call(j, shared)) != fresh[j]:
                    fail(seq, "%s after emitting from its IR differs from the same call on an untouched copy of the tree" % label(j))
    return evals, failures


def _tree_change(a, b):
    """the first line at which two trees unparse differently (for the report)"""
    try:
        x, y = ast.unparse(a).split("\n"), ast.unparse(b).split("\n")
    except Exception:  # noqa
        return "(not unparsable)"
    for l1, l2 in zip(x, y):
        if l1 != l2:
            return "%r -> %r" % (l1.strip()[:110], l2.strip()[:110])
    if len(x) != len(y):
        return "%d lines -> %d lines" % (len(x), len(y))
    return "a field outside the printed text"


def check_case(case):
    if "tree" in case:
        t = case["tree"]
        _ev, fs = explore_tree({"src": t["src"], "targets": t["targets"]}, t.get("maxlen", 3))
        return (not fs), (fs[0]["what"] if fs else "")
    if "seq" in case and "spec" in case:
        spec = dict(case["spec"])
        if case.get("param_order") is not None:          # replays are written with sorted keys: the order is kept apart
            spec["params"] = OrderedDict((n, spec["params"][n]) for n in case["param_order"])
        ir0 = fam_emitast.materialise_ir(spec)
        ops = case["ops"]
        ir = copy.deepcopy(ir0)
        for j in case["seq"][:-1]:
            apply_op(ops[j], ir)
        last = ops[case["seq"][-1]]
        sbefore = strict_snapshot(ir)
        a, b = apply_op(last, ir), apply_op(last, copy.deepcopy(ir0))
        if a != b:
            return False, "last call of the sequence differs from the same call on a fresh copy"
        if case.get("ir_written") and strict_snapshot(ir) != sbefore:
            return False, "last call of the sequence wrote into the shared IR: %s" % _first_change(sbefore, strict_snapshot(ir))
        return True, ""
    return True, ""


def oracle(rng, tier):
    n_ir = 45 if tier == "quick" else 160
    maxlen = 3 if tier == "quick" else 4
    failures, hist, seen = [], collections.Counter(), set()
    total = 0
    pending = []
    for _ in range(n_ir):
        spec, tags = gen_ir_spec(rng)
        ops = gen_ops(rng)
        ev, fs = explore(spec, ops, maxlen)
        total += ev
        key = snapshot(fam_emitast.materialise_ir(spec))
        if len(spec["params"]) >= 2 or spec.get("returns") or "_internal" in spec:
            seen.add(key)
        hist["ir:%s:%s" % ("returns" if spec.get("returns") else "no-returns", "body" if "_internal" in spec else "no-body")] += 1
        for t in tags:
            if t.startswith("kwargs"):
                hist["ir:" + t] += 1
        if not fs:
            hist["ir-without-interference"] += 1
        for f in fs:
            pending.append((spec, ops, f))
    reqs = [dumps([Sym("c13_class"), [op_wire(ops[j]) for j in f["seq"]], irwire.enc_ir(fam_emitast.materialise_ir(spec)),
                   f["td_mutated"]]) for spec, ops, f in pending]
    outs = run_model(reqs)
    per_class_kept = collections.Counter()
    for (spec, ops, f), o in zip(pending, outs):
        e = loads(o)
        cls = None if e == "none" else unhx(e[1])
        hist["fails:" + (cls or "in-guard")] += 1
        per_class_kept[cls] += 1
        if cls is None or per_class_kept[cls] <= 25:
            failures.append({"case": dict({"spec": spec, "param_order": list(spec["params"]), "ops": ops, "seq": f["seq"],
                                           "td_mutated": f["td_mutated"]},
                                          **({"ir_written": True} if f.get("ir_written") else {})),
                             "what": f["what"], "class": cls})
    # parsers on a shared tree
    n_p = 12 if tier == "quick" else 60
    for _ in range(n_p):
        spec, _tags = gen_ir_spec(rng)
        spec.pop("_internal", None)
        ev, fs = parser_checks(rng, spec, 3 if tier == "quick" else 4)
        total += ev
        hist["parser-trees"] += 1
        for f in fs:
            hist["fails:parsers"] += 1
            failures.append(f)
    # parsers on one written module: several definitions (doc-sharing stubs and implementations, classes with an
    # __init__ under any receiver name, argparse functions) in one tree, every parse sequence up to maxlen
    n_m = 24 if tier == "quick" else 60
    for _ in range(n_m):
        mod = gen_tree_module(rng)
        ev, fs = explore_tree(mod, 3 if tier == "quick" else 4, emit_share=0.5 if tier == "quick" else 0.3, rng=rng)
        total += ev
        hist["module-trees"] += 1
        hist["module-trees:targets:%d" % len(mod["targets"])] += 1
        for t in mod["tags"]:
            hist["module:" + t] += 1
        if len(mod["targets"]) >= 2:
            seen.add(mod["src"])
        for f in fs:
            hist["fails:module-parsers"] += 1
            failures.append(f)
    return {
        "evaluations": total,
        "distinct_nontrivial": len(seen),
        "rule": "IRs (with/without return entry, with/without carried body) x all call sequences with repetition up to "
                "length %d over {class_, function, argparse_function, docstring}; non-trivial = distinct IR with >= 2 "
                "parameters, a return entry or a body; the IR is compared before/after every call order-sensitively "
                "(key order of params / of each parameter / of returns); IR strata with a ...kwargs parameter that is "
                "not last; plus parser sequences on shared trees, the parsed IR shared by all four emitters; plus written "
                "modules (interface stubs and implementations with the character-identical docstring, with/without a "
                "return entry and a return statement, with and without paragraphs / further sections after the parameter "
                "section - at the end of the text or before Returns; classes whose __init__ calls its instance self / cls / any other "
                "name / nothing, parsed with and without merge_inner_function; argparse functions; plain definitions): "
                "every sequence of parse calls up to that length on ONE tree object, ast.dump of the tree after every "
                "call, every IR the caller already holds compared after every later call, every result against the "
                "same call on an untouched copy, then the emitters on the last IR and one more parse" % maxlen,
        "failures": failures,
        "histogram": dict(hist),
        "samples": [],
    }
