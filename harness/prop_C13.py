"""C13 - conversions do not interfere through shared inputs.

Oracle on the implementation: one IR object handed to every call of a sequence over {emit.class_, emit.function,
emit.argparse_function, emit.docstring} (each with options drawn per IR), all sequences with repetition up to
length 3 (quick) / 4 (thorough); the artefact of every call is compared with the artefact the same call gives on
a fresh deep copy (ast.dump of the node / the docstring text; an exception counts as its kind).
Second part: the three parsers applied repeatedly to one shared AST node (and emitters applied to the IRs they
return, whose `_internal` bodies alias the tree): ast.dump of the tree before/after, and every result against
the result on a fresh copy.
Failures are classified by finding_class_C13 (coq/model/C13Spec.v) through the driver."""
import ast
import collections
import copy
from collections import OrderedDict

from common import Sym, dumps, loads, opt, impl, run_model, unhx, exc_kind
import irwire
import gen_ir
import fam_emitast

ID = "C13"
COQ_PROP = "C13"
import fam_docemit  # noqa: E402

# the docstring emitter is the fourth shared-input conversion (its purity is the premise of theorem C13)
FAMILIES = [(fam_emitast, 3000, 40000), (fam_docemit, 1500, 20000)]
TECHNIQUE = ("Coq proof (the three AST emitters write nothing into the IR; non-interference by induction over call sequences "
             "of any length; emit.docstring abstract with the hypothesis that it does not write) + differential "
             "correspondence of EmitAst.v (artefact AND post-call IR) "
             "+ exhaustive enumeration of call sequences up to length 3/4 on the implementation")
TRUSTED = [
    "the TEXT to_docstring / emit.docstring return is a parameter of the theorems (another layer's model); that "
    "to_docstring does not write into the IR is part of the EmitAst model and compared after every call by the emitast family",
    "emit.docstring as a call on the shared IR is abstract (doc_op); whether it rewrote the shared IR in a run is observed "
    "by the harness and passed to the class function (the full statement assumes it does not: doc_pure)",
    "ast.parse on code strings outside TyExpr's fragment is an input table",
    "the parsers' side (parse.class_/function/argparse_ast do not alter the tree) is checked by execution only",
]


# ------------------------------------------------------------------ ops
def gen_ops(rng):
    """one option assignment per emitter kind (+ sometimes a second variant of one of them)"""
    ww = rng.random() < 0.5
    ops = [
        {"k": "class", "emit_call": rng.random() < 0.5, "class_name": "C", "word_wrap": ww,
         "emit_default_doc": rng.random() < 0.5},
        {"k": "function", "function_name": "f", "function_type": rng.choice(["static", "self", "cls"]), "word_wrap": ww,
         "emit_default_doc": rng.random() < 0.5, "indent_level": rng.choice([0, 1, 2]),
         "emit_separating_tab": rng.random() < 0.5, "inline_types": rng.random() < 0.5,
         "emit_as_kwonlyargs": rng.random() < 0.5},
        {"k": "argparse", "emit_default_doc": rng.random() < 0.5, "function_name": "set_cli_args", "function_type": "static",
         "wrap_description": rng.random() < 0.5, "word_wrap": ww},
        {"k": "docstring", "word_wrap": ww, "emit_default_doc": rng.random() < 0.5},
    ]
    return ops


def op_wire(o):
    k = o["k"]
    if k == "class":
        return [Sym("class"), o["emit_call"], o["class_name"], ["object"], [], o["word_wrap"], o["emit_default_doc"]]
    if k == "function":
        return [Sym("function"), opt(o["function_name"]), opt(o["function_type"]), o["word_wrap"], o["emit_default_doc"],
                o["indent_level"], o["emit_separating_tab"], o["inline_types"], o["emit_as_kwonlyargs"]]
    if k == "argparse":
        return [Sym("argparse"), o["emit_default_doc"], opt(o["function_name"]), opt(o["function_type"]),
                o["wrap_description"], o["word_wrap"]]
    return [Sym("docstring"), o["word_wrap"], o["emit_default_doc"]]


def apply_op(o, ir):
    """the artefact as a comparable value; the IR object is used as it is (mutated in place)"""
    m = impl()
    k = o["k"]
    try:
        if k == "class":
            return ast.dump(m.emit.class_(ir, emit_call=o["emit_call"], class_name=o["class_name"], word_wrap=o["word_wrap"],
                                          emit_default_doc=o["emit_default_doc"]))
        if k == "function":
            return ast.dump(m.emit.function(ir, function_name=o["function_name"], function_type=o["function_type"],
                                            word_wrap=o["word_wrap"], emit_default_doc=o["emit_default_doc"],
                                            indent_level=o["indent_level"], emit_separating_tab=o["emit_separating_tab"],
                                            inline_types=o["inline_types"], emit_as_kwonlyargs=o["emit_as_kwonlyargs"]))
        if k == "argparse":
            return ast.dump(m.emit.argparse_function(ir, emit_default_doc=o["emit_default_doc"],
                                                     function_name=o["function_name"], function_type=o["function_type"],
                                                     wrap_description=o["wrap_description"], word_wrap=o["word_wrap"]))
        return m.emit.docstring(ir, word_wrap=o["word_wrap"], emit_default_doc=o["emit_default_doc"])
    except Exception as e:  # noqa
        return "<raised %s>" % exc_kind(e)


def snapshot(ir):
    try:
        return dumps(irwire.enc_ir(ir))
    except Exception:  # noqa
        return repr(ir)


def gen_ir_spec(rng):
    ir, tags = gen_ir.gen_ir(rng, clean=rng.random() < 0.4)
    spec = {"name": "f", "type": "static", "doc": ir["doc"],
            "params": OrderedDict((k, dict(v)) for k, v in ir["params"].items()),
            "returns": None if ir["returns"] is None else OrderedDict((k, dict(v)) for k, v in ir["returns"].items())}
    if rng.random() < 0.4:
        pn = list(spec["params"])
        spec["_internal"] = {"body_src": fam_emitast.gen_body_src(rng, pn), "from_name": rng.choice(["f", "C", "set_cli_args"]),
                             "from_type": "static"}
        tags.append("body")
    return spec, tags


def explore(spec, ops, maxlen):
    """-> (evaluations, failures[list of dict(seq, td_mutated, what)])"""
    ir0 = fam_emitast.materialise_ir(spec)
    fresh = [apply_op(o, copy.deepcopy(ir0)) for o in ops]
    failures, evals = [], [0]

    def rec(prefix, state, td_mut, failed):
        if len(prefix) == maxlen:
            return
        for j, o in enumerate(ops):
            ir = copy.deepcopy(state)
            before = snapshot(ir)
            art = apply_op(o, ir)
            evals[0] += 1
            changed = snapshot(ir) != before
            seq = prefix + [j]
            bad = art != fresh[j]
            if bad and not failed:
                failures.append({"seq": seq, "td_mutated": td_mut,
                                 "what": "call %d (%s) of the sequence differs from the same call on a fresh copy"
                                         % (len(seq), o["k"])})
            rec(seq, ir, td_mut or (changed and o["k"] == "docstring"), failed or bad)
    rec([], ir0, False, False)
    return evals[0], failures


# ------------------------------------------------------------------ parsers on a shared tree
def parser_checks(rng, spec, maxlen):
    """-> (evaluations, failures)"""
    m = impl()
    failures, evals = [], 0
    ir0 = fam_emitast.materialise_ir(spec)
    nodes = []
    try:
        irb = copy.deepcopy(ir0)
        irb["_internal"] = {"body": ast.parse(fam_emitast.gen_body_src(rng, list(ir0["params"]))).body,
                            "from_name": "f", "from_type": "static"}
        nodes.append(("function", m.emit.function(irb, "f", "static", inline_types=rng.random() < 0.5)))
    except Exception:  # noqa
        pass
    try:
        nodes.append(("class", m.emit.class_(copy.deepcopy(ir0))))
    except Exception:  # noqa
        pass
    try:
        nodes.append(("argparse", m.emit.argparse_function(copy.deepcopy(ir0))))
    except Exception:  # noqa
        pass
    for kind, node in nodes:
        try:
            node = ast.parse(ast.unparse(ast.fix_missing_locations(node))).body[0]
        except Exception:  # noqa
            continue
        parsers = {"class": [("class_", m.parse.class_)],
                   "function": [("function", m.parse.function)],
                   "argparse": [("argparse_ast", m.parse.argparse_ast), ("function", m.parse.function)]}[kind]
        emitters = [("emit.class_", lambda ir: m.emit.class_(ir, emit_call=True)),
                    ("emit.function", lambda ir: m.emit.function(ir, ir.get("name") or "f", ir.get("type") or "static")),
                    ("emit.argparse", lambda ir: m.emit.argparse_function(ir, function_name=ir.get("name")))]
        dump0 = ast.dump(node)

        def run(f, arg):
            try:
                return f(arg)
            except Exception as e:  # noqa
                return "<raised %s>" % exc_kind(e)

        def show(r):
            if isinstance(r, ast.AST):
                return ast.dump(r)
            if isinstance(r, dict):
                return snapshot(r)
            return repr(r)
        fresh_p = {n: show(run(f, copy.deepcopy(node))) for n, f in parsers}
        import itertools
        for L in range(1, maxlen + 1):
            for seq in itertools.product(range(len(parsers)), repeat=L):
                shared = copy.deepcopy(node)
                for step, j in enumerate(seq):
                    n, f = parsers[j]
                    r = run(f, shared)
                    evals += 1
                    if ast.dump(shared) != dump0:
                        failures.append({"case": {"kind": kind, "seq": [parsers[x][0] for x in seq[:step + 1]]},
                                         "what": "parse.%s altered the tree it was given" % n, "class": None})
                        break
                    if show(r) != fresh_p[n]:
                        failures.append({"case": {"kind": kind, "seq": [parsers[x][0] for x in seq[:step + 1]]},
                                         "what": "parse.%s on the shared tree differs from a fresh parse" % n, "class": None})
                        break
                    if isinstance(r, dict) and step == len(seq) - 1:
                        # emit from the IR whose carried body aliases the shared tree; twice, then parse again
                        for en, ef in emitters:
                            a1 = show(run(ef, r))
                            evals += 1
                            if ast.dump(shared) != dump0:
                                failures.append({"case": {"kind": kind, "seq": [parsers[x][0] for x in seq] + [en]},
                                                 "what": "%s altered the tree its IR's body aliases" % en, "class": None})
                                break
                        r2 = show(run(f, shared))
                        if r2 != fresh_p[n]:
                            failures.append({"case": {"kind": kind, "seq": [parsers[x][0] for x in seq] + ["emitters", n]},
                                             "what": "parse.%s after emitting from its IR differs from a fresh parse" % n,
                                             "class": None})
    return evals, failures


def check_case(case):
    if "seq" in case and "spec" in case:
        ir0 = fam_emitast.materialise_ir(case["spec"])
        ops = case["ops"]
        ir = copy.deepcopy(ir0)
        for j in case["seq"][:-1]:
            apply_op(ops[j], ir)
        last = ops[case["seq"][-1]]
        a, b = apply_op(last, ir), apply_op(last, copy.deepcopy(ir0))
        return (a == b), ("" if a == b else "last call of the sequence differs from the same call on a fresh copy")
    return True, ""


def oracle(rng, tier):
    n_ir = 45 if tier == "quick" else 160
    maxlen = 3 if tier == "quick" else 4
    failures, hist, seen = [], collections.Counter(), set()
    total = 0
    pending = []
    for _ in range(n_ir):
        spec, tags = gen_ir_spec(rng)
        ops = gen_ops(rng)
        ev, fs = explore(spec, ops, maxlen)
        total += ev
        key = snapshot(fam_emitast.materialise_ir(spec))
        if len(spec["params"]) >= 2 or spec.get("returns") or "_internal" in spec:
            seen.add(key)
        hist["ir:%s:%s" % ("returns" if spec.get("returns") else "no-returns", "body" if "_internal" in spec else "no-body")] += 1
        if not fs:
            hist["ir-without-interference"] += 1
        for f in fs:
            pending.append((spec, ops, f))
    reqs = [dumps([Sym("c13_class"), [op_wire(ops[j]) for j in f["seq"]], irwire.enc_ir(fam_emitast.materialise_ir(spec)),
                   f["td_mutated"]]) for spec, ops, f in pending]
    outs = run_model(reqs)
    per_class_kept = collections.Counter()
    for (spec, ops, f), o in zip(pending, outs):
        e = loads(o)
        cls = None if e == "none" else unhx(e[1])
        hist["fails:" + (cls or "in-guard")] += 1
        per_class_kept[cls] += 1
        if cls is None or per_class_kept[cls] <= 25:
            failures.append({"case": {"spec": spec, "ops": ops, "seq": f["seq"], "td_mutated": f["td_mutated"]},
                             "what": f["what"], "class": cls})
    # parsers on a shared tree
    n_p = 12 if tier == "quick" else 60
    for _ in range(n_p):
        spec, _tags = gen_ir_spec(rng)
        spec.pop("_internal", None)
        ev, fs = parser_checks(rng, spec, 3 if tier == "quick" else 4)
        total += ev
        hist["parser-trees"] += 1
        for f in fs:
            hist["fails:parsers"] += 1
            failures.append(f)
    return {
        "evaluations": total,
        "distinct_nontrivial": len(seen),
        "rule": "IRs (with/without return entry, with/without carried body) x all call sequences with repetition up to "
                "length %d over {class_, function, argparse_function, docstring}; non-trivial = distinct IR with >= 2 "
                "parameters, a return entry or a body; plus parser sequences on shared trees" % maxlen,
        "failures": failures,
        "histogram": dict(hist),
        "samples": [],
    }
