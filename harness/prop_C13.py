"""C13 - conversions do not interfere through shared inputs.

Oracle on the implementation: one IR object handed to every call of a sequence over {emit.class_, emit.function,
emit.argparse_function, emit.docstring} (each with options drawn per IR), all sequences with repetition up to
length 3 (quick) / 4 (thorough); the artefact of every call is compared with the artefact the same call gives on
a fresh deep copy (ast.dump of the node / the docstring text; an exception counts as its kind), and the IR object is
compared before/after every call ORDER-SENSITIVELY (items of `params`, of every parameter and of `returns` in iteration
order, recursively): a call that only reorders the caller's mapping is a write.  IR strata include a `...kwargs`
parameter that is first / in the middle (as parse.class_ and parse.docstring produce), not only last.
Second part: the three parsers applied repeatedly to one shared AST node (and emitters applied to the IRs they
return, whose `_internal` bodies alias the tree): ast.dump of the tree before/after, and every result against
the result on a fresh copy; the IR a parser returned is then shared by the emitters (docstring included), each compared
with the same call on a fresh copy of that IR and the IR compared order-sensitively around each call.
Failures are classified by finding_class_C13 (coq/model/C13Spec.v) through the driver."""
import ast
import collections
import copy
from collections import OrderedDict

from common import Sym, dumps, loads, opt, impl, run_model, unhx, exc_kind
import irwire
import gen_ir
import fam_emitast

ID = "C13"
COQ_PROP = "C13"
import fam_docemit  # noqa: E402

# the docstring emitter is the fourth shared-input conversion (its purity is the premise of theorem C13)
FAMILIES = [(fam_emitast, 3000, 40000), (fam_docemit, 1500, 20000)]
TECHNIQUE = ("Coq proof (the three AST emitters write nothing into the IR; non-interference by induction over call sequences "
             "of any length; emit.docstring abstract with the hypothesis that it does not write) + differential "
             "correspondence of EmitAst.v (artefact AND post-call IR) "
             "+ exhaustive enumeration of call sequences up to length 3/4 on the implementation")
TRUSTED = [
    "the TEXT to_docstring / emit.docstring return is a parameter of the theorems (another layer's model); that "
    "to_docstring does not write into the IR is part of the EmitAst model and compared after every call by the emitast family",
    "emit.docstring as a call on the shared IR is abstract (doc_op); whether it rewrote the shared IR in a run is observed "
    "by the harness and passed to the class function (the full statement assumes it does not: doc_pure)",
    "ast.parse on code strings outside TyExpr's fragment is an input table",
    "the parsers' side (parse.class_/function/argparse_ast do not alter the tree) is checked by execution only",
]


# ------------------------------------------------------------------ ops
def gen_ops(rng):
    """one option assignment per emitter kind (+ sometimes a second variant of one of them)"""
    ww = rng.random() < 0.5
    ops = [
        {"k": "class", "emit_call": rng.random() < 0.5, "class_name": "C", "word_wrap": ww,
         "emit_default_doc": rng.random() < 0.5},
        {"k": "function", "function_name": "f", "function_type": rng.choice(["static", "self", "cls"]), "word_wrap": ww,
         "emit_default_doc": rng.random() < 0.5, "indent_level": rng.choice([0, 1, 2]),
         "emit_separating_tab": rng.random() < 0.5, "inline_types": rng.random() < 0.5,
         "emit_as_kwonlyargs": rng.random() < 0.5},
        {"k": "argparse", "emit_default_doc": rng.random() < 0.5, "function_name": "set_cli_args", "function_type": "static",
         "wrap_description": rng.random() < 0.5, "word_wrap": ww},
        {"k": "docstring", "word_wrap": ww, "emit_default_doc": rng.random() < 0.5},
    ]
    return ops


def op_wire(o):
    k = o["k"]
    if k == "class":
        return [Sym("class"), o["emit_call"], o["class_name"], ["object"], [], o["word_wrap"], o["emit_default_doc"]]
    if k == "function":
        return [Sym("function"), opt(o["function_name"]), opt(o["function_type"]), o["word_wrap"], o["emit_default_doc"],
                o["indent_level"], o["emit_separating_tab"], o["inline_types"], o["emit_as_kwonlyargs"]]
    if k == "argparse":
        return [Sym("argparse"), o["emit_default_doc"], opt(o["function_name"]), opt(o["function_type"]),
                o["wrap_description"], o["word_wrap"]]
    return [Sym("docstring"), o["word_wrap"], o["emit_default_doc"]]


def apply_op(o, ir):
    """the artefact as a comparable value; the IR object is used as it is (mutated in place)"""
    m = impl()
    k = o["k"]
    try:
        if k == "class":
            return ast.dump(m.emit.class_(ir, emit_call=o["emit_call"], class_name=o["class_name"], word_wrap=o["word_wrap"],
                                          emit_default_doc=o["emit_default_doc"]))
        if k == "function":
            return ast.dump(m.emit.function(ir, function_name=o["function_name"], function_type=o["function_type"],
                                            word_wrap=o["word_wrap"], emit_default_doc=o["emit_default_doc"],
                                            indent_level=o["indent_level"], emit_separating_tab=o["emit_separating_tab"],
                                            inline_types=o["inline_types"], emit_as_kwonlyargs=o["emit_as_kwonlyargs"]))
        if k == "argparse":
            return ast.dump(m.emit.argparse_function(ir, emit_default_doc=o["emit_default_doc"],
                                                     function_name=o["function_name"], function_type=o["function_type"],
                                                     wrap_description=o["wrap_description"], word_wrap=o["word_wrap"]))
        return m.emit.docstring(ir, word_wrap=o["word_wrap"], emit_default_doc=o["emit_default_doc"])
    except Exception as e:  # noqa
        return "<raised %s>" % exc_kind(e)


def snapshot(ir):
    try:
        return dumps(irwire.enc_ir(ir))
    except Exception:  # noqa
        return repr(ir)


def strict_snapshot(o):
    """order-SENSITIVE picture of a value: mapping items in iteration order (recursively), sequence kind, scalar type.
    Two IRs that are == as dicts but list their parameters (or a parameter's fields) in a different order differ here:
    every emitter walks `params` in iteration order, so key order is part of what a later call sees"""
    if isinstance(o, dict):
        return [type(o).__name__, [[repr(k), strict_snapshot(v)] for k, v in o.items()]]
    if isinstance(o, (list, tuple)):
        return [type(o).__name__, [strict_snapshot(x) for x in o]]
    if isinstance(o, ast.AST):
        return ["ast", ast.dump(o)]
    return [type(o).__name__, repr(o)]


def _first_change(a, b, path="ir"):
    """where two strict snapshots differ (for the report)"""
    if a == b:
        return None
    if a[0] != b[0] or not isinstance(a[1], list) or not isinstance(b[1], list):
        return "%s: %s -> %s" % (path, str(a)[:120], str(b)[:120])
    if a[0] in ("dict", "OrderedDict"):
        ka, kb = [x[0] for x in a[1]], [x[0] for x in b[1]]
        if ka != kb:
            return "%s: keys %s -> %s" % (path, ka, kb)
        for (k, x), (_, y) in zip(a[1], b[1]):
            r = _first_change(x, y, "%s[%s]" % (path, k))
            if r:
                return r
        return "%s changed" % path
    if len(a[1]) != len(b[1]):
        return "%s: length %d -> %d" % (path, len(a[1]), len(b[1]))
    for n, (x, y) in enumerate(zip(a[1], b[1])):
        r = _first_change(x, y, "%s[%d]" % (path, n))
        if r:
            return r
    return "%s changed" % path


KWARGS_NAMES = ["kwargs", "data_loader_kwargs", "model_kwargs", "loader_kwargs", "optimizer_kwargs", "fit_kwargs"]


def _is_kwargs_name(n):
    return n.endswith("kwargs")


def place_kwargs(rng, params, tags):
    """stratum `kwargs:first|middle|several`: a `...kwargs` parameter that is NOT the last entry of `params`, as
    parse.class_ (attributes are in no particular order) and parse.docstring (documented in any order) produce.
    gen_ir only ever appends it at the end."""
    names = [n for n in params if not _is_kwargs_name(n)]
    if not names:
        return params
    kw = [(n, params[n]) for n in params if _is_kwargs_name(n)]
    if not kw or rng.random() < 0.25:
        free = [n for n in KWARGS_NAMES if n not in params]
        kw.append((rng.choice(free), rng.choice([
            {"doc": "pass this as arguments to the loader function", "typ": "Optional[dict]", "default": "```(None)```"},
            {"doc": "extra keyword arguments.", "typ": "dict"},
            {"doc": "forwarded as they are", "typ": "Optional[dict]", "default": "```(None)```"},
            {"typ": "dict", "doc": "keyword arguments"}])))
    items = [(n, params[n]) for n in names]
    where = rng.choice(["first", "middle", "middle"]) if len(names) > 1 else "first"
    for k, e in enumerate(kw):
        if k > 0:
            pos = rng.randrange(0, len(items))          # a second one anywhere before the last entry
        elif where == "first":
            pos = 0
        else:
            pos = rng.randrange(1, len(items))
        items.insert(pos, e)
    tags.append("kwargs:" + ("several" if len(kw) > 1 else where))
    return OrderedDict(items)


def gen_ir_spec(rng):
    ir, tags = gen_ir.gen_ir(rng, clean=rng.random() < 0.4)
    if rng.random() < 0.3:
        ir["params"] = place_kwargs(rng, ir["params"], tags)
    spec = {"name": "f", "type": "static", "doc": ir["doc"],
            "params": OrderedDict((k, dict(v)) for k, v in ir["params"].items()),
            "returns": None if ir["returns"] is None else OrderedDict((k, dict(v)) for k, v in ir["returns"].items())}
    if rng.random() < 0.4:
        pn = list(spec["params"])
        spec["_internal"] = {"body_src": fam_emitast.gen_body_src(rng, pn), "from_name": rng.choice(["f", "C", "set_cli_args"]),
                             "from_type": "static"}
        tags.append("body")
    return spec, tags


def explore(spec, ops, maxlen):
    """-> (evaluations, failures[list of dict(seq, td_mutated, what)])"""
    ir0 = fam_emitast.materialise_ir(spec)
    fresh = [apply_op(o, copy.deepcopy(ir0)) for o in ops]
    failures, evals, wrote = [], [0], []

    def rec(prefix, state, td_mut, failed):
        if len(prefix) == maxlen:
            return
        for j, o in enumerate(ops):
            ir = copy.deepcopy(state)
            before, sbefore = snapshot(ir), strict_snapshot(ir)
            art = apply_op(o, ir)
            evals[0] += 1
            safter = strict_snapshot(ir)
            changed = snapshot(ir) != before or safter != sbefore
            seq = prefix + [j]
            bad = art != fresh[j]
            if bad and not failed:
                failures.append({"seq": seq, "td_mutated": td_mut,
                                 "what": "call %d (%s) of the sequence differs from the same call on a fresh copy"
                                         % (len(seq), o["k"])})
            elif changed and not failed and not wrote:
                # the call left its mark on the caller's IR (compared order-sensitively, nested mappings included):
                # what a later conversion of this object sees is no longer what a fresh copy gives it
                wrote.append(1)
                failures.append({"seq": seq, "td_mutated": td_mut or o["k"] == "docstring", "ir_written": True,
                                 "what": "call %d (%s) of the sequence wrote into the shared IR: %s"
                                         % (len(seq), o["k"], _first_change(sbefore, safter))})
            rec(seq, ir, td_mut or (changed and o["k"] == "docstring"), failed or bad)
    rec([], ir0, False, False)
    return evals[0], failures


# ------------------------------------------------------------------ parsers on a shared tree
def parser_checks(rng, spec, maxlen):
    """-> (evaluations, failures)"""
    m = impl()
    failures, evals = [], 0
    ir0 = fam_emitast.materialise_ir(spec)
    nodes = []
    try:
        irb = copy.deepcopy(ir0)
        irb["_internal"] = {"body": ast.parse(fam_emitast.gen_body_src(rng, list(ir0["params"]))).body,
                            "from_name": "f", "from_type": "static"}
        nodes.append(("function", m.emit.function(irb, "f", "static", inline_types=rng.random() < 0.5)))
    except Exception:  # noqa
        pass
    try:
        nodes.append(("class", m.emit.class_(copy.deepcopy(ir0))))
    except Exception:  # noqa
        pass
    try:
        nodes.append(("argparse", m.emit.argparse_function(copy.deepcopy(ir0))))
    except Exception:  # noqa
        pass
    for kind, node in nodes:
        try:
            node = ast.parse(ast.unparse(ast.fix_missing_locations(node))).body[0]
        except Exception:  # noqa
            continue
        parsers = {"class": [("class_", m.parse.class_)],
                   "function": [("function", m.parse.function)],
                   "argparse": [("argparse_ast", m.parse.argparse_ast), ("function", m.parse.function)]}[kind]
        emitters = [("emit.docstring", lambda ir: m.emit.docstring(ir)),
                    ("emit.class_", lambda ir: m.emit.class_(ir, emit_call=True)),
                    ("emit.function", lambda ir: m.emit.function(ir, ir.get("name") or "f", ir.get("type") or "static")),
                    ("emit.argparse", lambda ir: m.emit.argparse_function(ir, function_name=ir.get("name"))),
                    ("emit.docstring", lambda ir: m.emit.docstring(ir))]
        if rng.random() < 0.5:
            emitters = emitters[1:]
        dump0 = ast.dump(node)

        def run(f, arg):
            try:
                return f(arg)
            except Exception as e:  # noqa
                return "<raised %s>" % exc_kind(e)

        def show(r):
            if isinstance(r, ast.AST):
                return ast.dump(r)
            if isinstance(r, dict):
                return snapshot(r)
            return repr(r)
        fresh_p = {n: show(run(f, copy.deepcopy(node))) for n, f in parsers}
        import itertools
        for L in range(1, maxlen + 1):
            for seq in itertools.product(range(len(parsers)), repeat=L):
                shared = copy.deepcopy(node)
                for step, j in enumerate(seq):
                    n, f = parsers[j]
                    r = run(f, shared)
                    evals += 1
                    if ast.dump(shared) != dump0:
                        failures.append({"case": {"kind": kind, "seq": [parsers[x][0] for x in seq[:step + 1]]},
                                         "what": "parse.%s altered the tree it was given" % n, "class": None})
                        break
                    if show(r) != fresh_p[n]:
                        failures.append({"case": {"kind": kind, "seq": [parsers[x][0] for x in seq[:step + 1]]},
                                         "what": "parse.%s on the shared tree differs from a fresh parse" % n, "class": None})
                        break
                    if isinstance(r, dict) and step == len(seq) - 1:
                        # emit from the IR whose carried body aliases the shared tree; twice, then parse again
                        pristine = copy.deepcopy(r)
                        for ek, (en, ef) in enumerate(emitters):
                            sb = strict_snapshot(r)
                            a1 = show(run(ef, r))
                            evals += 1
                            if ast.dump(shared) != dump0:
                                failures.append({"case": {"kind": kind, "seq": [parsers[x][0] for x in seq] + [en]},
                                                 "what": "%s altered the tree its IR's body aliases" % en, "class": None})
                                break
                            # the IR a parser returned, shared by the emitters (what sync does with its truth)
                            if a1 != show(run(ef, copy.deepcopy(pristine))):
                                failures.append({"case": {"kind": kind, "src": ast.unparse(node),
                                                          "seq": [parsers[x][0] for x in seq] + [e[0] for e in emitters[:ek + 1]]},
                                                 "what": "%s on the IR parse.%s returned, after the emitters before it, differs from the same call on a fresh copy of that IR" % (en, n),
                                                 "class": None})
                                break
                            sa = strict_snapshot(r)
                            if sa != sb:
                                failures.append({"case": {"kind": kind, "src": ast.unparse(node),
                                                          "seq": [parsers[x][0] for x in seq] + [en]},
                                                 "what": "%s wrote into the IR parse.%s returned: %s" % (en, n, _first_change(sb, sa)),
                                                 "class": None})
                                break
                        r2 = show(run(f, shared))
                        if r2 != fresh_p[n]:
                            failures.append({"case": {"kind": kind, "seq": [parsers[x][0] for x in seq] + ["emitters", n]},
                                             "what": "parse.%s after emitting from its IR differs from a fresh parse" % n,
                                             "class": None})
    return evals, failures


def check_case(case):
    if "seq" in case and "spec" in case:
        spec = dict(case["spec"])
        if case.get("param_order") is not None:          # replays are written with sorted keys: the order is kept apart
            spec["params"] = OrderedDict((n, spec["params"][n]) for n in case["param_order"])
        ir0 = fam_emitast.materialise_ir(spec)
        ops = case["ops"]
        ir = copy.deepcopy(ir0)
        for j in case["seq"][:-1]:
            apply_op(ops[j], ir)
        last = ops[case["seq"][-1]]
        sbefore = strict_snapshot(ir)
        a, b = apply_op(last, ir), apply_op(last, copy.deepcopy(ir0))
        if a != b:
            return False, "last call of the sequence differs from the same call on a fresh copy"
        if case.get("ir_written") and strict_snapshot(ir) != sbefore:
            return False, "last call of the sequence wrote into the shared IR: %s" % _first_change(sbefore, strict_snapshot(ir))
        return True, ""
    return True, ""


def oracle(rng, tier):
    n_ir = 45 if tier == "quick" else 160
    maxlen = 3 if tier == "quick" else 4
    failures, hist, seen = [], collections.Counter(), set()
    total = 0
    pending = []
    for _ in range(n_ir):
        spec, tags = gen_ir_spec(rng)
        ops = gen_ops(rng)
        ev, fs = explore(spec, ops, maxlen)
        total += ev
        key = snapshot(fam_emitast.materialise_ir(spec))
        if len(spec["params"]) >= 2 or spec.get("returns") or "_internal" in spec:
            seen.add(key)
        hist["ir:%s:%s" % ("returns" if spec.get("returns") else "no-returns", "body" if "_internal" in spec else "no-body")] += 1
        for t in tags:
            if t.startswith("kwargs"):
                hist["ir:" + t] += 1
        if not fs:
            hist["ir-without-interference"] += 1
        for f in fs:
            pending.append((spec, ops, f))
    reqs = [dumps([Sym("c13_class"), [op_wire(ops[j]) for j in f["seq"]], irwire.enc_ir(fam_emitast.materialise_ir(spec)),
                   f["td_mutated"]]) for spec, ops, f in pending]
    outs = run_model(reqs)
    per_class_kept = collections.Counter()
    for (spec, ops, f), o in zip(pending, outs):
        e = loads(o)
        cls = None if e == "none" else unhx(e[1])
        hist["fails:" + (cls or "in-guard")] += 1
        per_class_kept[cls] += 1
        if cls is None or per_class_kept[cls] <= 25:
            failures.append({"case": dict({"spec": spec, "param_order": list(spec["params"]), "ops": ops, "seq": f["seq"],
                                           "td_mutated": f["td_mutated"]},
                                          **({"ir_written": True} if f.get("ir_written") else {})),
                             "what": f["what"], "class": cls})
    # parsers on a shared tree
    n_p = 12 if tier == "quick" else 60
    for _ in range(n_p):
        spec, _tags = gen_ir_spec(rng)
        spec.pop("_internal", None)
        ev, fs = parser_checks(rng, spec, 3 if tier == "quick" else 4)
        total += ev
        hist["parser-trees"] += 1
        for f in fs:
            hist["fails:parsers"] += 1
            failures.append(f)
    return {
        "evaluations": total,
        "distinct_nontrivial": len(seen),
        "rule": "IRs (with/without return entry, with/without carried body) x all call sequences with repetition up to "
                "length %d over {class_, function, argparse_function, docstring}; non-trivial = distinct IR with >= 2 "
                "parameters, a return entry or a body; the IR is compared before/after every call order-sensitively "
                "(key order of params / of each parameter / of returns); IR strata with a ...kwargs parameter that is "
                "not last; plus parser sequences on shared trees, the parsed IR shared by all four emitters" % maxlen,
        "failures": failures,
        "histogram": dict(hist),
        "samples": [],
    }
