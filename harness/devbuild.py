#!/usr/bin/env python3
"""Private build for one builder:  python3 harness/devbuild.py <tag> model/Foo.v [model/Bar.v ...]
Compiles the listed files in the given order (coqc -Q . DT), collects their `(* FAMILY: run_x *)` markers
(plus the base families), extracts into coq/extract/build_<tag>/ and builds a private driver there.
Use it with  VERIF_DRIVER=/verif/coq/extract/build_<tag>/driver  when running harness code."""
import os, subprocess, sys
sys.path.insert(0, os.path.dirname(os.path.abspath(__file__)))
import build
from common import COQ

tag, files = sys.argv[1], sys.argv[2:]
for f in files:
    path = os.path.join(COQ, f)
    vo = path + "o"
    rc, out = build.run(["timeout", "900", "coqc", "-Q", ".", "DT", f], cwd=COQ)
    if rc != 0:
        print(out[-3000:])
        sys.exit("coqc failed on " + f)
bdir = os.path.join(COQ, "extract", "build_" + tag)
os.makedirs(bdir, exist_ok=True)
base = [os.path.join(COQ, "model", "Run.v")]
fams = build.family_markers(base + [os.path.join(COQ, f) for f in files])
name = "AllRun_" + tag
open(os.path.join(bdir, name + ".v"), "w").write(build.allrun_text(fams, name))
rc, out = build.run(["coqc", "-Q", COQ, "DT", "-Q", bdir, "DTP", name + ".v"], cwd=bdir)
if rc != 0:
    print(out[-3000:]); sys.exit("coqc failed on private AllRun")
open(os.path.join(bdir, "Extract.v"), "w").write(
    "From Coq Require Extraction ExtrOcamlBasic.\nFrom DTP Require Import %s.\nExtraction Language OCaml.\nExtraction \"model.ml\" handle_all.\n" % name)
rc, out = build.run(["coqc", "-Q", COQ, "DT", "-Q", bdir, "DTP", "Extract.v"], cwd=bdir)
if rc != 0:
    print(out[-3000:]); sys.exit("extraction failed")
build.run(["cp", os.path.join(COQ, "extract", "driver.ml"), bdir])
rc, out = build.run(["ocamlfind", "ocamlopt", "-O3", "-o", "driver", "model.mli", "model.ml", "driver.ml"], cwd=bdir)
if rc != 0:
    print(out[-3000:]); sys.exit("ocamlopt failed")
print("driver:", os.path.join(bdir, "driver"), "families:", [f for _, f in fams])
