"""C11 — sync preserves everything it was not asked to change."""
import fam_sync
import sync_judge as J
import sync_props as P

ID = "C11"
COQ_PROP = "C11"
FAMILIES = [(fam_sync, 150, 1500)]
TECHNIQUE = "Coq proof (only target files are written; append keeps the old text as a prefix; the replace branch preserves every other position given the rewrite frame law) + replay correspondence + masked-tree oracle on the real sync"
TRUSTED = P.TRUSTED
WITNESS_REPLAY = False   # a scenario can fail for several reasons; findings are reported when observed in the run


def oracle(rng, tier):
    return P.evaluate(rng, tier, J.judge_c11, runs=2)


def check_case(case):
    return P.check_scenario(case, J.judge_c11)
