"""C12 — output is a deterministic function of the input.

Oracle: one conversion script (parse.function / parse.class_(merge_inner_function='__init__'), then every emitter on
the result) is run over the same generated definitions
  * in fresh subprocesses under PYTHONHASHSEED in {0..15} (quick) / {0..63} + 'random' x 8 (thorough): the outputs
    must be byte-identical;
  * inside one process in several shuffled call orders, and for a sample of definitions alone in a fresh process:
    every definition's output must equal the one it has in the reference run;
  * scenario part (c12_scen.py, scenario_oracle): sequences of functions, classes, bare docstrings and argparse
    functions that contain conversions which RAISE part-way (caught, the driver goes on), lines with several default
    announcements, empty / blank / stub docstrings, prose that uses another docstring dialect's section markers,
    families of definitions whose defaults are equal across types (1 / 1.0 / True / '1'), repeated points, argparse
    functions whose arguments carry `choices=` collections (tuple / list / set display, some listing a member more than
    once), `action='append'` or are added twice, and LIVE
    objects (kinds live / live-init: a generated module is written to disk and imported, the function / class object
    itself goes to parse.function / parse.class_, several per process, signatures annotated with typing generics); every
    point of every run (seed sweep in natural
    order, reversed, doubled and shuffled orders in one process) must equal the same point converted ALONE in a fresh
    process.  A difference is attributed to the hash seed (witness: the point and two seeds) or to the history
    (witness: the point and a delta-debugged list of earlier conversions; check_case replays both forms).
The C12 theorems (coq/props/C12.v) cover the docstring/signature merge in full.  One finding class remains, below the
model: an IR that still holds a raw ast node as a default (C12Spec.finding_class_C12) is printed with the node's memory
address.  Failing definitions are classified by that extracted Coq function, on the model's own parse for functions and
on the implementation's IR for classes; any other difference is a violation."""
import collections
import hashlib
import json
import os
import subprocess
import sys
import tempfile
from concurrent.futures import ThreadPoolExecutor

from common import VENV_PY, REPO, Sym, dumps, loads, opt, impl, run_model, unhx
import astwire
import irwire
import fam_merge
import fam_parsesig

ID = "C12"
COQ_PROP = "C12"
import fam_emitast  # noqa: E402  (emitters must leave their input IR alone: `how many conversions ran earlier` includes conversions of the same IR)

FAMILIES = [(fam_merge, 2500, 30000), (fam_parsesig, 1500, 15000), (fam_emitast, 1200, 12000)]
TECHNIQUE = ("Coq proof (ir_merge, _join_non_none, parse.function and _merge_inner_function give the same result for "
             "every admissible iteration order of every set they iterate; unbounded in the number of parameters) "
             "+ differential correspondence of Merge.v/ParseSig.v (each case is asked under sorted, reversed and "
             "rotated set orders and must equal the implementation) + PYTHONHASHSEED sweep of the real conversions")
TRUSTED = [
    "every set iteration of the modelled functions is represented by an order parameter (the transcription found two: the key intersection in ir_merge and the key union in _join_non_none)",
    "the modelled conversions are Gallina functions of their arguments: independence of process state is by construction of the transcription (no module/function-object state is read by parse.function, ir_merge, _set_name_and_type); checked on the real code only by the oracle's shuffled call orders",
    "the order of keys INSIDE one parameter dict is abstracted away by the gparam record; the oracle compares emitted text and parameter contents with sorted keys",
    "emitters and docstring parsers are exercised by the seed sweep but are other layers' models",
]

SCRIPT = r'''
import ast, json, os, sys, random
sys.path.insert(0, os.environ["VERIF_REPO"])
try:
    import meta  # noqa
except Exception:
    pass
from doctrans import parse, emit
from doctrans.source_transformer import to_code


def show(o):
    if isinstance(o, dict):
        return "{" + ", ".join("%s: %s" % (k, show(o[k])) for k in sorted(o, key=str)) + "}"
    if isinstance(o, (list, tuple)):
        return "[" + ", ".join(show(x) for x in o) + "]"
    if isinstance(o, ast.AST):
        return ast.dump(o)
    return repr(o)


def attempt(f):
    try:
        r = f()
        return to_code(r) if isinstance(r, ast.AST) else r
    except Exception as e:
        return "EXC:" + type(e).__name__


LIVE_DIR = os.path.join(os.path.dirname(os.path.abspath(sys.argv[1])), "live")


def live_object(src):
    """the module text written to a file and imported; the target is its last top-level def / class"""
    import hashlib, importlib
    name = "c12live_" + hashlib.md5(src.encode()).hexdigest()[:16]
    target = [s for s in ast.parse(src).body if isinstance(s, (ast.FunctionDef, ast.ClassDef))][-1].name
    if name not in sys.modules:
        os.makedirs(LIVE_DIR, exist_ok=True)
        path = os.path.join(LIVE_DIR, name + ".py")
        if not os.path.exists(path):
            tmp = "%s.%d.tmp" % (path, os.getpid())
            with open(tmp, "w") as f:
                f.write(src)
            os.replace(tmp, path)
        if LIVE_DIR not in sys.path:
            sys.path.append(LIVE_DIR)
        importlib.invalidate_caches()
    return getattr(importlib.import_module(name), target)


def parse_any(kind, src):
    if kind == "docstring":                      # a bare interface description
        return parse.docstring(src)
    if kind in ("live", "live-init"):            # an object "in your memory": the inspect.signature path
        obj = live_object(src)
        if not isinstance(obj, type):
            return parse.function(obj)
        return parse.class_(obj, **({"merge_inner_function": "__init__"} if kind == "live-init" else {}))
    tree = ast.parse(src).body[0]
    if kind == "function":
        return parse.function(tree)
    if kind == "argparse":
        return parse.argparse_ast(tree)
    return parse.class_(tree, merge_inner_function="__init__")


def convert(kind, src):
    out = []
    try:
        ir = parse_any(kind, src)
    except Exception as e:
        return ["EXC:" + type(e).__name__]
    out.append("names=" + repr(list(ir["params"].keys())))
    out.append("params=" + "[" + ", ".join("(%r, %s)" % (k, show(v)) for k, v in ir["params"].items()) + "]")
    out.append("returns=" + show(ir.get("returns")))
    import copy
    for fmt in ("rest", "google", "numpydoc"):
        out.append(attempt(lambda: emit.docstring(copy.deepcopy(ir), docstring_format=fmt)))
    out.append(attempt(lambda: emit.function(copy.deepcopy(ir), function_name="f", function_type="static")))
    out.append(attempt(lambda: emit.class_(copy.deepcopy(ir))))
    out.append(attempt(lambda: emit.argparse_function(copy.deepcopy(ir))))
    out.append(attempt(lambda: emit.docstring(copy.deepcopy(ir), docstring_format="rest", emit_default_doc=False)))
    out.append("doc=" + repr(ir.get("doc")))
    return out


def forked(fn):
    """fn() evaluated in a child forked from this process: the state is the one right after import, whatever is
    converted in other children"""
    r, w = os.pipe()
    pid = os.fork()
    if pid == 0:
        code = 0
        try:
            os.close(r)
            data = json.dumps(fn()).encode()
        except BaseException as e:  # noqa
            data, code = json.dumps(["CRASH:" + repr(e)]).encode(), 0
        try:
            with os.fdopen(w, "wb") as f:
                f.write(data)
        finally:
            os._exit(code)
    os.close(w)
    with os.fdopen(r, "rb") as f:
        data = f.read()
    os.waitpid(pid, 0)
    return json.loads(data)


cases = json.load(open(sys.argv[1]))
order = list(range(len(cases)))
mode = sys.argv[2]
if mode.startswith(("fresh:", "seq:", "seqs:")):
    # fresh:<file>  [i, ...]          every i converted alone in its own forked child      -> [[i, out], ...]
    # seq:<file>    [i, ...]          converted one after the other in THIS process         -> [[i, out], ...] (in that order)
    # seqs:<file>   [[i, ...], ...]   every sequence in its own forked child                -> [[[i, out], ...], ...]
    what, arg = mode.split(":", 1)
    spec = json.load(open(arg))
    one = lambda i: convert(cases[i]["kind"], cases[i]["src"])
    if what == "fresh":
        res = [[i, forked(lambda: one(i))] for i in spec]
    elif what == "seq":
        res = [[i, one(i)] for i in spec]
    else:
        res = [forked(lambda: [[i, one(i)] for i in sq]) for sq in spec]
    sys.stdout.write(json.dumps(res))
    sys.exit(0)
if mode.startswith("shuffle:"):
    random.Random(int(mode.split(":")[1])).shuffle(order)
elif mode.startswith("only:"):
    order = [int(mode.split(":")[1])]
res = {}
for i in order:
    res[i] = convert(cases[i]["kind"], cases[i]["src"])
sys.stdout.write(json.dumps([[i, res[i]] for i in sorted(res)]))
'''


def gen_points(rng, n):
    pts = []
    while len(pts) < n:
        if rng.random() < 0.8:
            src, info = fam_parsesig.gen_def(rng)
            kind, tags = "function", info["tags"]
        else:
            src, tags = fam_parsesig.gen_class(rng)
            kind = "class"
        if fam_parsesig._ok_source(src):
            pts.append({"kind": kind, "src": src, "tags": tags})
    return pts


def _run(script, cases_file, seed, mode):
    env = dict(os.environ, PYTHONPATH=REPO, VERIF_REPO=REPO, PYTHONHASHSEED=str(seed), PYTHONDONTWRITEBYTECODE="1")
    env.pop("DOCTRANS_LINE_LENGTH", None)
    p = subprocess.run([VENV_PY, script, cases_file, mode], env=env, stdout=subprocess.PIPE, stderr=subprocess.PIPE,
                       timeout=600)
    if p.returncode != 0:
        return ("error", p.stderr.decode("utf-8", "replace")[-600:])
    return ("ok", p.stdout)


def sweep(pts, seeds, shuffles, singles, workers=None):
    """returns (failures, runs, info)"""
    workers = workers or min(16, (os.cpu_count() or 4))
    tmp = tempfile.mkdtemp(prefix="doctrans-verif.%d." % os.getpid())
    script = os.path.join(tmp, "convert.py")
    cases_file = os.path.join(tmp, "cases.json")
    failures = []
    try:
        open(script, "w").write(SCRIPT)
        json.dump([{"kind": p["kind"], "src": p["src"]} for p in pts], open(cases_file, "w"))
        jobs = [("seed", s, "natural") for s in seeds] + [("shuffle", 0, "shuffle:%d" % k) for k in shuffles] \
            + [("single", 0, "only:%d" % i) for i in singles]
        with ThreadPoolExecutor(max_workers=workers) as ex:
            results = list(ex.map(lambda j: _run(script, cases_file, j[1], j[2]), jobs))
        ref = None
        for (what, seed, mode), (st, out) in zip(jobs, results):
            if st != "ok":
                failures.append({"case": {"run": [what, seed, mode]}, "what": "conversion script failed: " + out, "class": None})
                continue
            if what == "seed":
                if ref is None:
                    ref = (seed, out, dict((i, o) for i, o in json.loads(out)))
                elif out != ref[1]:
                    cur = dict((i, o) for i, o in json.loads(out))
                    for i in sorted(cur):
                        if cur[i] != ref[2].get(i):
                            failures.append({"case": {"kind": pts[i]["kind"], "src": pts[i]["src"], "seeds": [ref[0], seed]},
                                             "what": "output differs between PYTHONHASHSEED=%s and %s: %r vs %r" % (
                                                 ref[0], seed, _first_diff(ref[2].get(i), cur[i])[0], _first_diff(ref[2].get(i), cur[i])[1]),
                                             "class": None})
            else:
                cur = dict((i, o) for i, o in json.loads(out))
                for i in sorted(cur):
                    if ref is not None and cur[i] != ref[2].get(i):
                        failures.append({"case": {"kind": pts[i]["kind"], "src": pts[i]["src"], "run": mode},
                                         "what": "output in run %s differs from the reference run: %r vs %r" % (
                                             (mode,) + _first_diff(ref[2].get(i), cur[i])), "class": None})
        digest = hashlib.sha256(ref[1]).hexdigest() if ref else None
        return failures, len(jobs), {"reference_sha256": digest, "bytes": len(ref[1]) if ref else 0}
    finally:
        import shutil
        shutil.rmtree(tmp, ignore_errors=True)


def _first_diff(a, b):
    """the neighbourhood of the first differing character of the first differing output part"""
    a, b = a or [], b or []
    for x, y in zip(a, b):
        if x != y:
            k = next((i for i, (c, d) in enumerate(zip(x, y)) if c != d), min(len(x), len(y)))
            lo = max(0, k - 80)
            return x[lo:k + 80], y[lo:k + 80]
    return repr(a)[:200], repr(b)[:200]


def check_case(case):
    """replay: one definition under two seeds; with `history`, the definition alone against the definition after the
    recorded conversions in the same process"""
    if "src" not in case:
        return True, ""
    if case.get("history") is not None:
        pts = [dict(h, tags=[]) for h in case["history"]] + [{"kind": case.get("kind", "function"), "src": case["src"], "tags": []}]
        lab = Lab(pts)
        try:
            seed, last = case.get("seed", 0), len(pts) - 1
            alone = lab.run("fresh", [last], seed)[0][1]
            after = lab.run("seqs", [list(range(len(pts)))], seed)[0][-1][1]
        finally:
            lab.close()
        if alone != after:
            return False, "alone %r vs after the recorded history %r" % _first_diff(alone, after)
        return True, ""
    pts = [{"kind": case.get("kind", "function"), "src": case["src"], "tags": []}]
    seeds = case.get("seeds") or list(range(16))
    fs, _, _ = sweep(pts, seeds, [1, 2], [0], workers=8)
    return (not fs), (fs[0]["what"] if fs else "")


def classify(case):
    """finding class of one failing definition, asked of the extracted Coq functions"""
    import ast
    import copy
    m = impl()
    try:
        tree = ast.parse(case["src"]).body[0]
        if case.get("kind") == "class":
            r = m.parse.class_(copy.deepcopy(tree), merge_inner_function="__init__")
            out = run_model([dumps([Sym("c12_class_ir"), irwire.enc_ir(r)])])[0]
        else:
            ds = ast.get_docstring(tree)
            d = m.parse.docstring(ds.replace(":cvar", ":param")) if ds is not None else None
            out = run_model([dumps([Sym("c12_class"), opt(d, irwire.enc_ir), astwire.enc_stmt(tree)])])[0]
            r = m.parse.function(copy.deepcopy(tree))
            out_impl = run_model([dumps([Sym("c12_class_ir"), irwire.enc_ir(r)])])[0]
            if out != "unmodelled" and out != out_impl:        # the model must predict the same failure
                return None
            out = out_impl
        e = loads(out)
        return None if e == "none" else unhx(e[1])
    except Exception:  # noqa
        return None


REPEAT_SCRIPT = r"""
import ast, json, sys
try:
    import meta
except Exception:
    pass
from doctrans import parse, emit
from doctrans.source_transformer import to_code
srcs = json.load(sys.stdin)
out = []
for rounds in range(int(sys.argv[1])):
    for src in srcs:
        fd = ast.parse(src).body[0]
        try:
            ir = parse.function(fd)
            res = [emit.docstring(ir, docstring_format=f) for f in ("rest", "numpydoc", "google")]
            res.append(to_code(emit.function(ir, function_name=fd.name, function_type=None)))
            res.append(to_code(emit.class_(ir)))
            res.append(to_code(emit.argparse_function(ir)))
            res.append(repr(ir.get("doc")))
        except Exception as e:
            res = ["EXC " + type(e).__name__]
        out.append(res)
json.dump(out, sys.stdout)
"""

AFTERWARD_DOCS = [
    'Summary of {n}.\n\n    Args:\n      {a} (int): the {a}. Defaults to 5\n      {b} (str): the {b}.\n\n    Reference:\n      - See the paper\n      - And the blog\n\n    Usage:\n      call it twice\n',
    'Summary of {n}.\n\n    Args:\n      {a} (float): rate of {a}.\n\n    Returns:\n      int: the result.\n\n    Raises:\n      ValueError: never\n',
    'Summary of {n}.\n\n    Parameters\n    ----------\n    {a} : int\n        the {a}. Defaults to 3\n    {b} : str\n        the {b}.\n\n    Returns\n    -------\n    int\n        the result.\n\n    Notes\n    -----\n    Some notes that follow.\n',
    'Summary of {n}.\n\n    :param {a}: the {a}. Defaults to 2\n    :type {a}: ```int```\n\n    :param {b}: the {b}.\n    :type {b}: ```str```\n',
]


def repeat_oracle(rng, n):
    """the same source converted several times in ONE process must give the same output every time, and the same as
    in a fresh process (no state may survive a conversion: caches, function attributes, mutated scanner results)"""
    srcs = []
    for i in range(n):
        a, b = rng.sample(["alpha", "beta", "gamma", "lr", "name", "count"], 2)
        doc = rng.choice(AFTERWARD_DOCS).format(n="f%d" % i, a=a, b=b)
        srcs.append('def f%d(%s, %s="x"):\n    """\n    %s    """\n    return %s\n' % (i, a, b, doc, a))
    env = dict(os.environ, PYTHONPATH=REPO, PYTHONHASHSEED="0")
    env.pop("DOCTRANS_LINE_LENGTH", None)

    def run(rounds, subset):
        p = subprocess.run([VENV_PY, "-c", REPEAT_SCRIPT, str(rounds)], input=json.dumps(subset).encode(), env=env,
                           stdout=subprocess.PIPE, stderr=subprocess.PIPE, timeout=600)
        if p.returncode != 0:
            return None, p.stderr.decode()[-400:]
        return json.loads(p.stdout.decode()), ""
    failures = []
    rep, err = run(3, srcs)
    if rep is None:
        return [{"case": {"kind": "repeat", "src": srcs[0]}, "what": "conversion script failed: " + err, "class": None}], 0
    k = len(srcs)
    for i, src in enumerate(srcs):
        first = rep[i]
        for r in (1, 2):
            if rep[r * k + i] != first:
                j = next(x for x in range(len(first)) if x >= len(rep[r * k + i]) or rep[r * k + i][x] != first[x])
                failures.append({"case": {"kind": "repeat", "src": src, "round": r},
                                 "what": "conversion number %d of the same source in one process differs from the first (output %d): %r vs %r" % (
                                     r + 1, j, first[j][:160], (rep[r * k + i][j] if j < len(rep[r * k + i]) else None) and rep[r * k + i][j][:160]),
                                 "class": None})
                break
    # fresh single-process reference for a sample
    for i in rng.sample(range(k), min(6, k)):
        one, err = run(1, [srcs[i]])
        if one is not None and one[0] != rep[i]:
            failures.append({"case": {"kind": "repeat", "src": srcs[i], "round": "fresh"},
                             "what": "conversion in a fresh process differs from the first conversion in a long-lived process", "class": None})
    return failures, 3 * k + 6


class Lab(object):
    """the conversion script + one list of points in a scratch directory; run(what, spec, seed) -> parsed output"""

    def __init__(self, pts):
        self.pts = pts
        self.tmp = tempfile.mkdtemp(prefix="doctrans-verif.%d." % os.getpid())
        self.script = os.path.join(self.tmp, "convert.py")
        self.cases_file = os.path.join(self.tmp, "cases.json")
        open(self.script, "w").write(SCRIPT)
        json.dump([{"kind": p["kind"], "src": p["src"]} for p in pts], open(self.cases_file, "w"))
        self.k = 0

    def run(self, what, spec, seed=0):
        self.k += 1
        f = os.path.join(self.tmp, "spec%d.%d.json" % (self.k, id(spec) % 100000))
        json.dump(spec, open(f, "w"))
        st, out = _run(self.script, self.cases_file, seed, "%s:%s" % (what, f))
        if st != "ok":
            raise RuntimeError("conversion script failed (%s, PYTHONHASHSEED=%s): %s" % (what, seed, out))
        return json.loads(out)

    def close(self):
        import shutil
        shutil.rmtree(self.tmp, ignore_errors=True)


def _pt(p):
    return {"kind": p["kind"], "src": p["src"]}


def minimise_history(lab, seq, pos, seed, fresh, budget_s=25.0):
    """the item at seq[pos] converts differently after seq[:pos] than alone: a short history that still does
    (single predecessors first, then delta debugging on the prefix, within a time budget)"""
    import time
    i, t0 = seq[pos], time.time()

    def differs(hists):
        if not hists:
            return []
        chunks = [hists[k::8] for k in range(8) if hists[k::8]]
        with ThreadPoolExecutor(max_workers=8) as ex:
            outs = list(ex.map(lambda hs: lab.run("seqs", [h + [i] for h in hs], seed), chunks))
        res = [None] * len(hists)
        for k, o in enumerate(outs):
            res[k::8] = [r[-1][1] != fresh[i] for r in o]
        return res
    prefix = seq[:pos]
    singles = sorted(set(prefix), key=prefix.index)
    d = differs([[j] for j in singles])
    if any(d):
        return [singles[d.index(True)]]
    cur, n = list(prefix), 2
    while len(cur) >= 2 and time.time() - t0 < budget_s:
        size = max(1, len(cur) // n)
        parts = [cur[k:k + size] for k in range(0, len(cur), size)]
        d = differs(parts)                                   # one part alone
        if any(d):
            cur, n = parts[d.index(True)], 2
            continue
        comps = [sum(parts[:k] + parts[k + 1:], []) for k in range(len(parts))]
        d = differs(comps)                                   # everything but one part
        if any(d):
            cur, n = comps[d.index(True)], max(n - 1, 2)
            continue
        if size == 1:
            break
        n = min(len(cur), n * 2)
    return cur


def scenario_oracle(rng, tier):
    """history and hash-seed independence on the c12_scen strata.  Reference: every point converted ALONE in a process
    forked right after import (PYTHONHASHSEED=0).  Compared with it, point by point: the whole sequence in one process
    in natural order under every seed of the sweep; in reversed and several shuffled orders; twice over in one process.
    A difference is then attributed: if the point alone differs between the two seeds it is reported with the seeds,
    otherwise with a minimised history (the conversions that have to run before it in the same process)."""
    import c12_scen
    if tier == "quick":
        n, seeds, norders = 160, list(range(16)), 6
    else:
        n, seeds, norders = 500, list(range(64)) + ["random"] * 8, 16
    pts = c12_scen.gen(rng, n, filler=lambda r: gen_points(r, 1)[0])
    N = len(pts)
    natural = list(range(N))
    orders = [("reversed", natural[::-1]), ("twice", natural + natural)]
    for k in range(norders):
        o = list(natural)
        rng.shuffle(o)
        orders.append(("shuffled-%d" % k, o))
    lab = Lab(pts)
    failures, hist = [], collections.Counter()
    try:
        jobs = [("fresh", "fresh", natural, 0), ("fresh-again", "fresh", natural, 0)] + [("natural order under PYTHONHASHSEED=%s" % s, "seq", natural, s) for s in seeds] + \
               [(name, "seq", o, 0) for name, o in orders] + \
               [("single", "seq", [i], 0) for i in rng.sample(natural, min(6, N))]
        with ThreadPoolExecutor(max_workers=min(16, (os.cpu_count() or 4))) as ex:
            results = list(ex.map(lambda j: lab.run(j[1], j[2], j[3]), jobs))
        fresh = dict((i, o) for i, o in results[0])
        # a point whose output differs between two fresh processes under the SAME seed and history (an address in the
        # text, ...) fails the property on its own: reported once as such, and left out of the attribution below
        unstable, seen_src = set(), set()
        for i, out in results[1]:
            if out != fresh[i]:
                unstable.add(i)
                if pts[i]["src"] not in seen_src:
                    seen_src.add(pts[i]["src"])
                    failures.append({"case": dict(_pt(pts[i]), seeds=[0, 0]),
                                     "what": "output differs between two fresh processes with the same PYTHONHASHSEED: %r vs %r" % _first_diff(fresh[i], out),
                                     "class": None})
        hist["scenario:points-unstable-on-their-own"] = len(unstable)
        diffs = []                                       # (run name, seed, seq, position)
        for (name, what, seq, seed), res in zip(jobs[2:], results[2:]):
            for pos, (i, out) in enumerate(res):
                if out != fresh[i] and i not in unstable:
                    diffs.append((name, seed, seq, pos, out))
        hist["scenario:differing-outputs"] = len(diffs)
        # attribute: hash seed or history; one report per (point, cause), earliest position of each run first
        seen, budget = set(), 8
        by_run = collections.OrderedDict()
        for d in diffs:
            by_run.setdefault((d[0], d[1]), []).append(d)
        # the earliest differing position of each run first (shortest histories), then the rest by position
        queue = sorted((ds[0] for ds in by_run.values()), key=lambda d: d[3]) + \
            sorted((d for ds in by_run.values() for d in ds[1:]), key=lambda d: d[3])
        alone_cache = {}
        for name, seed, seq, pos, out in queue:
            if budget <= 0:
                break
            i = seq[pos]
            if seed != 0:
                if (i, seed) not in alone_cache:
                    alone_cache[(i, seed)] = lab.run("fresh", [i], seed)[0][1]
                if alone_cache[(i, seed)] != fresh[i]:
                    if (i, "seed") in seen:
                        continue
                    seen.add((i, "seed"))
                    budget -= 1
                    a, b = _first_diff(fresh[i], alone_cache[(i, seed)])
                    failures.append({"case": dict(_pt(pts[i]), seeds=[0, seed]),
                                     "what": "output differs between PYTHONHASHSEED=0 and %s (converted alone in a fresh process each time): %r vs %r" % (seed, a, b),
                                     "class": None})
                    continue
            if (i, "history") in seen:
                continue
            seen.add((i, "history"))
            budget -= 1
            h = minimise_history(lab, seq, pos, seed, fresh)     # (alone under this seed == alone under seed 0 here)
            a, b = _first_diff(fresh[i], out)
            failures.append({"case": dict(_pt(pts[i]), history=[_pt(pts[j]) for j in h], seed=seed, run=name),
                             "what": "output depends on what was converted earlier in the process (run %s, after %d conversion(s)%s): alone %r vs in sequence %r" % (
                                 name, len(h), "; the earlier conversion raised" if len(h) == 1 and fresh[h[0]][0].startswith("EXC:") else "", a, b),
                             "class": None})
    finally:
        lab.close()
    for p in pts:
        hist["scenario:kind:" + p["kind"]] += 1
        for t in p["tags"]:
            hist["scenario:" + t] += 1
    hist["scenario:conversions-that-raise"] = sum(1 for i in natural if fresh[i][0].startswith("EXC:"))
    hist["scenario:runs"] = len(jobs)
    evals = sum(len(j[2]) for j in jobs)
    return failures, evals, hist, pts


def oracle(rng, tier):
    if tier == "quick":
        n, seeds, shuffles, nsingle = 400, list(range(16)), [1, 2, 3, 4], 8
    else:
        n, seeds, shuffles, nsingle = 2500, list(range(64)) + ["random"] * 8, list(range(1, 13)), 24
    pts = gen_points(rng, n)
    singles = sorted(rng.sample(range(len(pts)), min(nsingle, len(pts))))
    failures, runs, info = sweep(pts, seeds, shuffles, singles)
    cache = {}
    for f in failures:
        src = f["case"].get("src")
        if src is not None:
            if src not in cache:
                cache[src] = classify(f["case"])
            f["class"] = cache[src]
    # one failure per definition and class is enough for the verdict; keep the list short
    seen_f, short = set(), []
    for f in failures:
        k = (f["case"].get("src"), f["class"])
        if k not in seen_f:
            seen_f.add(k)
            short.append(f)
    hist = collections.Counter()
    for p in pts:
        hist["kind:" + p["kind"]] += 1
        for t in p["tags"]:
            if t.startswith("doc:") or t.startswith("kwarg"):
                hist[t] += 1
    partial = sum(1 for p in pts if any(t in ("doc:some", "doc:prefix", "doc:shuffled", "doc:extra") for t in p["tags"]))
    hist["partially-or-out-of-order-documented"] = partial
    hist["runs:seeds"] = len(seeds)
    hist["runs:shuffled-orders"] = len(shuffles)
    hist["runs:fresh-single"] = len(singles)
    hist["differing-outputs-before-dedup"] = len(failures)
    rfails, revals = repeat_oracle(rng, 24 if tier == "quick" else 200)
    short += rfails
    hist["repeat-in-process-conversions"] = revals
    sfails, sevals, shist, spts = scenario_oracle(rng, tier)
    for f in sfails:
        if f["case"]["kind"] in ("function", "class"):
            f["class"] = classify(f["case"])
    short += sfails
    hist.update(shist)
    return {
        "evaluations": runs * len(pts) - len(singles) * (len(pts) - 1) + sevals,
        "distinct_nontrivial": len(set(p["src"] for p in pts + spts if len(p["tags"]) >= 2)),
        "rule": "each generated definition (see fam_parsesig.gen_def / gen_class) is converted (parse, then 3 docstring "
                "styles + function + class + argparse emitters) in every run; runs = PYTHONHASHSEED sweep in fresh "
                "processes + shuffled call orders in one process + single-definition fresh processes; outputs compared "
                "byte for byte; non-trivial = distinct definition with >= 2 strata tags.  Scenario part (c12_scen): "
                "sequences of functions, classes, bare docstrings and argparse functions with failing conversions, "
                "several default announcements per line, empty docstrings, prose using another dialect's section "
                "markers, families of defaults equal across types (1, 1.0, True, '1'), argparse arguments with choices= "
                "collections (tuple / list / set display, members listed more than once), repeats and live imported objects "
                "(function / class objects of generated modules with typing-generic annotations, the inspect.signature "
                "path); every point of every run (seed "
                "sweep, reversed, doubled and shuffled orders) is compared with the same point converted alone in a "
                "fresh process; differences are attributed to the hash seed or to a minimised history",
        "failures": short,
        "histogram": dict(hist, **{"reference_sha256:" + str(info["reference_sha256"]): 1}),
        "samples": [{"kind": p["kind"], "src": p["src"]} for p in pts[:40:8]],
    }
