"""Interface comparison on IR dicts (Python side of the `same_interface` relations) and conversion helpers."""
import ast
from collections import OrderedDict

NONE_LIKE = (None, "None", "```(None)```", "```None```")


def norm_ws(s):
    return " ".join((s or "").split())


def same_default(v, w):
    if isinstance(v, ast.AST) or isinstance(w, ast.AST):
        try:
            return ast.dump(v) == ast.dump(w)
        except Exception:  # noqa
            return False
    if type(v) is type(w) and v == w:
        if isinstance(v, float):
            return repr(v) == repr(w)
        return True
    if isinstance(v, (bool, int, float)) or isinstance(w, (bool, int, float)):
        return False
    return v in NONE_LIKE and w in NONE_LIKE


def cmp_param(name, p, q, prose="exact", check_default=True):
    """list of differences between two param dicts"""
    diffs = []
    tp, tq = p.get("typ"), q.get("typ")
    if (tp or None) != (tq or None):
        diffs.append("typ of %s: %r vs %r" % (name, tp, tq))
    dp, dq = p.get("doc") or "", q.get("doc") or ""
    if prose == "exact":
        if dp != dq:
            diffs.append("prose of %s: %r vs %r" % (name, dp, dq))
    elif prose == "ws":
        if norm_ws(dp) != norm_ws(dq):
            diffs.append("prose of %s (modulo whitespace): %r vs %r" % (name, dp, dq))
    if check_default:
        hp, hq = "default" in p, "default" in q
        if hp != hq and not (
                (hp and p["default"] in NONE_LIKE and not isinstance(p["default"], (int, float)))
                or (hq and q["default"] in NONE_LIKE and not isinstance(q["default"], (int, float)))):
            diffs.append("default of %s present %s vs %s (%r / %r)" % (name, hp, hq, p.get("default"), q.get("default")))
        elif hp and hq and not same_default(p["default"], q["default"]):
            diffs.append("default of %s: %r (%s) vs %r (%s)" % (name, p["default"], type(p["default"]).__name__,
                                                                q["default"], type(q["default"]).__name__))
    return diffs


def ret_of(ir):
    r = ir.get("returns")
    if not r:
        return None
    return r.get("return_type")


def same_interface(a, b, prose="exact", check_default=True, check_doc=True, check_returns=True):
    """differences between two IRs: summary, names+order, types, prose, defaults, return entry"""
    diffs = []
    if check_doc and norm_ws(a.get("doc")) != norm_ws(b.get("doc")):
        diffs.append("summary: %r vs %r" % (a.get("doc"), b.get("doc")))
    na, nb = list(a.get("params") or {}), list(b.get("params") or {})
    if na != nb:
        diffs.append("names/order: %r vs %r" % (na, nb))
        return diffs
    for n in na:
        diffs += cmp_param(n, a["params"][n], b["params"][n], prose, check_default)
    if check_returns:
        ra, rb = ret_of(a), ret_of(b)
        if (ra is None) != (rb is None):
            if not ((ra is None and not rb) or (rb is None and not ra)):
                diffs.append("return entry: %r vs %r" % (ra, rb))
        elif ra is not None:
            diffs += cmp_param("return_type", ra, rb, prose, check_default)
    return diffs


def strip_ir(ir):
    """the interface part of an IR as plain data (for printing / JSON)"""
    out = {"doc": ir.get("doc"), "params": OrderedDict(), "returns": None}
    for k, v in (ir.get("params") or {}).items():
        out["params"][k] = {x: (ast.unparse(y) if isinstance(y, ast.AST) else y) for x, y in v.items()}
    r = ret_of(ir)
    if r is not None:
        out["returns"] = {"return_type": {x: (ast.unparse(y) if isinstance(y, ast.AST) else y) for x, y in r.items()}}
    return out
