"""Build steps shared by setup and by every check: constants, lint, Coq make, extraction, driver."""
import fcntl
import glob
import os
import re
import subprocess
import sys
import time

sys.path.insert(0, os.path.dirname(os.path.abspath(__file__)))
from common import VERIF, COQ, BUILD, DRIVER, REPO, VENV_PY  # noqa: E402

LOCK = os.path.join(COQ, ".build.lock")
STMT_RE = re.compile(r"^\s*(?:Local\s+|Global\s+)?(Theorem|Lemma|Corollary|Example|Fact|Proposition|Remark)\s+([A-Za-z_][A-Za-z0-9_']*)", re.M)

FORBIDDEN = [
    (r"\bAdmitted\b", "Admitted"), (r"\badmit\b", "admit"), (r"^\s*(?:Local\s+|Global\s+|Polymorphic\s+)?Axioms?\b", "Axiom"),
    (r"^\s*(?:Local\s+|Global\s+)?Parameters?\b", "Parameter"), (r"^\s*(?:Local\s+|Global\s+)?Conjectures?\b", "Conjecture"),
    (r"Admit\s+Obligations", "Admit Obligations"), (r"Unset\s+Guard\s+Checking", "Unset Guard Checking"),
    (r"Unset\s+Positivity\s+Checking", "Unset Positivity Checking"), (r"Unset\s+Universe\s+Checking", "Unset Universe Checking"),
    (r"bypass_check", "bypass_check"), (r"-type-in-type", "-type-in-type"), (r"-impredicative-set", "-impredicative-set"),
    (r"\bgive_up\b", "give_up"),
]


def strip_comments(src):
    out, depth, i, n = [], 0, 0, len(src)
    in_str = False
    while i < n:
        if depth == 0 and src[i] == '"':
            in_str = not in_str
            out.append(src[i])
            i += 1
        elif not in_str and src.startswith("(*", i):
            depth += 1
            i += 2
        elif not in_str and depth and src.startswith("*)", i):
            depth -= 1
            i += 2
        else:
            if depth == 0:
                out.append(src[i])
            elif src[i] == "\n":
                out.append("\n")
            i += 1
    return "".join(out)


def v_files():
    fs = []
    for d in ("model", "proofs", "props", "extract"):
        fs += sorted(glob.glob(os.path.join(COQ, d, "*.v")))
    return fs


def lint():
    """returns list of 'file:line: what' for forbidden constructs (comments stripped)"""
    hits = []
    for f in v_files():
        src = strip_comments(open(f).read())
        # Variable/Hypothesis/Context outside a Section
        depth = 0
        for ln, line in enumerate(src.split("\n"), 1):
            if re.match(r"^\s*Section\s+\w+", line):
                depth += 1
            elif re.match(r"^\s*End\s+\w+\s*\.", line) and depth > 0:
                # Modules also close with End; only decrement when a section is open
                depth -= 1
            if depth == 0 and re.match(r"^\s*(?:Local\s+|Global\s+)?(Variables?|Hypothes[ie]s|Context)\b", line):
                hits.append("%s:%d: Variable/Hypothesis/Context outside a Section" % (os.path.relpath(f, COQ), ln))
            for rx, what in FORBIDDEN:
                if re.search(rx, line):
                    hits.append("%s:%d: %s" % (os.path.relpath(f, COQ), ln, what))
    for f in [os.path.join(COQ, "_CoqProject")]:
        if os.path.exists(f):
            t = open(f).read()
            for bad in ("-type-in-type", "-impredicative-set", "-vos", "-vok"):
                if bad in t:
                    hits.append("_CoqProject: " + bad)
    return hits


def write_coqproject():
    lines = ["-Q . DT"]
    for d in ("model", "proofs", "props"):
        for f in sorted(glob.glob(os.path.join(COQ, d, "*.v"))):
            lines.append(os.path.relpath(f, COQ))
    text = "\n".join(lines) + "\n"
    p = os.path.join(COQ, "_CoqProject")
    if not os.path.exists(p) or open(p).read() != text:
        open(p, "w").write(text)
        return True
    return False


def run(cmd, cwd=None, timeout=1800, env=None):
    p = subprocess.run(cmd, cwd=cwd, stdout=subprocess.PIPE, stderr=subprocess.STDOUT, timeout=timeout, env=env)
    return p.returncode, p.stdout.decode("utf-8", "replace")


def first_error(out):
    """(file, line, enclosing statement name, message) of the first Coq error in make/coqc output"""
    m = re.search(r'File "([^"]+)", line (\d+), characters [^\n]*\n(Error:.*?)(?:\n\n|\nmake|\Z)', out, re.S)
    if not m:
        return None
    f, ln, msg = m.group(1), int(m.group(2)), m.group(3)
    path = f if os.path.isabs(f) else os.path.join(COQ, f)
    name = None
    try:
        src = open(path).read().split("\n")[:ln]
        for line in reversed(src):
            mm = STMT_RE.match(line) or re.match(r"^\s*(Definition|Fixpoint|Inductive|Record)\s+([A-Za-z_][A-Za-z0-9_']*)", line)
            if mm:
                name = mm.group(2)
                break
    except OSError:
        pass
    return {"file": os.path.relpath(path, COQ), "line": ln, "statement": name, "message": msg.strip()[:600]}


def build_all(jobs=16, clean=False, log=None):
    """constants -> lint -> make -> extraction -> driver.  Returns a status dict; never raises."""
    st = {"constants_ok": False, "lint": [], "make_ok": False, "driver_ok": False, "error": None, "make_s": 0.0}
    os.makedirs(BUILD, exist_ok=True)
    with open(LOCK, "w") as lk:
        fcntl.flock(lk, fcntl.LOCK_EX)
        t0 = time.time()
        env = dict(os.environ, PYTHONPATH=REPO, PYTHONHASHSEED="0")
        env.pop("DOCTRANS_LINE_LENGTH", None)
        rc, out = run([VENV_PY, os.path.join(VERIF, "harness", "extract_constants.py")], env=env, timeout=300)
        st["constants_ok"] = rc == 0
        if rc != 0:
            st["error"] = {"stage": "constants", "message": out[-1500:]}
            return st
        st["lint"] = lint()
        if st["lint"]:
            st["error"] = {"stage": "lint", "message": "; ".join(st["lint"][:10])}
            return st
        changed = write_coqproject()
        if changed or not os.path.exists(os.path.join(COQ, "Makefile")):
            rc, out = run(["coq_makefile", "-f", "_CoqProject", "-o", "Makefile"], cwd=COQ)
            if rc != 0:
                st["error"] = {"stage": "coq_makefile", "message": out[-1500:]}
                return st
        if clean:
            run(["make", "clean"], cwd=COQ)
        rc, out = run(["timeout", "3000", "make", "-j%d" % jobs], cwd=COQ, timeout=3100)
        st["make_s"] = round(time.time() - t0, 1)
        if log:
            open(log, "w").write(out)
        if rc != 0:
            st["error"] = dict(first_error(out) or {"message": out[-1500:]}, stage="make")
            # the model may still be usable: fall through to the driver if model .vo files exist
        else:
            st["make_ok"] = True
        # extraction + driver (needs model/AllRun.vo)
        allrun_vo = os.path.join(COQ, "model", "AllRun.vo")
        if os.path.exists(allrun_vo):
            ml = os.path.join(BUILD, "model.ml")
            newest_vo = max(os.path.getmtime(f) for f in glob.glob(os.path.join(COQ, "model", "*.vo")))
            if not os.path.exists(ml) or os.path.getmtime(ml) < newest_vo:
                rc, out = run(["timeout", "600", "coqc", "-Q", COQ, "DT", os.path.join(COQ, "extract", "Extract.v")], cwd=BUILD)
                if rc != 0:
                    st["error"] = st["error"] or {"stage": "extraction", "message": out[-1500:]}
                    return st
            drv_src = os.path.join(COQ, "extract", "driver.ml")
            if (not os.path.exists(DRIVER) or os.path.getmtime(DRIVER) < os.path.getmtime(ml)
                    or os.path.getmtime(DRIVER) < os.path.getmtime(drv_src)):
                run(["cp", drv_src, os.path.join(BUILD, "driver.ml")])
                rc, out = run(["ocamlfind", "ocamlopt", "-O3", "-o", "driver", "model.mli", "model.ml", "driver.ml"], cwd=BUILD)
                if rc != 0:
                    st["error"] = st["error"] or {"stage": "driver", "message": out[-1500:]}
                    return st
            st["driver_ok"] = os.path.exists(DRIVER)
    return st


def deps_of(vfile):
    """transitive .v dependencies (within the development) of a file, including itself"""
    rc, out = run(["coqdep", "-Q", ".", "DT", "-sort", os.path.relpath(vfile, COQ)], cwd=COQ)
    # -sort prints all given files' deps in order; fall back to parsing plain coqdep
    seen, todo = set(), [os.path.relpath(vfile, COQ)]
    while todo:
        f = todo.pop()
        if f in seen:
            continue
        seen.add(f)
        rc, out = run(["coqdep", "-Q", ".", "DT", f], cwd=COQ)
        for m in re.finditer(r"(\S+)\.vo\b", out.split(":", 1)[1] if ":" in out else ""):
            d = m.group(1) + ".v"
            if os.path.exists(os.path.join(COQ, d)) and d not in seen:
                todo.append(d)
    return sorted(seen)


def obligations(prop_v):
    """(obligation names, discharged names) in the dependency cone of props/Cxx.v"""
    obl, dis = [], []
    for f in deps_of(prop_v):
        path = os.path.join(COQ, f)
        src = strip_comments(open(path).read())
        names = ["%s:%s" % (f, m.group(2)) for m in STMT_RE.finditer(src)]
        obl += names
        vo = path + "o"
        if os.path.exists(vo) and os.path.getmtime(vo) >= os.path.getmtime(path):
            dis += names
    return obl, dis


def check_prop(prop_id, thorough=False):
    """re-run coqc on props/Cxx.v so the kernel re-checks this property's theorems on this run"""
    pv = os.path.join(COQ, "props", prop_id + ".v")
    res = {"prop_ok": False, "assumptions": "", "error": None, "coqchk": None}
    if not os.path.exists(pv):
        res["error"] = {"message": "no props/%s.v" % prop_id}
        return res
    with open(LOCK, "w") as lk:
        fcntl.flock(lk, fcntl.LOCK_EX)
        rc, out = run(["timeout", "900", "coqc", "-Q", ".", "DT", os.path.relpath(pv, COQ)], cwd=COQ, timeout=1000)
    res["assumptions"] = out[-6000:]
    if rc != 0:
        res["error"] = first_error(out) or {"message": out[-1500:]}
        return res
    res["prop_ok"] = True
    res["closed"] = out.count("Closed under the global context")
    res["axioms"] = sorted(set(re.findall(r"^([A-Za-z_][\w.']*)\s*:", out, re.M)))
    if thorough:
        rc, out = run(["timeout", "1500", "coqchk", "-silent", "-o", "-Q", ".", "DT", "DT.props." + prop_id], cwd=COQ, timeout=1600)
        res["coqchk"] = {"rc": rc, "tail": out[-3000:]}
        if rc != 0:
            res["prop_ok"] = False
            res["error"] = {"message": "coqchk failed: " + out[-800:]}
    return res


if __name__ == "__main__":
    s = build_all(clean="--clean" in sys.argv, log=os.path.join(COQ, "make.log"))
    print(s)
    sys.exit(0 if s["make_ok"] and s["driver_ok"] else 1)
