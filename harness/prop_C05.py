"""C05 — any-to-any convertibility preserves the interface.

Oracle on the REAL code: a generated interface description is pushed through a chain of conversions over the seven
kinds (rest, numpydoc, google, class, function, method, argparse); one conversion is the real emitter (API default
options), ast.unparse / ast.parse for the code kinds, and the real parser (docstring kinds read the default back
out of its sentence: parse.docstring(text, emit_default_doc=False)).  The IR parsed from the last artefact is
compared with the original under `preserved` (summary, names, order, types, prose, explicit defaults with their
Python type where None ~ "None" ~ NoneStr, return entry), after allowing the losses documented per kind
(DESIGN.md Appendix C).  Every point is classified by the extracted Coq function C05Spec.c05_class_of (through the
driver): None = inside the region chain_safe on which EVERY chain must preserve the interface (then a failure is
a violation), otherwise the named reason the IR / chain falls outside."""
import ast
import collections
import copy
import itertools
import json
import os
import random
import re
from collections import OrderedDict
from multiprocessing import Pool

from common import Sym, dumps, loads, impl, run_model, unhx
import gen_text as G
import gen_ir
import irwire
import sync_lab
import fam_docparse
import fam_docemit

ID = "C05"
COQ_PROP = "C05"
import fam_docparseng  # noqa: E402  (every kind on a chain is converted by its own emitter and parser)
import fam_emitast  # noqa: E402
import fam_parseast  # noqa: E402
import fam_parsesig  # noqa: E402

FAMILIES = [(fam_docparse, 1200, 20000), (fam_docemit, 1000, 12000), (fam_docparseng, 1000, 12000), (fam_emitast, 1200, 15000),
            (fam_parseast, 1200, 15000), (fam_parsesig, 1000, 12000)]
TECHNIQUE = ("Coq proof of the composition theorem (any chain length; `preserved` reflexive, transitive, position-wise: no swap "
             "between parameters) from per-kind round-trip laws; the ReST law is discharged from the C01 ReST theorem on its guard; "
             "the other per-kind laws and the closure of the region are validated on the real emitters and parsers: every ordered "
             "pair and length-3 chain of the seven kinds, classified exactly by the extracted Coq region chain_safe")
TRUSTED = [
    "the per-kind laws RT_k for numpydoc, google, class, function, method and argparse, and the closure of chain_safe under every "
    "conversion, are hypotheses of C05_chain_preserved; they are validated by this oracle on the real code (every in-region point, "
    "every hop), not proved from the per-kind models",
    "modelled, not verified: ast.unparse / ast.parse between emitter and parser of the code kinds (performed for real by the oracle)",
    "the conversion of a docstring kind reads defaults back out of their sentence (parse.docstring(..., emit_default_doc=False)); emitters "
    "run with their API default options (word_wrap on); text long enough to be re-flowed is a named class outside the region",
    "documented losses the comparison allows (Appendix C): through class / argparse a parameter without default may acquire a zero "
    "value; through argparse a Union / Tuple / dotted type may fall back to str",
]

KINDS = ["rest", "numpydoc", "google", "class", "function", "method", "argparse"]
DOC_KINDS = ("rest", "numpydoc", "google")
PAIRS = [list(c) for c in itertools.permutations(KINDS, 2)]
TRIPLES = [list(c) for c in itertools.permutations(KINDS, 3)]
SINGLES = [[k] for k in KINDS]
SCALARS = ("str", "int", "float", "bool")
NONE_LIKE = ("None", "```(None)```")


# ------------------------------------------------------------------ conversions on the real code
def _od(ir):
    ir = copy.deepcopy(ir)
    ir["params"] = OrderedDict((ir.get("params") or {}).items())
    if ir.get("returns"):
        ir["returns"] = OrderedDict(ir["returns"].items())
    return ir


def emit_text(kind, ir):
    m = impl()
    ir = _od(ir)
    if kind in DOC_KINDS:
        return m.emit.docstring(ir, docstring_format=kind)
    if kind == "class":
        node = m.emit.class_(ir, class_name="ConfigClass")
    elif kind == "function":
        node = m.emit.function(ir, function_name="f", function_type="static")
    elif kind == "method":
        node = m.emit.function(ir, function_name="f", function_type="self")
    else:
        node = m.emit.argparse_function(ir, function_name="set_cli_args")
    return ast.unparse(ast.fix_missing_locations(node))


def parse_text(kind, text):
    m = impl()
    if kind in DOC_KINDS:
        return m.parse.docstring(text, emit_default_doc=False)
    node = ast.parse(text).body[0]
    if kind == "class":
        return m.parse.class_(node)
    if kind in ("function", "method"):
        return m.parse.function(node)
    return m.parse.argparse_ast(node)


def convert(kind, ir):
    return parse_text(kind, emit_text(kind, ir))


# ------------------------------------------------------------------ preserved (Python side of C05Spec.preserved)
def none_like(v):
    return v is None or (isinstance(v, str) and v in NONE_LIKE)


def same_default(v, w):
    if isinstance(v, ast.AST) or isinstance(w, ast.AST):
        return False
    if none_like(v) and none_like(w):
        return True
    if type(v) is type(w) and v == w:
        return repr(v) == repr(w) if isinstance(v, float) else True
    return False


def _zero_like(v):
    return none_like(v) or (not isinstance(v, ast.AST) and any(type(v) is type(z) and v == z for z in (0, 0.0, "", False)))


def _compound_type(t):
    return bool(t) and (re.fullmatch(r"(Union|Tuple)\[.*\]", t) is not None
                        or re.fullmatch(r"[A-Za-z_]\w*(\.[A-Za-z_]\w*)+", t) is not None)


def cmp_entry(name, p, q, ks=()):
    """differences between an original entry p and the entry q read back; ks = the kinds of the chain (for the
    documented losses), () = strict"""
    d = []
    tp, tq = p.get("typ") or None, q.get("typ") or None
    if tp != tq and not ("argparse" in ks and _compound_type(tp) and tq == "str"):
        d.append("type of %s: %r came back as %r" % (name, tp, tq))
    if (p.get("doc") or None) != (q.get("doc") or None):
        d.append("prose of %s: %r came back as %r" % (name, p.get("doc"), q.get("doc")))
    hp, hq = "default" in p, "default" in q
    if hp != hq:
        if not (not hp and ("class" in ks or "argparse" in ks) and _zero_like(q["default"])):
            d.append("default of %s: %s came back as %s" % (name, repr(p["default"]) if hp else "<absent>",
                                                             repr(q["default"]) if hq else "<absent>"))
    elif hp and not same_default(p["default"], q["default"]):
        d.append("default of %s: %r (%s) came back as %r (%s)" % (name, p["default"], type(p["default"]).__name__,
                                                                  q["default"], type(q["default"]).__name__))
    return d


def ret_of(ir):
    r = ir.get("returns")
    return r.get("return_type") if r else None


def preserved(a, b, ks=()):
    """list of differences (empty = preserved).  ks=() is the strict relation C05Spec.preserved."""
    d = []
    if (a.get("doc") if a.get("doc") is not None else None) != (b.get("doc") if b.get("doc") is not None else None):
        d.append("summary %r came back as %r" % (a.get("doc"), b.get("doc")))
    na, nb = list(a.get("params") or {}), list(b.get("params") or {})
    if na != nb:
        d.append("names/order %r came back as %r" % (na, nb))
        return d
    for n in na:
        d += cmp_entry(n, a["params"][n], b["params"][n], ks)
    ra, rb = ret_of(a), ret_of(b)
    if (ra is None) != (rb is None):
        d.append("return entry %r came back as %r" % (ra, rb))
    elif ra is not None:
        d += cmp_entry("return_type", ra, rb, ks)
    return d


def _jsonable(ir):
    def val(v):
        return ("<ast %s>" % ast.unparse(v)) if isinstance(v, ast.AST) else v
    out = {"name": None, "type": "static", "doc": ir.get("doc"), "params": OrderedDict(), "returns": None}
    for k, p in (ir.get("params") or {}).items():
        out["params"][k] = {x: val(y) for x, y in p.items()}
    r = ret_of(ir)
    if r is not None:
        out["returns"] = {"return_type": {x: val(y) for x, y in r.items()}}
    return out


def run_chain(ir, ks):
    """-> (final IR or None, what, [IR after each hop])"""
    cur, mids = ir, []
    for j, k in enumerate(ks):
        try:
            cur = convert(k, cur)
        except Exception as e:  # noqa
            return None, "hop %d (%s) raised %s: %s" % (j + 1, k, type(e).__name__, str(e)[:100]), mids
        mids.append(cur)
    return cur, "", mids


def evaluate(ir, ks):
    """the property at one point, on the real code: (holds, what, [jsonable IR after each hop], strict_holds)"""
    out, what, mids = run_chain(ir, ks)
    jm = [_jsonable(x) for x in mids]
    if out is None:
        return False, what, jm, False
    d = preserved(ir, out, ks)
    return (not d), "; ".join(d), jm, not preserved(ir, out)


def check_case(case):
    if case.get("before") is not None:
        # a sequence point: the conversion under test right after another one (that usually raises) in the same process
        run_poison(case["before"])
        ok, what, _, strict_ok = evaluate(_from_case(case["ir"]), case["chain"])
        return (ok and strict_ok), what or ("" if strict_ok else "preserved only up to a documented loss inside the region")
    ok, what, _, _ = evaluate(_from_case(case["ir"]), case["chain"])
    return ok, what


def _from_case(j):
    ir = {"name": None, "type": "static", "doc": j.get("doc"),
          "params": OrderedDict((k, dict(v)) for k, v in (j.get("params") or {}).items()), "returns": None}
    r = (j.get("returns") or {}).get("return_type") if j.get("returns") else None
    if r is not None:
        ir["returns"] = OrderedDict((("return_type", dict(r)),))
    return ir


# ------------------------------------------------------------------ generators
LIT_WORDS = ["np", "tf", "adam", "x y", "sgd", "mnist"]


def near_param(rng, tags):
    """a parameter near the region: the taxonomy of types x prose shapes x default kinds, with the shapes that
    leave the region in the minority"""
    shape = rng.choice(["scalar"] * 4 + ["optional"] * 3 + ["list", "literal", "literal", "union", "tuple", "dotted", "absent", "other"])
    sc = rng.choice(SCALARS)
    typ = {"scalar": sc, "optional": "Optional[%s]" % sc, "list": "List[%s]" % sc,
           "literal": "Literal[%s]" % ", ".join(repr(x) for x in rng.sample(LIT_WORDS, rng.randint(2, 3))),
           "union": "Union[%s]" % ", ".join(rng.sample(SCALARS, 2)), "tuple": "Tuple[%s, %s]" % (sc, rng.choice(SCALARS)),
           "dotted": rng.choice(["np.ndarray", "tf.data.Dataset", "typing.Any"]), "absent": None,
           "other": rng.choice(["dict", "Any", "Optional[List[str]]", "Dict[str, int]", "Literal['np']", 'Literal["a", "b"]',
                                "Callable[[int], str]", "Literal['np','tf']", "Optional[ int ]"])}[shape]
    pk = rng.choice(["clean"] * 6 + ["comma", "noterm", "absent", "spicy", "long"])
    doc = (G.clean_prose(rng, min_words=12, max_words=26) if pk == "long" else gen_ir.prose_of_shape(rng, pk))
    dk = rng.choice(["absent", "absent", "none", "nonestr", "value", "value", "value", "value", "code", "mismatch", "wide"])
    p = {}
    if doc is not None:
        p["doc"] = doc
    if typ is not None:
        p["typ"] = typ
    if dk == "none":
        p["default"] = None
    elif dk == "nonestr":
        p["default"] = "```(None)```"
    elif dk == "code":
        p["default"] = G.code_value(rng)
    elif dk == "mismatch":
        p["default"] = G.value(rng, kinds=("int", "float", "bool", "str"))
    elif dk in ("value", "wide"):
        if shape == "literal":
            p["default"] = rng.choice([e.value for e in ast.parse(typ).body[0].value.slice.elts])
        else:
            t = sc if shape in ("scalar", "optional", "list", "tuple") else rng.choice(SCALARS)
            if dk == "value":
                p["default"] = {"str": rng.choice(["mnist", "adam", "x y", "relu", "~/tfds", "5", "True", "None", "v1"]),
                                "int": rng.choice([5, 0, -3, 100, 123456]),
                                "float": rng.choice([0.5, 2.0, 0.001, -1.5, 1e-07, 1e+20]), "bool": rng.choice([True, False])}[t]
            else:
                p["default"] = {"str": G.str_value(rng), "int": G.int_value(rng), "float": G.float_value(rng),
                                "bool": rng.choice([True, False])}[t]
    tags += ["typ:" + shape, "prose:" + pk, "default:" + dk]
    return p


def near_ir(rng):
    tags = []
    n = rng.choice([0, 1, 1, 2, 2, 3, 4])
    params, used = OrderedDict(), set()
    for _ in range(n):
        name = G.ident(rng, allow_kwargs=rng.random() < 0.05)
        while name in used:
            name = G.ident(rng)
        used.add(name)
        params[name] = near_param(rng, tags)
    ret = None
    if rng.random() < 0.2:
        r = {}
        k = rng.choice(["both", "both", "both", "typ", "doc", "default"])
        if k != "doc":
            r["typ"] = rng.choice(["int", "str", "Tuple[int, str]", "np.ndarray"])
        if k != "typ":
            r["doc"] = G.clean_prose(rng)
        if k == "default":
            r["default"] = rng.choice(["```5```", "```x```"])
        ret = OrderedDict((("return_type", r),))
        tags.append("returns:" + k)
    doc = G.clean_prose(rng, max_words=7, terminal=rng.choice([".", ""])) if rng.random() < 0.85 else \
        "\n".join(G.clean_prose(rng, max_words=6) for _ in range(2))
    tags.append("params:%d" % n)
    return {"name": None, "type": "static", "doc": doc, "params": params, "returns": ret}, tags


def region_param(rng, ks):
    """a parameter inside chain_safe ks, by construction"""
    s = set(ks)
    doc, cls, fn, arg, ng = bool(s & set(DOC_KINDS)), "class" in s, bool(s & {"function", "method"}), "argparse" in s, \
        bool(s & {"numpydoc", "google"})
    shapes = ["scalar"] * 3 + ["optional"] * 2 + ["literal"]
    if not arg:
        shapes += ["list", "union", "tuple", "dotted"]
    shape = rng.choice(shapes)
    sc = rng.choice(SCALARS)
    words = rng.sample(LIT_WORDS, rng.randint(2, 3))
    typ = {"scalar": sc, "optional": "Optional[%s]" % sc, "list": "List[%s]" % sc,
           "literal": "Literal[%s]" % ", ".join(repr(x) for x in words),
           "union": "Union[%s]" % ", ".join(rng.sample(SCALARS, 2)), "tuple": "Tuple[%s, %s]" % (sc, rng.choice(SCALARS)),
           "dotted": rng.choice(["np.ndarray", "tf.data.Dataset", "typing.Any"])}[shape]
    dks = []
    if shape in ("scalar", "optional", "literal"):
        dks += ["value"] * 3
    if not arg and not (shape == "scalar" and cls):
        dks.append("none")
    if not cls and not fn and not (arg and shape != "optional"):
        dks.append("absent")
    dk = rng.choice(dks or ["value"])
    p = {"typ": typ}
    # prose: plain one-line text ending in . or ,; sometimes stretched towards the line bound
    budget = 70 - 16 - 12
    nwords = rng.randint(1, 6) if rng.random() < 0.85 else 12
    text = G.clean_prose(rng, min_words=nwords, max_words=nwords, terminal="")
    while len(text) > budget - 1:
        text = text.rsplit(" ", 1)[0] if " " in text else text[:budget - 1]
    p["doc"] = text.rstrip(" ,.") + rng.choice([".", ".", ","])
    if dk == "none":
        p["default"] = rng.choice([None, "```(None)```", "None"])
    elif dk == "value":
        p["default"] = rng.choice(words) if shape == "literal" else \
            {"str": rng.choice(["mnist", "adam", "x y", "relu", "~/tfds", "5", "True", "v1", "a-b", "path/to"]),
             "int": rng.choice([5, 0, -3, 100, 123456, -42]), "float": rng.choice([0.5, 2.0, 0.001, -1.5, 1e-07, 1e+20, 0.0]),
             "bool": rng.choice([True, False])}[sc]
    elif dk == "absent" and not doc and not cls and rng.random() < 0.3:
        del p["doc"]
    return p, dk


def region_ir(rng, ks):
    n = rng.choice([1, 1, 2, 2, 3, 4])
    params, used, seen = OrderedDict(), set(), False
    order_matters = bool(set(ks) & {"numpydoc", "google", "argparse"})
    for _ in range(n):
        name = G.ident(rng)
        while name in used or len(name) > 16:
            name = G.ident(rng)
        used.add(name)
        p, dk = region_param(rng, ks)
        if dk == "absent" and seen and order_matters:
            continue
        seen = seen or dk != "absent"
        params[name] = p
    ret = None
    if set(ks) <= {"rest", "function", "method"} and rng.random() < 0.3:
        ret = OrderedDict((("return_type", {"typ": rng.choice(["int", "str", "Tuple[int, str]", "np.ndarray"]),
                                            "doc": G.clean_prose(rng, max_words=6)[:40].rstrip(" ,.") + "."}),))
    doc = G.clean_prose(rng, max_words=rng.choice([7, 7, 7, 16]), terminal=rng.choice([".", ""]))[:90].rstrip()
    return {"name": None, "type": "static", "doc": doc, "params": params, "returns": ret}, ["region", "params:%d" % len(params)]


def sq_text(rng, depth=1, terminal=False):
    """a one-line plain text wrapped in `depth` pairs of single quote marks (the apostrophe is a character of plain text for
    the classifiers; the double quote mark is not): a quoted word or phrase, or a text that merely begins and ends with
    quoted words"""
    q = "'" * depth
    if rng.random() < 0.65:
        body = " ".join(G.word(rng) for _ in range(rng.randint(1, 4))) + ("." if terminal else "")
        return q + body + q
    return "%s%s%s %s %s%s%s" % (q, G.word(rng), q, rng.choice(["and", "or", "then", "is not"]), q, G.word(rng), q)


def new_shape_point(rng, chains):
    """(ir, chain, tags): a description built inside the region of its chain and then given one of the shapes proofs found
    inside that region: a float default -0.0 (mostly under the scalar type float, mostly on a chain through the class kind),
    a summary and / or the prose of a parameter wrapped in 1..3 pairs of single quote marks (mostly on a chain through the
    argparse kind; for prose mostly on a chain without docstring kinds, where prose need not end in a full stop)"""
    shape = rng.choice(["negzero", "negzero", "quoted-summary", "quoted-summary", "quoted-prose", "quoted-prose", "both"])
    want = {"negzero": ["class"], "quoted-summary": ["argparse"], "quoted-prose": ["argparse"], "both": ["class", "argparse"]}[shape]
    pool = chains
    if rng.random() < 0.8:
        pool = [c for c in chains if all(k in c for k in want)]
        if shape == "quoted-prose" and rng.random() < 0.6:
            pool = [c for c in pool if not set(c) & set(DOC_KINDS)]
    ks = rng.choice(pool or chains)
    ir, _ = region_ir(rng, ks)
    names = list(ir["params"])
    if not names:
        names = ["x"]
        ir["params"]["x"] = {"typ": "int", "doc": "the x.", "default": 1}
    depth = rng.choice([1, 1, 1, 2, 3])
    if shape in ("negzero", "both"):
        p = ir["params"][rng.choice(names)]
        p["typ"] = "float" if rng.random() < 0.8 else "Optional[float]"
        p["default"] = -0.0
        p.setdefault("doc", "the value.")
    if shape in ("quoted-summary", "both"):
        ir["doc"] = sq_text(rng, depth, terminal=rng.random() < 0.3)
    if shape == "quoted-prose":
        if set(ks) & set(DOC_KINDS) and not set(ks) & {"class", "function", "method"}:
            # (next to docstring kinds prose before a default sentence must end in a full stop: an Optional parameter without
            # default, placed first, carries any prose there)
            name = G.ident(rng)
            while name in ir["params"] or len(name) > 16:
                name = G.ident(rng)
            items = [(name, {"typ": "Optional[%s]" % rng.choice(SCALARS), "doc": sq_text(rng, depth)})] + list(ir["params"].items())
            ir["params"] = OrderedDict(items)
        else:
            ir["params"][rng.choice(names)]["doc"] = sq_text(rng, depth)
    return ir, ks, ["region", "new-shape", shape]


def _side_rng(rng):
    """a generator seeded from `rng` that leaves the stream of `rng` where it was"""
    state = rng.getstate()
    side = random.Random(rng.random())
    rng.setstate(state)
    return side


def gen_points(rng, tier):
    """[(ir, chain, tags)]"""
    pts = []
    side = _side_rng(rng)
    if tier == "quick":
        n_ir, per = 330, 14
        all_chains = SINGLES + PAIRS + TRIPLES
        for _ in range(n_ir):
            r = rng.random()
            chains = rng.sample(all_chains, per)
            if r < 0.15:
                ir, tags = sync_lab.safe_ir(rng), ["safe_ir"]
            elif r < 0.33:
                ir, tags = gen_ir.gen_ir(rng, clean=rng.random() < 0.4)
                tags = ["gen_ir"] + [t for t in tags if t.startswith(("params:", "returns:"))]
            elif r < 0.55:
                ir, tags = near_ir(rng)
            else:
                ir = None
            for ks in chains:
                if ir is None:
                    i2, t2 = region_ir(rng, ks)
                    pts.append((i2, ks, t2))
                else:
                    pts.append((ir, ks, tags))
    else:
        # every ordered pair and every length-3 chain (and the single hops) on each description
        for n in range(330):
            r = rng.random()
            if r < 0.35:
                ir, tags = sync_lab.safe_ir(rng), ["safe_ir"]
            elif r < 0.55:
                ir, tags = gen_ir.gen_ir(rng, clean=rng.random() < 0.4)
                tags = ["gen_ir"] + [t for t in tags if t.startswith(("params:", "returns:"))]
            elif r < 0.8:
                ir, tags = near_ir(rng)
            else:
                ir, tags = region_ir(rng, KINDS)
            for ks in SINGLES + PAIRS + TRIPLES:
                pts.append((ir, ks, tags))
        for ks in SINGLES + PAIRS + TRIPLES:
            for _ in range(40):
                ir, tags = region_ir(rng, ks)
                pts.append((ir, ks, tags))
    # the shapes of new_shape_point: about one point in twenty
    pts += [new_shape_point(side, SINGLES + PAIRS + TRIPLES) for _ in range(240 if tier == "quick" else 4000)]
    return pts


# ------------------------------------------------------------------ sequences: one process, several conversions
DOC_CHAINS = [list(c) for n in (1, 2, 3) for c in itertools.permutations(DOC_KINDS, n)]
DAMAGES = ["drop-paren", "drop-paren", "drop-paren", "truncate", "junk-line", "junk-line", "drop-colon", "dedent", "tab-indent"]


def damage_docstring(rng, text):
    """one slip of the kind a hand-edited docstring has: a closing parenthesis or a colon lost, the text cut short, a stray
    line, a line that lost its indent"""
    kind = rng.choice(DAMAGES)
    if kind in ("drop-paren", "drop-colon"):
        c = ")" if kind == "drop-paren" else ":"
        idx = [j for j, x in enumerate(text) if x == c]
        if idx:
            j = rng.choice(idx)
            return kind, text[:j] + text[j + 1:]
        kind = "truncate"
    if kind == "truncate":
        return kind, text[:rng.randrange(len(text) // 2, len(text) + 1)]
    ls = text.split("\n")
    j = rng.randrange(len(ls))
    if kind == "junk-line":
        ls.insert(j, rng.choice(["  (", "x : ", "    -----", "  y (int", ":", "  z (str: text", "Returns", "-------"]))
    elif kind == "dedent":
        ls[j] = ls[j].lstrip()
    else:
        ls[j] = "\t" + ls[j].lstrip()
    return kind, "\n".join(ls)


def gen_poison(rng):
    """what a batch job may convert right before the conversion under test - JSON-able:
       {"kind": "text", ...}   a docstring (emitted for a generated description, then damaged once) handed to parse.docstring;
       {"kind": "chain", ...}  a conversion chain on a description drawn near / outside the region (return entries with code
                               defaults, non-finite floats, defaults of another type ...: many raise part-way)"""
    for _ in range(20):
        if rng.random() < 0.55:
            k = rng.choice(["google", "google", "numpydoc", "numpydoc", "rest"])
            ir = region_ir(rng, [k])[0] if rng.random() < 0.5 else near_ir(rng)[0]
            if rng.random() < 0.5:
                # (entries with a default first: the damage then sits behind an entry whose default was read)
                items = sorted(ir["params"].items(), key=lambda kv: "default" not in kv[1])
                ir["params"] = OrderedDict(items)
            try:
                text = emit_text(k, ir)
            except Exception:  # noqa
                continue
            dk, text = damage_docstring(rng, text)
            return {"kind": "text", "format": k, "damage": dk, "text": text}
        ir = (near_ir(rng)[0] if rng.random() < 0.7 else gen_ir.gen_ir(rng)[0])
        if not ir["params"]:
            continue
        if rng.random() < 0.4:
            # an interface of the supported domain whose return entry carries a type and a code default
            ir["returns"] = OrderedDict((("return_type", {"typ": rng.choice(["int", "str", "float"]), "doc": G.clean_prose(rng),
                                                        "default": rng.choice(["```count```", "```x```", "```5```", "```a + b```"])}),))
        ks = rng.choice(SINGLES + PAIRS)
        try:
            j = _jsonable(ir)
            json.dumps(j)
        except Exception:  # noqa
            continue
        return {"kind": "chain", "ir": j, "chain": ks}
    return {"kind": "text", "format": "google", "damage": "fixed", "text": "\nS.\n\nArgs:\n  a (int): x. Defaults to 2\n  b (int: y\n"}


def run_poison(spec):
    """-> 'raised:<kind>' | 'completed'"""
    try:
        if spec["kind"] == "text":
            impl().parse.docstring(spec["text"], emit_default_doc=False)
        else:
            cur = _from_case(spec["ir"])
            for k in spec["chain"]:
                cur = convert(k, cur)
    except Exception as e:  # noqa
        return "raised:" + type(e).__name__
    return "completed"


def _screen(chunk):
    return [run_poison(p) for p in chunk]


def gen_sequences(rng, n, nproc=1):
    """[(poison, ir, chain, tags)]: the conversion under test is a chain on a description built inside the region of that chain;
    half of the chains run over the docstring kinds only (there a parameter without default is inside the region).  For four
    units in five, of three candidates for the other conversion the first that raises is taken (tried out in throw-away
    processes, never in this one); for the rest the first candidate whatever it does (mostly conversions that complete)"""
    cands = [[gen_poison(rng) for _ in range(3)] for _ in range(n)]
    flat = [p for c in cands for p in c]
    size = max(1, len(flat) // (nproc * 4))
    chunks = [flat[i:i + size] for i in range(0, len(flat), size)]
    if nproc > 1:
        with Pool(nproc) as pool:
            did = [d for ch in pool.map(_screen, chunks) for d in ch]
    else:
        did = ["completed"] * len(flat)
    out = []
    for j in range(n):
        ks = rng.choice(DOC_CHAINS) if rng.random() < 0.5 else rng.choice(SINGLES + PAIRS + TRIPLES)
        ir, tags = region_ir(rng, ks)
        pick = cands[j][0]
        if rng.random() < 0.8:
            pick = next((p for p, d in zip(cands[j], did[3 * j:3 * j + 3]) if d != "completed"), pick)
        out.append((pick, ir, ks, tags + ["sequence"]))
    return out


def _final(out):
    return json.dumps(_jsonable(out), sort_keys=True, default=str) if out is not None else None


def _work_seq(chunk):
    """per unit: the chain alone, then the other conversion, then the chain again (same process)
    -> (what the other conversion did, final IR alone, final IR afterwards, evaluate(...) afterwards)"""
    res = []
    for poison, ir, ks in chunk:
        alone, what_alone, _ = run_chain(ir, ks)
        alone = _final(alone) if alone is not None else "raised: " + what_alone
        did = run_poison(poison)
        ok, what, mids, strict_ok = evaluate(ir, ks)
        after = json.dumps(mids[-1], sort_keys=True, default=str) if len(mids) == len(ks) else "raised: " + what
        res.append((did, alone, after, ok, what, strict_ok, mids[-1] if len(mids) == len(ks) and mids else None))
    return res


# ------------------------------------------------------------------ the oracle
def _work(chunk):
    return [evaluate(ir, ks) for ir, ks in chunk]


def _class_request(ks, ir, fn="c05_class_r"):
    return dumps([Sym(fn), [Sym(k) for k in ks], irwire.enc_ir(_od(ir))])


# ------------------------------------------------------------------ the classes of model/C05Spec2.v
# (the refined classifier c05_class_of_r = c05_class_of where that names a class, otherwise the two classes below)
NEW_CLASSES = ("negative-zero-default", "text-quoted")


def _new_class_info(pairs):
    """[(ks, ir)] -> [(new classes that apply on this chain, parameters with a -0.0 default under a scalar type (chains through
    the class kind), whether the summary is quoted, parameters with quoted prose (chains through the argparse kind))], from
    C05Spec2 (c05_new_classes)"""
    out = []
    for r in run_model([_class_request(ks, ir, "c05_new_classes") for ks, ir in pairs]):
        e = loads(r)
        out.append(([unhx(x) for x in e[0]], [unhx(x) for x in e[1]], e[2] == "true", [unhx(x) for x in e[3]]))
    return out


def described_by_new_classes(ir, out, negz, qsum, qhelps):
    """a new class stands for the failure it describes only: the description at the end of the chain must be - under the
    STRICT relation, the point being inside the first classifier's region otherwise - the input with (a) the -0.0 defaults of
    the named parameters replaced by 0.0 and (b) one outer pair of quote marks removed from the summary / from the prose of
    the named parameters (the kinds of a chain are distinct: the class and the argparse kind are passed once each).  Every
    other difference (and an exception anywhere) is not what these classes describe"""
    if out is None:
        return False
    exp = copy.deepcopy(ir)
    for n in negz:
        p = (exp.get("params") or {}).get(n)
        if p is not None:
            p["default"] = 0.0
    if qsum and isinstance(exp.get("doc"), str):
        exp["doc"] = exp["doc"][1:-1]
    for n in qhelps:
        p = (exp.get("params") or {}).get(n)
        if p is not None and isinstance(p.get("doc"), str):
            p["doc"] = p["doc"][1:-1]
    return not preserved(exp, out)


def _absorb(failures):
    """failures reported under a NEW class keep it only when the failure is what the new classes that apply describe
    (otherwise class None: a violation); f["_final"] = the jsonable description at the end of the chain, or None"""
    idx = [k for k, f in enumerate(failures) if f["class"] in NEW_CLASSES]
    infos = _new_class_info([(failures[k]["case"]["chain"], _from_case(failures[k]["case"]["ir"])) for k in idx])
    hist = collections.Counter()
    for k, (news, negz, qsum, qhelps) in zip(idx, infos):
        f = failures[k]
        fin = f.get("_final")
        if not described_by_new_classes(_from_case(f["case"]["ir"]), _from_case(fin) if fin is not None else None,
                                        negz, qsum, qhelps):
            f["what"] += " [not what the recorded class%s %s describe%s]" % (
                "es" if len(news) > 1 else "", ", ".join(news), "" if len(news) > 1 else "s")
            hist["new-class-not-described:" + f["class"]] += 1
            f["class"] = None
    for f in failures:
        f.pop("_final", None)
    return hist


def _classify(pairs):
    """[(ks, ir)] -> ['out-of-domain' | None | class name | 'unencodable']"""
    reqs, idx, out = [], [], [None] * len(pairs)
    for n, (ks, ir) in enumerate(pairs):
        try:
            reqs.append(_class_request(ks, ir))
            idx.append(n)
        except Exception:  # noqa
            out[n] = "unencodable"
    for n, r in zip(idx, run_model(reqs)):
        e = loads(r)
        out[n] = "out-of-domain" if e == "out-of-domain" else (None if e == "none" else unhx(e[1]))
    return out


def oracle(rng, tier):
    pts = gen_points(rng, tier)
    classes = _classify([(ks, ir) for ir, ks, _ in pts])
    nproc = max(1, min(12, (os.cpu_count() or 2) - 1))
    work = [(ir, ks) for ir, ks, _ in pts]
    size = max(1, len(work) // (nproc * 8))
    chunks = [work[i:i + size] for i in range(0, len(work), size)]
    impl()
    seqs = gen_sequences(rng, 700 if tier == "quick" else 6000, nproc)
    seq_classes = _classify([(ks, ir) for _, ir, ks, _ in seqs])
    seq_work = [(po, ir, ks) for po, ir, ks, _ in seqs]
    ssize = max(1, len(seq_work) // (nproc * 4))
    seq_chunks = [seq_work[i:i + ssize] for i in range(0, len(seq_work), ssize)]
    if nproc > 1:
        with Pool(nproc) as pool:
            results = [r for ch in pool.map(_work, chunks) for r in ch]
        # (fresh worker processes: what a sequence meets is only what ran before it in its own chunk)
        with Pool(nproc) as pool:
            seq_results = [r for ch in pool.map(_work_seq, seq_chunks) for r in ch]
    else:
        results = [r for ch in map(_work, chunks) for r in ch]
        seq_results = [r for ch in map(_work_seq, seq_chunks) for r in ch]
    failures, hist, seen, disagree = [], collections.Counter(), set(), []
    evaluations = 0
    # ---- sequences: the conversion under test must not depend on what the process converted before
    for (poison, ir, ks, tags), cls, (did, alone, after, ok, what, strict_ok, fin) in zip(seqs, seq_classes, seq_results):
        if cls == "out-of-domain":
            hist["sequence:out-of-domain"] += 1
            continue
        evaluations += 1
        hist["sequence:before:%s:%s" % (poison["kind"] + ("/" + poison["format"] if poison["kind"] == "text" else ""), did)] += 1
        case = {"ir": _jsonable(ir), "chain": ks, "before": poison}
        if cls is None:
            seen.add(json.dumps(case, sort_keys=True, default=str))
            if ok and not strict_ok:
                ok, what = False, "preserved only up to a documented loss inside the region"
        if ok and alone != after:
            ok, what = False, "the same conversion gives another interface right after another conversion in the same process " \
                              "(%s) than alone: %s instead of %s" % (did, after[:300], alone[:300])
        elif not ok:
            what = "right after another conversion in the same process (which %s): %s%s" % (
                did, what, "" if alone == after else " [run alone before it, the chain ended with " + alone[:200] + "]")
        hist["sequence:" + ("holds" if ok else "fails") + ":" + (cls or "in-region")] += 1
        if not ok:
            failures.append({"case": case, "what": what, "class": cls, "_final": fin})
    closure_pairs, closure_idx, rel_reqs, rel_idx = [], [], [], []
    for n, ((ir, ks, tags), cls, (ok, what, mids, strict_ok)) in enumerate(zip(pts, classes, results)):
        if cls == "out-of-domain":
            hist["out-of-domain"] += 1
            continue
        evaluations += 1
        case = {"ir": _jsonable(ir), "chain": ks}
        hist[("holds" if ok else "fails") + ":" + (cls or "in-region")] += 1
        hist["chain-length:%d" % len(ks)] += 1
        if cls is None:
            seen.add(json.dumps(case, sort_keys=True, default=str))
            # inside the region the STRICT relation must hold (the theorem's `preserved`), and every intermediate IR
            # must stay inside the region (the closure part of the per-kind laws)
            if ok and not strict_ok:
                ok, what = False, "preserved only up to a documented loss inside the region"
            for j, mid in enumerate(mids):
                closure_pairs.append((ks, _from_case(mid)))
                closure_idx.append((case, j))
        if not ok:
            failures.append({"case": case, "what": what, "class": cls, "_final": mids[-1] if mids and len(mids) == len(ks) else None})
        if mids and len(mids) == len(ks):
            try:
                rel_reqs.append(dumps([Sym("c05_preserved"), irwire.enc_ir(_od(ir)), irwire.enc_ir(_od(_from_case(mids[-1])))]))
                rel_idx.append((case, strict_ok))
            except Exception:  # noqa
                hist["relation-not-encodable"] += 1
    # closure of the region under every hop (hypothesis of the composition theorem)
    for (case, j), c in zip(closure_idx, _classify(closure_pairs)):
        if c is not None:
            hist["closure-broken"] += 1
            disagree.append({"case": case, "what": "the IR after hop %d leaves the region (%s): closure hypothesis of "
                                                   "C05_chain_preserved fails" % (j + 1, c)})
    # the Coq relation against the oracle's own comparison
    for (case, strict_ok), r in zip(rel_idx, run_model(rel_reqs)):
        if r not in ("true", "false") or (r == "true") != strict_ok:
            disagree.append({"case": case, "coq_preserved": r, "oracle_strict_preserved": strict_ok})
    hist.update(_absorb(failures))
    for (ir, ks, tags), cls in zip(pts, classes):
        if "new-shape" in tags and cls != "out-of-domain":
            hist["new-shapes:%s:%s" % (tags[-1], cls or "in-region")] += 1
    samples = [{"ir": _jsonable(pts[i][0]), "chain": pts[i][1]} for i in range(0, min(len(pts), 4000), 500)]
    return {
        "evaluations": evaluations,
        "distinct_nontrivial": len(seen),
        "rule": "interface descriptions (sync_lab.safe_ir, gen_ir general and clean, a near-region generator over the type taxonomy x "
                "prose shapes x default kinds, and descriptions built inside the region of each chain) x chains over the seven kinds "
                "(quick: 14 sampled single hops / ordered pairs / length-3 chains per description; thorough: all 7 + 42 + 210 on each "
                "description); real emit -> ast.unparse -> ast.parse -> real parse per hop; `preserved` after the documented losses; "
                "inside the region: strict `preserved`, and every intermediate IR classified again (closure); sequences: a chain on a "
                "description inside its region is run alone, then another conversion is run in the same process (a once-damaged "
                "numpydoc / Google / ReST docstring, or a chain on a description outside the region: most raise part-way), then the "
                "chain again: the property must hold and the result must be the one obtained alone; non-trivial = distinct "
                "(description, chain[, what ran before]) inside the region chain_safe_r; classification by the refined classifier "
                "C05Spec2.c05_class_of_r; a stratum of the shapes proofs found inside the first classifier's region (a float default "
                "-0.0; a summary / prose wrapped in one to three pairs of single quote marks) on chains that mostly pass the class / "
                "the argparse kind; a new class stands only for the difference it describes (strict `preserved` against the input "
                "with 0.0 / with one pair of quote marks removed)",
        "failures": failures,
        "model_impl_property_disagreements": disagree,
        "histogram": dict(hist),
        "samples": samples,
        "exhaustive": False,
    }


if __name__ == "__main__":
    import sys
    import time
    tier = sys.argv[1] if len(sys.argv) > 1 else "quick"
    seed = int(sys.argv[2]) if len(sys.argv) > 2 else 1
    t0 = time.time()
    res = oracle(random.Random(seed), tier)
    print({k: res[k] for k in ("evaluations", "distinct_nontrivial")}, "%.1fs" % (time.time() - t0))
    for k, v in sorted(res["histogram"].items()):
        print("   %-60s %d" % (k, v))
    bad = [f for f in res["failures"] if f["class"] is None]
    print("failures with class None:", len(bad), " disagreements:", len(res["model_impl_property_disagreements"]))
    for f in bad[:8]:
        print("  VIOLATION", json.dumps(f, default=str)[:1200])
    for d in res["model_impl_property_disagreements"][:6]:
        print("  DISAGREE", json.dumps(d, default=str)[:1200])
    if len(sys.argv) > 3:
        wit = {}
        for f in res["failures"]:
            if f["class"] is None:
                continue
            size = len(json.dumps(f["case"], default=str)) + 60 * len(f["case"]["chain"])
            if f["class"] not in wit or size < wit[f["class"]][0]:
                wit[f["class"]] = (size, f)
        json.dump({k: v[1] for k, v in wit.items()}, open(sys.argv[3], "w"), indent=1, default=str)
