"""Correspondence family `syncprops`: doctrans.sync_properties.sync_properties (on temporary files), ast_parse,
it2literal, the wrap template (str.format) and inspect.cleandoc  vs  coq/model/SyncProps.v.

sync_properties is run for real on two files in a tempfile.mkdtemp() directory (removed afterwards).  The tree
handed to emit.file is recorded by a pass-through hook and compared, `_location`/`_idx`/`default` attributes
included, with the tree in the model's write event; the way the call ended (exception kind) is compared too.
External tables the model needs (ast.unparse of annotations, ast.parse of wrapped text, the evaluated values
of --input-eval) are computed here, independently of doctrans.
Frame: the input file's bytes and the two parameter lists must be unchanged by the call.
A case may carry a seventh argument `same_file`: input and output are then ONE file (two locations of one module);
the model is asked the same question as for two files with equal text (the code parses the file twice).
A case may carry two more keys (not arguments: the model is asked about the call itself, whatever way it is made):
  route    how the call is made: None / "api" = doctrans.sync_properties.sync_properties(...); "cli" = the command line
           doctrans.__main__.main(["sync_properties", ...]) with one --input-param / --output-param per pair (pair by
           pair), "cli-grouped" = the same with every --input-param before every --output-param; "cli-subprocess" =
           `python -m doctrans sync_properties ...` in a process of its own (oracle only)
  history  earlier calls [{"args": [...], "route": ..., "out": "same" | "other"}] made IN THE SAME PROCESS on the same
           input path (and, for "same", the same output path) before the files are given the text of the case and the
           case's own call is made: a build script that synchronises several files from one settings module, a file
           that is edited or restored between two runs.  Each call works on the files as they are when it starts."""
import ast
import contextlib
import copy
import inspect
import os
import shutil
import subprocess
import sys
import tempfile

from common import Sym, dumps, opt, outcome, impl, exc_kind, enc_pyval
import astwire
import gen_module as GM
from fam_locate import Enc, SPECIAL

NAME = "syncprops"

WRAPS = ["Optional[{output_param}]", "Optional[Union[{output_param}, str]]", "{output_param}", "List[{output_param}",
         "{}", "{x}", "x = {output_param}", "", "{{}}{output_param}", "{output_param", "}", "{0}",
         "Dict[str, {output_param}]", "{output_param!r}", "pass", "{ output_param }"]

EVAL_INPUTS = [
    "K = ('a', 'b')\nN = 5\nS = 'ab'\nL = ['x']\nE = []\nQ = (\"'q'\", 'r', '\"dq\"')\nD = {'a': 1}\nM = (1, 2.5, None, True)\nF = 1.5\n",
    "import os\nT = ('mnist', 'cifar10')\nB = True\nZ = None\nC = ''\nW = 'x'\nNN = ((1, 2), 3)\n",
    "raise ValueError('boom')\nK = (1, 2)\n",
    "K = [][0]\n",
    # members that compare (and hash) equal without being the same value, repeated members
    "FL = (True, 1, 2)\nMIX = (0, 1, False, True, 'off', 'on')\nNUM = [1, 1.0, 2]\nZ0 = (0, False)\nDUP = ('a', 'b', 'a')\n"
    "ONE = (1.0,)\nNEG = (-1, -1.0, 0.0, 0)\nSS = ('1', 1, 'True', True, None)\n",
]

SP_INPUTS = [
    "a: int = 1\nb = 2\nc: Optional[str]\nclass C:\n    a: str = 'x'\n    k: float = 0.5\n    def m(self, a: int, b: bool = True, *, k: int = 1): pass\ndef f(a: List[str], b=3, c: int = 4): pass\n",
    "def helper(a, b=2): pass\nclass C:\n    attr: int = 5\n    def method(self, a: float, b=3): pass\n",
    "class Config:\n    dataset_name: str = 'mnist'\n    lr: float = 0.1\ndef train(dataset_name: Literal['a', 'b'] = 'a', lr: float = 1.0, *, opt: str = 'x'): pass\n",
]
SP_OUTPUTS = [
    "\"\"\"Module doc.\"\"\"\ndef g(x: str, y: str = 's', z=1): pass\ndef h(z): pass\nclass D:\n    x: int = 0\n    y = 1\n    def m(self, x, y=2): pass\n",
    "def g(a=1, b=2): pass\nclass D:\n    def m(self, a, b=4): pass\n    def n(cls, a=1): pass\na: str = 'q'\nb = 0\n",
    "class Config:\n    dataset_name: str = 'cifar'\n    lr: float = 0.5\ndef train(dataset_name: str = 'b', lr: int = 1, *, opt: str = 'y', k=2): pass\n",
]
# modules that keep text in multi-line literals (a line of blanks, a line of tabs, odd indentation) next to the
# parameters; pools of their own: SP_INPUTS / SP_OUTPUTS are drawn from by other checks too
SP_TEXT_INPUTS = [
    "USAGE = \"\"\"Usage:\n    \n  run --fast\n\"\"\"\nsep: str = '''\n\t\n'''\nclass C:\n    a: int = 1\n    HELP: str = '''a:\n      \n\tthe a\n    '''\n"
    "def f(a: Optional[str], b: int = 3):\n    return a\n",
]
# how often the output module of a plain (not eval) call carries an odd docstring (see odd_docstring below)
P_ODD_DOCSTRING = 0.07
# how often a call is made through the command line, and how often it is preceded by other calls in the same process
P_CLI = 0.25
P_HISTORY = 0.14
SP_TEXT_OUTPUTS = [
    "BANNER = \"\"\"Usage:\n    \n  run --fast\n\"\"\"\ndef g(c: int, d: str = 'dd'):\n    \"\"\"g doc\"\"\"\n    print('''\n \t\n    indented\n\t''')\n    return c, BANNER\n"
    "class D:\n    x: int = 0\n    TABLE = '''a\tb\n\t\n1\t2'''\n    def m(self, x, y=2): pass\n",
]


# docstrings as people write them: blanks that end a line, a line of blanks only, a continuation line indented further
# than the block, closing quotes on a line of their own - text a formatter re-indents / strips (stratum odd-docstring:
# the docstring of a definition that is NOT addressed, in the output file)
DOC_WORDS = ["g doc", "Doc", "Set things up.", "Return c", "more", "indented", "the value", "Notes", "x: the x"]


def odd_docstring(rng, indent="    "):
    """(docstring value, shape): printable ASCII, no quote marks, no backslash"""
    shape = rng.choice(["trailing-blanks", "blank-only-line", "over-indented", "leading-blank"])
    a, b = rng.choice(DOC_WORDS), rng.choice(DOC_WORDS)
    close = rng.choice(["", "", "\n" + indent])
    if shape == "trailing-blanks":
        doc = a + " " * rng.randint(1, 3) + "\n" + indent + b + close
    elif shape == "blank-only-line":
        doc = a + "\n" + " " * rng.randint(1, 6) + "\n" + indent + b + close
    elif shape == "over-indented":
        doc = a + "\n" + indent + " " * rng.randint(1, 4) + b + close
    else:
        doc = " " * rng.randint(1, 2) + a + ("" if rng.random() < 0.5 else "\n" + indent + b + close)
    return doc, shape


def with_odd_docstring(rng, src):
    """src with the docstring of one of its functions / classes (or of the module) set to odd_docstring; the rest of the
    module keeps its tree (the text goes through ast.unparse).  -> (text, shape) or (src, None) when nothing fits"""
    try:
        tree = ast.parse(src)
    except SyntaxError:
        return src, None
    hosts = [(n, d) for n, d in _defs_with_depth(tree, 0)]
    if rng.random() < 0.15 or not hosts:
        hosts = [(tree, -1)]
    host, depth = rng.choice(hosts)
    doc, shape = odd_docstring(rng, "    " * (depth + 1))
    stmt = ast.Expr(value=ast.Constant(value=doc))
    if host.body and isinstance(host.body[0], ast.Expr) and isinstance(host.body[0].value, ast.Constant) \
            and isinstance(host.body[0].value.value, str):
        host.body[0] = stmt
    else:
        host.body.insert(0, stmt)
    try:
        text = ast.unparse(ast.fix_missing_locations(tree)) + "\n"
        back = ast.parse(text)
    except Exception:  # noqa
        return src, None
    if ast.dump(back) != ast.dump(tree):
        return src, None
    return text, shape


# annotations written as STRING constants (forward references: `root: "Tree" = None`, `def f(a: "Optional[int]")`): the
# property of such a parameter is that string constant, and it is what must be found at the addressed output position
# (stratum string-annotations: some annotations of the input module - less often of the output module - are quoted; the
# quoted text is the annotation itself or the name of something defined later / elsewhere)
FORWARD_REFS = ["Tree", "Optional[Tree]", "Config", "List[Node]", "np.ndarray"]
P_STRING_ANN_INPUT = 0.14
P_STRING_ANN_OUTPUT = 0.04


def with_string_annotations(rng, src, p_each=0.6):
    """src with some of its annotations (arguments, annotated assignments) replaced, in the text, by a string constant;
    everything else keeps its text.  -> (text, number of annotations quoted); (src, 0) when nothing fits"""
    try:
        tree = ast.parse(src)
    except SyntaxError:
        return src, 0
    lines = src.split("\n")
    if any(not ln.isascii() for ln in lines):      # col_offset counts bytes
        return src, 0
    anns = [a for a in annotations_of(tree) if a.lineno == a.end_lineno and not isinstance(a, ast.Constant)]
    anns = [a for a in anns if rng.random() < p_each] or (anns and [rng.choice(anns)])
    n = 0
    for a in sorted(anns, key=lambda a: (a.lineno, a.col_offset), reverse=True):
        ln = lines[a.lineno - 1]
        inner = ln[a.col_offset:a.end_col_offset] if rng.random() < 0.5 else rng.choice(FORWARD_REFS)
        if '"' in inner or "\\" in inner:
            continue
        lines[a.lineno - 1] = ln[:a.col_offset] + '"' + inner + '"' + ln[a.end_col_offset:]
        n += 1
    text = "\n".join(lines)
    try:
        ast.parse(text)
    except SyntaxError:
        return src, 0
    return (text, n) if n else (src, 0)


def _defs_with_depth(node, depth):
    for n in getattr(node, "body", []):
        if isinstance(n, (ast.FunctionDef, ast.ClassDef)):
            yield n, depth
            yield from _defs_with_depth(n, depth + 1)


# ------------------------------------------------------------------ externals supplied to the model
def classify(v):
    if isinstance(v, str):
        return [Sym("str"), v]
    if isinstance(v, (list, tuple)) and all(x is None or isinstance(x, (bool, int, float, str)) for x in v):
        try:
            return [Sym("seq"), [enc_pyval(x) for x in v]]
        except Exception:  # noqa
            return Sym("other")
    if v is None or isinstance(v, (bool, int, float)):
        return Sym("nolen")
    return Sym("other")


def evaluated(input_src, input_param):
    """(wire evald, python value or None): what local[input_param] is after executing the input module"""
    local = {}
    try:
        out = eval(compile(ast.parse(input_src), filename="<input>", mode="exec"), local)
        assert out is None
        v = local[input_param]
    except Exception as e:  # noqa
        return [Sym("err"), Sym(exc_kind(e))], None
    return classify(v), v


def _strip_quotes(value):
    if isinstance(value, str) and len(value) > 2 and value[0] + value[-1] in ('""', "''"):
        return value[1:-1]
    return value


def literal_of(v):
    """the annotation eval mode builds for a value, built here from scratch (for the unparse table)"""
    try:
        n = len(v)
        if n > 1:
            inner = ast.Tuple(elts=[ast.Constant(value=_strip_quotes(x)) for x in v], ctx=ast.Load())
        else:
            inner = ast.Constant(value=_strip_quotes(v[0]))
    except Exception:  # noqa
        return None
    return ast.Subscript(value=ast.Name(id="Literal", ctx=ast.Load()), slice=inner, ctx=ast.Load())


def annotations_of(tree):
    out = []
    for n in ast.walk(tree):
        if isinstance(n, ast.arg) and n.annotation is not None:
            out.append(n.annotation)
        elif isinstance(n, ast.AnnAssign):
            out.append(n.annotation)
    return out


def env_tables(exprs, wrap, rounds):
    U, P = {}, {}
    frontier = list(exprs)
    for _ in range(max(1, rounds)):
        new = []
        for e in frontier:
            try:
                we = astwire.enc_expr(e)
                code = ast.unparse(e)
            except Exception:  # noqa
                continue
            U.setdefault(dumps(we), [we, code])
            if wrap is None:
                continue
            try:
                text = wrap.format(output_param=code)
            except Exception:  # noqa
                continue
            if text in P:
                continue
            try:
                v = ast.parse(text).body[0].value
            except Exception as ex:  # noqa
                P[text] = [text, [Sym("err"), Sym(exc_kind(ex))]]
                continue
            if not isinstance(v, ast.expr):
                P[text] = [text, [Sym("err"), Sym("Unmodelled")]]
                continue
            P[text] = [text, [Sym("ok"), astwire.enc_expr(v)]]
            new.append(v)
        frontier = new
    return [list(U.values()), list(P.values())]


# ------------------------------------------------------------------ how a call is made (API / command line), histories
def cli_argv(ev, ipath, ips, opath, ops, wrap, grouped=False):
    """the command line of one sync_properties call (without the program name)"""
    def opt_(flag, value):
        # a value that starts with a dash would be read as an option: the `--flag=value` spelling says what is meant
        return [flag + "=" + value] if value.startswith("-") else [flag, value]

    argv = ["sync_properties", "--input-filename", ipath, "--output-filename", opath]
    if grouped:
        for ip in ips:
            argv += opt_("--input-param", ip)
        for op in ops:
            argv += opt_("--output-param", op)
    else:
        for k in range(max(len(ips), len(ops))):
            if k < len(ips):
                argv += opt_("--input-param", ips[k])
            if k < len(ops):
                argv += opt_("--output-param", ops[k])
    if ev:
        argv.append("--input-eval")
    if wrap is not None:
        argv += opt_("--output-param-wrap", wrap)
    return argv


def invoke(m, route, ev, ipath, ips, opath, ops, wrap):
    """make the call; returns None or the name of the way it failed (an exception kind; SystemExit = the usage error
    of the command line; exit-N = the exit status of the process)"""
    try:
        if route in (None, "api"):
            m.sync_properties.sync_properties(ev, ipath, ips, opath, ops, wrap)
        elif route in ("cli", "cli-grouped"):
            with open(os.devnull, "w") as null, contextlib.redirect_stderr(null), contextlib.redirect_stdout(null):
                m.main_mod.main(cli_argv(ev, ipath, list(ips), opath, list(ops), wrap, grouped=route == "cli-grouped"))
        elif route == "cli-subprocess":
            p = subprocess.run([sys.executable, "-m", "doctrans"] + cli_argv(ev, ipath, list(ips), opath, list(ops), wrap),
                               stdout=subprocess.DEVNULL, stderr=subprocess.DEVNULL, stdin=subprocess.DEVNULL,
                               cwd=os.path.dirname(opath), timeout=120)
            return None if p.returncode == 0 else "exit-%d" % p.returncode
        else:
            raise KeyError(route)
    except (Exception, SystemExit) as e:  # noqa
        return "SystemExit" if isinstance(e, SystemExit) else exc_kind(e)
    return None


def play_history(m, d, history, ipath, opath):
    """the earlier calls of a case, on the case's input path; their outcome is not looked at"""
    for k, h in enumerate(history or []):
        a = h["args"]
        h_same_file = len(a) > 6 and bool(a[6])
        h_opath = opath if h.get("out", "same") == "same" else os.path.join(d, "output_prev_%d.py" % k)
        h_ipath = h_opath if h_same_file else ipath
        with open(h_opath, "wb") as f:
            f.write(a[3].encode("utf-8"))
        if not h_same_file:
            with open(h_ipath, "wb") as f:
                f.write(a[1].encode("utf-8"))
        invoke(m, h.get("route"), a[0], h_ipath, list(a[2]), h_opath, list(a[4]), a[5])


def edit_input(rng, src, params):
    """the module as it reads before / after somebody edited one of the addressed definitions: another annotation, an
    annotation where there was none, another value; a line added when nothing addressed is found.  -> text (parses)"""
    try:
        tree = ast.parse(src)
    except SyntaxError:
        return src
    lines = src.split("\n")

    def splice(node, text):
        if node.lineno != node.end_lineno:
            return None
        ln = lines[node.lineno - 1]
        out = list(lines)
        out[node.lineno - 1] = ln[:node.col_offset] + text + ln[node.end_col_offset:]
        return "\n".join(out)

    cands = [n for n in (GM.resolve([s.strip() for s in p.split(".")], tree) for p in params) if n is not None]
    rng.shuffle(cands)
    for n in cands:
        new = None
        if isinstance(n, (ast.arg, ast.AnnAssign)) and n.annotation is not None:
            old = ast.unparse(n.annotation)
            new = splice(n.annotation, rng.choice([a for a in GM.ANNS if a != old]))
        elif isinstance(n, ast.arg):
            if n.lineno == n.end_lineno:
                ln = lines[n.lineno - 1]
                out = list(lines)
                out[n.lineno - 1] = ln[:n.end_col_offset] + ": " + rng.choice(GM.ANNS) + ln[n.end_col_offset:]
                new = "\n".join(out)
        elif isinstance(n, ast.Assign):
            old = ast.unparse(n.value)
            new = splice(n.value, rng.choice([v for v in GM.DEFAULTS if v != old]))
        if new is not None and new != src:
            try:
                ast.parse(new)
                return new
            except SyntaxError:
                pass
    return src + ("" if src.endswith("\n") or not src else "\n") + "edited_%d: int = %d\n" % (rng.randint(0, 9), rng.randint(0, 9))


# ------------------------------------------------------------------ generation
def _leaf_locs(tree, containers=False, kind=None):
    """dotted locations; kind: None = all leaves, 'arg' = function arguments, 'stmt' = assignments"""
    out = []
    for p, n in GM.all_locations(tree):
        if isinstance(n, (ast.FunctionDef, ast.ClassDef, ast.AsyncFunctionDef)):
            if containers:
                out.append(".".join(p))
        elif kind is None or (kind == "arg") == isinstance(n, ast.arg):
            out.append(".".join(p))
    return out


def gen(rng, n, tier="quick"):
    cases = []

    def add(fn, args, *tags):
        cases.append({"fam": NAME, "fn": fn, "args": args, "tags": list(tags)})

    def history_for(args):
        """1..2 earlier calls in the same process on the same input path: the same call (into the same output path, whose
        text is put back afterwards, or into another file); the same parameters into another output module; the call as
        it was before the input file was edited; another input module altogether at that path"""
        ev, isrc, ips, osrc, ops, wrap = args[:6]
        same_file = len(args) > 6 and bool(args[6])
        hist = []
        for _ in range(rng.choice([1, 1, 2])):
            kind = rng.choice(["same-call", "same-call", "other-output", "input-edited", "input-edited", "other-input"])
            h_isrc, h_ips, h_osrc, h_ops = isrc, list(ips), osrc, list(ops)
            if kind == "other-output" and not same_file:
                h_osrc = module(SP_OUTPUTS)
                olocs = _leaf_locs(ast.parse(h_osrc)) or ["g.x"]
                h_ops = [rng.choice(olocs) for _ in ips]
            elif kind == "input-edited":
                h_isrc = edit_input(rng, isrc, ips)
                if same_file:
                    h_osrc = h_isrc
            elif kind == "other-input" and not same_file and not ev:
                h_isrc = module(SP_INPUTS)
                ilocs = _leaf_locs(ast.parse(h_isrc)) or ["a"]
                h_ips = [rng.choice(ilocs) for _ in ips]
            h_wrap = wrap if rng.random() < 0.7 else (rng.choice(WRAPS[:3]) if rng.random() < 0.6 else None)
            h = {"args": [ev, h_isrc, h_ips, h_osrc, h_ops, h_wrap] + ([True] if same_file else []),
                 "route": rng.choice([None, None, None, "cli"]) if len(h_ips) == len(h_ops) else None,
                 "out": "same" if same_file else rng.choice(["same", "other", "other"]), "kind": kind}
            hist.append(h)
        return hist

    def add_call(args, *tags):
        """a sync_properties call; some are made through the command line, some come after other calls in the process"""
        case = {"fam": NAME, "fn": "sync_properties", "args": args, "tags": list(tags)}
        if rng.random() < P_CLI and len(args[2]) == len(args[4]):
            # (a different number of --input-param and --output-param is a usage error of the command line, SystemExit,
            # where the function asserts: that difference between the two routes is not the model's subject)
            case["route"] = rng.choice(["cli", "cli", "cli-grouped"])
            case["tags"].append("route-" + case["route"])
        if rng.random() < P_HISTORY:
            case["history"] = history_for(args)
            case["tags"].append("history-" + "+".join(h["kind"] for h in case["history"]))
        cases.append(case)

    def module(pool):
        if rng.random() < 0.35:
            if rng.random() < 0.15:
                return rng.choice((SP_TEXT_INPUTS if pool is SP_INPUTS else SP_TEXT_OUTPUTS if pool is SP_OUTPUTS
                                   else SP_TEXT_INPUTS + SP_TEXT_OUTPUTS))
            return rng.choice(pool)
        if rng.random() < 0.04:
            return rng.choice(SPECIAL)
        # two modules in five also carry multi-line text constants (lines of blanks only, odd indentation) at module
        # level, in class bodies and in function bodies: values that must survive the rewrite of the file untouched
        return GM.gen_module(rng, depth=rng.choice([1, 2, 2, 3]), max_items=rng.choice([3, 6]),
                             text_blocks=rng.choice([0.0, 0.0, 0.0, 0.2, 0.35]))

    def choose_pairs(itree, otree, k):
        ilocs = _leaf_locs(itree, containers=rng.random() < 0.1) or ["a"]
        olocs = _leaf_locs(otree, containers=rng.random() < 0.05) or ["g.x"]
        ips, ops = [], []
        iargs, istmts = _leaf_locs(itree, kind="arg"), _leaf_locs(itree, kind="stmt")
        oargs, ostmts = _leaf_locs(otree, kind="arg"), _leaf_locs(otree, kind="stmt")
        for _ in range(k):
            if rng.random() < 0.85 and (oargs or ostmts) and (istmts or (iargs and oargs)):
                # kind-compatible pair: an argument can take an argument or an assignment, an assignment only an assignment
                if oargs and (not ostmts or not istmts or rng.random() < 0.6):
                    op, ip = rng.choice(oargs), rng.choice(iargs + istmts)
                else:
                    op, ip = rng.choice(ostmts), rng.choice(istmts)
            else:
                ip = rng.choice(ilocs) if rng.random() < 0.8 else rng.choice(["nope", "C.nope", "f.a.b", ""])
                op = rng.choice(olocs) if rng.random() < 0.8 else rng.choice(["nope", "g.nope", "D", ""])
            if ips and rng.random() < 0.2:
                ip = rng.choice(ips)                      # the same input parameter again (aliasing)
            ips.append(ip)
            ops.append(op)
        return ips, ops

    def pair_shape(ips, ops, itree, otree):
        """several pairs that meet (edits ips / ops in place, returns the tag): the same output address twice; an input
        address that is also a LATER pair's output address (the node the earlier pair moved into the output tree carries
        that location); two pairs swapped (a -> b together with b -> a)"""
        if len(ips) < 2 or len(ips) != len(ops):
            return None
        oset = set(_leaf_locs(otree))
        common = [q for q in _leaf_locs(itree) if q in oset]
        shape = rng.choice(["same-output-twice", "moved-node-hit-first", "swap"])
        if not common:
            shape = "same-output-twice"
        if shape == "same-output-twice":
            ops[-1] = ops[0]
        elif shape == "moved-node-hit-first":
            c = rng.choice(common)
            ips[0], ops[-1] = c, c
            if rng.random() < 0.5:
                ips[-1] = c
        else:
            c1 = rng.choice(common)
            others = [q for q in common if q != c1]
            c2 = rng.choice([q for q in others if q.rsplit(".", 1)[0] == c1.rsplit(".", 1)[0]] or others or [c1])
            ips[0], ips[-1] = c2, c1
            ops[0], ops[-1] = c1, c2
        return shape

    while len(cases) < n:
        r = rng.random()
        if r < 0.05:
            add("format_wrap", [rng.choice(WRAPS), rng.choice(["int", "Optional[str]", "", "{x}", "a}b"])], "format")
        elif r < 0.08:
            add("it2literal", [rng.choice(["('a', 'b')", "['x']", "[]", "'ab'", "''", "'x'", "5", "None", "(1, 2.5, None)",
                                           "(\"'q'\", 'r')", "{'a': 1}", "((1, 2), 3)", "True", "('\"dq\"', \"''\", \"'''\")"])],
                "literal")
        elif r < 0.11:
            add("cleandoc", [rng.choice(["Doc.", "  Doc.  ", "\n    Doc.\n    More\n      indented\n    ", "a\n\n  b\n   c\n\n",
                                          "", "   ", "\n\n", "x\n  \n    y", "Config.\n    :cvar a: A", "tab\there"])], "cleandoc")
        elif r < 0.18:
            add("ast_parse", [module(SP_OUTPUTS)], "ast_parse")
        elif r < 0.30:
            # eval mode
            isrc = rng.choice(EVAL_INPUTS)
            osrc = module(SP_OUTPUTS)
            olocs = _leaf_locs(ast.parse(osrc)) or ["g.x"]
            k = rng.choice([1, 1, 2])
            ips = [rng.choice(["K", "N", "S", "L", "E", "Q", "D", "M", "T", "B", "Z", "C", "W", "NN", "F", "nope", "K.x"])
                   for _ in range(k)]
            if rng.random() < 0.5:
                # names the chosen input really binds (sequences mostly), and statement positions to put them at
                own = [t.id for n in ast.parse(isrc).body if isinstance(n, ast.Assign) for t in n.targets
                       if isinstance(t, ast.Name)]
                if own:
                    ips = [rng.choice(own) for _ in range(k)]
            ops = [rng.choice(olocs) for _ in range(k)]
            ostmts = _leaf_locs(ast.parse(osrc), kind="stmt")
            if ostmts and rng.random() < 0.5:
                ops = [rng.choice(ostmts) for _ in range(k)]
            wrap = rng.choice(WRAPS[:3]) if rng.random() < 0.4 else None
            if rng.random() < 0.2:
                # eval mode within ONE file: the evaluated names and the addressed locations live in the same module
                k = rng.choice([1, 2, 2, 3])
                src = rng.choice(EVAL_INPUTS[:2] + EVAL_INPUTS[4:]) + osrc
                own = [t.id for n in ast.parse(src).body if isinstance(n, ast.Assign) for t in n.targets
                       if isinstance(t, ast.Name)]
                pool = (_leaf_locs(ast.parse(src), kind="stmt") if rng.random() < 0.7 else None) or _leaf_locs(ast.parse(src))
                ips, ops = [rng.choice(own) for _ in range(k)], [rng.choice(pool) for _ in range(k)]
                add_call([True, src, ips, src, ops, wrap, True], "eval", "pairs-%d" % k,
                    "wrap" if wrap else "nowrap", "same-file")
                continue
            add_call([True, isrc, ips, osrc, ops, wrap], "eval", "pairs-%d" % k,
                "wrap" if wrap else "nowrap")
        elif r < 0.36:
            # one file, two locations of it (input file == output file)
            src = module(SP_INPUTS + SP_OUTPUTS)
            odd = None
            if rng.random() < P_ODD_DOCSTRING:
                src, odd = with_odd_docstring(rng, src)
            nq = 0
            if rng.random() < P_STRING_ANN_INPUT / 2:
                src, nq = with_string_annotations(rng, src)
            tree = ast.parse(src)
            k = rng.choice([1, 1, 1, 2])
            ips, ops = choose_pairs(tree, tree, k)
            shape = pair_shape(ips, ops, tree, tree) if k >= 2 and rng.random() < 0.3 else None
            wrap = rng.choice(WRAPS[:3]) if rng.random() < 0.6 else None
            add_call([False, src, ips, src, ops, wrap, True], "noeval", "pairs-%d" % k,
                "wrap" if wrap else "nowrap", "same-file", *([shape] if shape else []),
                *(["odd-docstring:" + odd] if odd else []), *(["string-annotations"] if nq else []))
        else:
            isrc, osrc = module(SP_INPUTS), module(SP_OUTPUTS)
            odd = None
            if rng.random() < P_ODD_DOCSTRING:
                osrc, odd = with_odd_docstring(rng, osrc)
            nq = 0
            if rng.random() < P_STRING_ANN_INPUT:
                isrc, nq = with_string_annotations(rng, isrc)
            if rng.random() < P_STRING_ANN_OUTPUT:
                osrc, nq2 = with_string_annotations(rng, osrc, p_each=0.3)
                nq += nq2
            itree, otree = ast.parse(isrc), ast.parse(osrc)
            k = rng.choice([1, 1, 1, 2]) if odd else rng.choice([1, 1, 2, 2, 3])
            ips, ops = choose_pairs(itree, otree, k)
            shape = None
            if k >= 2 and rng.random() < 0.15:
                if rng.random() < 0.5:
                    # two files with the same definitions (every location exists on both sides)
                    osrc, otree = isrc, ast.parse(isrc)
                    ips, ops = choose_pairs(itree, otree, k)
                shape = pair_shape(ips, ops, itree, otree)
            if rng.random() < 0.03:
                ops = ops[:-1]
            wrap = None
            if rng.random() < 0.45:
                wrap = rng.choice(WRAPS[:3]) if rng.random() < 0.8 else rng.choice(WRAPS)
            add_call([False, isrc, ips, osrc, ops, wrap], "noeval", "pairs-%d" % k,
                "wrap" if wrap else "nowrap", *([shape] if shape else []), *(["odd-docstring:" + odd] if odd else []),
                *(["string-annotations"] if nq else []))
    return cases[:n]


# ------------------------------------------------------------------ wire
def wire_args(a):
    """the eight wire arguments of a sync_properties call: env tables, eval flag, modules, parameters, template, values"""
    ev, isrc, ips, osrc, ops, wrap = a[:6]
    itree = ast.parse(isrc)
    evs, lits = [], []
    for ip in ips:
        if ev:
            w, v = evaluated(isrc, ip)
            evs.append(w)
            lit = literal_of(v)
            if lit is not None:
                lits.append(lit)
        else:
            evs.append(Sym("other"))
    env = env_tables(annotations_of(itree) + lits, wrap, len(ips) + 1)
    return [env, bool(ev), astwire.enc_module(itree), list(ips), astwire.enc_module(ast.parse(osrc)),
            list(ops), opt(wrap), evs]


def request(case):
    fn, a = case["fn"], case["args"]
    if fn == "format_wrap":
        return dumps([Sym(fn), a[0], a[1]])
    if fn == "it2literal":
        return dumps([Sym(fn), classify(ast.literal_eval(a[0]))])
    if fn == "cleandoc":
        return dumps([Sym(fn), a[0]])
    if fn == "ast_parse":
        return dumps([Sym(fn), astwire.enc_module(ast.parse(a[0]))])
    if fn == "sync_properties":
        return dumps([Sym(fn)] + wire_args(a))
    raise KeyError(fn)


def run_sync_properties(ev, isrc, ips, osrc, ops, wrap, same_file=False, route=None, history=None):
    """the real call on temporary files; returns (wire result, input bytes unchanged?, output text after).
    same_file: input and output are one file holding `osrc` (the input bytes are then of course not expected to stay)
    route, history: see the module docstring (the earlier calls are made first, then the files get the case's text)"""
    m = impl()
    d = tempfile.mkdtemp(prefix="verif_syncprops_")
    captured = []
    real_file = m.emit.file

    def hook(node, filename, mode="a", skip_black=False):
        captured.append(dumps(Enc({}, ids=False).amodule(node)) if isinstance(node, ast.Module) else "(not-a-module)")
        return real_file(node, filename, mode=mode, skip_black=skip_black)

    try:
        ipath, opath = os.path.join(d, "input_file.py"), os.path.join(d, "output_file.py")
        if same_file:
            assert isrc == osrc
            ipath = opath
        play_history(m, d, history, ipath, opath)
        with open(ipath, "wb") as f:
            f.write(isrc.encode("utf-8"))
        with open(opath, "wb") as f:
            f.write(osrc.encode("utf-8"))
        ips0, ops0 = list(ips), list(ops)
        m.emit.file = hook
        try:
            failed = invoke(m, route, ev, ipath, ips, opath, ops, wrap)
            status = [Sym("ok"), Sym("unit")] if failed is None else [Sym("err"), Sym(failed)]
        finally:
            m.emit.file = real_file
        with open(ipath, "rb") as f:
            same_in = same_file or f.read() == isrc.encode("utf-8")
        with open(opath, "rb") as f:
            out_after = f.read().decode("utf-8")
        frame = same_in and ips == ips0 and ops == ops0
        written = status[0] == "ok" and captured
        wire = "(" + ("(" + " ".join("(write %s)" % c for c in captured) + ")" if written else "()") + " " + dumps(status) + ")"
        return wire, frame, out_after
    finally:
        shutil.rmtree(d, ignore_errors=True)


def run_impl(case):
    m = impl()
    fn, a = case["fn"], copy.deepcopy(case["args"])
    if fn == "format_wrap":
        return dumps(outcome(lambda: a[0].format(output_param=a[1]), lambda s: s))
    if fn == "it2literal":
        v = ast.literal_eval(a[0])
        return dumps(outcome(lambda: m.ast_utils.it2literal(v), astwire.enc_expr))
    if fn == "cleandoc":
        return dumps(outcome(lambda: inspect.cleandoc(a[0]), lambda s: s))
    if fn == "ast_parse":
        from fam_locate import paths
        holder = {}

        def go():
            t = ast.parse(a[0])
            holder["pos"] = paths(t, [])
            return m.source_transformer.ast_parse(a[0])

        def enc(t):
            # identities: positions are structural, recompute them on the returned tree
            pos, _, _keep = paths(t, [])
            return Enc(pos).amodule(t)
        return dumps(outcome(go, enc))
    if fn == "sync_properties":
        wire, frame, _ = run_sync_properties(*a, route=case.get("route"), history=copy.deepcopy(case.get("history")))
        if not frame:
            return dumps([Sym("frame-violation"), Sym("input-file-or-parameter-lists-changed")])
        return wire
    raise KeyError(fn)


def nontrivial(case):
    return case["fn"] == "sync_properties" or case["fn"] == "ast_parse"
