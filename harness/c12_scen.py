"""C12 scenario strata: the definitions a batch driver meets in ONE process, for the history part of the property
("regardless of how many conversions ran earlier in the same process, and of the order in which they ran") and for
the hash-seed part on doc lines with several candidate matches.

Every point is {"kind", "src", "tags"}; kinds: function | class | docstring (a bare interface description handed to
parse.docstring) | argparse (an argparse-building function handed to parse.argparse_ast).  Strata (tags):

  style:rest|google|numpydoc   the three docstring dialects, on every kind that carries a docstring
  announce:0|1|many            how many default announcements one parameter line carries; `many` mixes different
                               phrases ("Default: 0.9. When centered it defaults to 0.5."), the same phrase twice,
                               upper/lower case and an announcement broken over two lines
  defaults:none|some|tail|all  which parameters announce a default (some/tail exercise the cross-parameter
                               "a default is required from here on" logic of the google/numpydoc and argparse parsers)
  fails                        a parameter whose announced default cannot be read under its declared type (a bare
                               word / call / constant name under int, float, bool or str): the conversion raises
                               part-way, after the parameters before it were processed; the caller catches and goes on
  doc:empty|blank|stub         present-but-empty docstring (six quotes), whitespace-only, or section headers /
                               field names with nothing behind them
  doc:absent                   no docstring at all
  dup                          the same source appears again later in the sequence (A, B, A)
  foreign:<style>              a docstring of one dialect whose PROSE (summary, a parameter's description, the return
                               description) uses words that are section markers / field names of another dialect
                               ("... Returns: a new list. Args: see below.", "see :return: of the base class",
                               a "Returns\n-------" block after ReST fields): which dialect the text is read as must not
                               depend on the process (hash seed) it is read in
  xtype:<n>                    a family of n definitions, next to each other in the sequence, that each have a parameter
                               whose default is EQUAL to the others' but of another type (1 / 1.0 / True / '1';
                               0 / 0.0 / False / '0' / -0.0; 5 / 5.0 / '5'; ...), announced in the docstring (with or
                               without a declared type), given in the signature / as a class attribute / as an argparse
                               default: anything memoised on `==`/hash of a default leaks one definition's default
                               (and its inferred type) into the next

  live:function|class|class-init
                               kind `live` / `live-init`: the source of a whole MODULE (typing imports, sometimes a
                               helper definition, then the target = the last top-level def / class).  The conversion
                               script writes it to a file, imports it and hands the LIVE object to parse.function /
                               parse.class_ (`live-init`: parse.class_(cls, merge_inner_function='__init__'), what gen
                               does): the inspect.signature path, where annotations arrive as str(annotation)
                               (`typing.Optional[str]`, `typing.List[int]`, `<class 'int'>`) and defaults as objects.
                               Strata: ann:typing (>= 1 parameter annotated with a typing generic) / ann:typing-many
                               (>= 2), ann:qualified (`typing.X[...]` spelled in the source), ann:string, ann:builtin,
                               ann:none; several live points per process (gen forces a share), next to each other and
                               far apart, so that anything consumed / cached by the first signature read shows

  choices:<n>|choices:repeated|choices-shape:tuple|list|set|action:append|argument:repeated
                               argparse functions whose arguments restrict their values: `choices=` written as a tuple,
                               a list or a set display, with 1..n members, and (choices:repeated; gen forces a share)
                               with a member listed MORE THAN ONCE (at least three distinct ones): the Literal[...] /
                               Union[...] the parser builds from them must name them in source order in every process;
                               `action='append'`; the same `--name` added twice in one function

The sequences are drawn so that every kind occurs several times per process and empty / failing / multi-announcement
points sit between ordinary ones."""

import re

NAMES = ["dataset_name", "batch_size", "epochs", "lr", "momentum", "eps", "shuffle", "optimizer", "K", "as_numpy",
         "tfds_dir", "alpha", "verbose", "seed", "path", "centered", "n_jobs", "tol"]
VALUES = {
    "int": ["5", "0", "-1", "32", "10", "1"],
    "float": ["0.9", "0.5", "1e-07", "0.001", "2.5", "-0.25", "1.0", "0.0"],
    "str": ["'adam'", '"mnist"', "'~/data'", "''"],
    "bool": ["True", "False"],
}
# announced values that are not literals of the declared type: reading them raises
UNREADABLE = ["BATCH_SIZE", "DEFAULT_LR", "np.inf", "os.cpu_count()", "max(1, n)", "the global setting", "2 * n", "adam",
              "n // 2", "sys.maxsize"]
NOUNS = ["name of dataset", "size of batch", "how many epochs", "learning rate", "momentum factor", "fuzz factor",
         "whether to shuffle", "which optimizer", "number of classes", "convert to numpy", "directory of the data",
         "smoothing constant", "how chatty", "random seed", "where to write", "whether centered", "worker count",
         "tolerance"]
# (sentence-initial form, mid-sentence form) of the announcement phrases the implementation looks for
PHRASES = [("Defaults to ", "defaults to "), ("Default value is ", "the default value is "), ("Default: ", "default: "),
           ("Default:", "Default:"), ("DEFAULTS TO ", "it defaults to "), ("Default Value Is ", "default value is ")]
LINKS = [" When centered it ", " Otherwise ", " On GPU ", " In legacy mode ", " With Nesterov ", " For small inputs "]
SUMMARIES = ["Train a model", "Build a loader", "RMSprop-like optimiser", "Acquire the dataset.", "Does things.\n\nMore text here.",
             "Config of the run", "Set up"]
CLASS_NAMES = ["TrainConfig", "DataConfig", "C", "Optimizer", "Loader", "ModelOptions"]
FUNC_NAMES = ["train", "f", "build_loader", "optimizer", "run", "fit"]


# defaults that compare equal (and hash alike) across types
XTYPE = [
    [("int", "1"), ("float", "1.0"), ("bool", "True"), ("str", "'1'"), ("str", "'True'"), ("str", "'1.0'")],
    [("int", "0"), ("float", "0.0"), ("bool", "False"), ("str", "'0'"), ("str", "'False'"), ("float", "-0.0"), ("str", "'0.0'")],
    [("int", "5"), ("float", "5.0"), ("str", "'5'"), ("str", "'5.0'")],
    [("int", "-1"), ("float", "-1.0"), ("str", "'-1'")],
    [("int", "10"), ("float", "10.0"), ("float", "1e1"), ("str", "'10'")],
]
# prose that uses another dialect's section markers / field names, by the dialect the words belong to
FOREIGN = {
    "google": ["Returns: a new list, the input is left alone.", "Args: see below.", "Raises: nothing at all.",
               "Kwargs: are passed on.", "Returns: nothing. Raises: nothing.", "Args:", "Returns:"],
    "rest": ["Same as :param value: of the base class.", "See :return: there.", "Like :rtype: in Sphinx.",
             "The :type of it: is free.", "Not a :cvar thing: at all.", "Uses :ivar state: internally."],
    "numpydoc": ["Parameters\n----------", "Returns\n-------", "Returns\n-------\nnothing"],
}


def _family(phrase):
    return phrase[1].replace("the ", "").replace("it ", "").strip().lower().rstrip(":")


def gen_sentence(rng, typ, how):
    """the default part of one parameter line; how in 0 | 1 | many | fails"""
    vals = VALUES[typ]
    if how == "0":
        return ""
    if how == "fails":
        return " " + rng.choice(PHRASES[:3])[0] + rng.choice(UNREADABLE)
    if how == "1":
        return " " + rng.choice(PHRASES)[0] + rng.choice(vals) + rng.choice(["", "", "."])
    first = rng.choice(PHRASES)
    k = rng.choice([2, 2, 2, 3])
    out = " " + first[0] + rng.choice(vals) + "."
    used = {_family(first)}
    for _ in range(k - 1):
        if rng.random() < 0.8:
            cands = [p for p in PHRASES if _family(p) not in used] or PHRASES
        else:
            cands = PHRASES                       # the same phrase twice is a near miss worth having
        p = rng.choice(cands)
        used.add(_family(p))
        mid = p[1]
        if rng.random() < 0.12 and mid.endswith("to "):
            mid = mid[:-1] + "\n"                 # announcement broken over two lines
        out += rng.choice(LINKS) + mid + rng.choice(vals) + "."
    return out


def gen_params(rng, allow_fail=True, force=None):
    """-> (list of param dicts, tags).  force: None | 'many' | 'fails'"""
    n = rng.choice([1, 2, 2, 3, 3, 4])
    idx = rng.sample(range(len(NAMES)), n)
    mode = rng.choice(["none", "some", "some", "tail", "tail", "all"])
    ps = []
    cut = rng.randint(1, n - 1) if n > 1 else 0          # tail: the parameters from `cut` on announce a default
    for j, i in enumerate(idx):
        typ = rng.choice(["int", "float", "str", "bool"])
        if mode == "none":
            how = "0"
        elif mode == "all":
            how = "1"
        elif mode == "tail":
            how = "1" if j >= cut else "0"
        else:
            how = rng.choice(["0", "1"])
        ps.append({"name": NAMES[i], "typ": typ, "prose": NOUNS[i] + rng.choice([".", ".", ""]), "how": how})
    tags = ["defaults:" + mode]
    if force == "many" or (force is None and rng.random() < 0.2):
        for p in rng.sample(ps, rng.choice([1, 1, 2]) if len(ps) > 1 else 1):
            p["how"] = "many"
    if allow_fail and (force == "fails" or (force is None and rng.random() < 0.12)):
        # the unreadable default sits at a random position: what was processed before it has already happened
        k = rng.randrange(len(ps))
        ps[k]["how"] = "fails"
        if k > 0 and rng.random() < 0.7:
            ps[rng.randrange(k)]["how"] = "1"
        tags.append("fails")
    for p in ps:
        if p["how"] == "fails" and p["typ"] == "str" and rng.random() < 0.5:
            p["typ"] = rng.choice(["int", "float", "bool"])
        p["sentence"] = gen_sentence(rng, p["typ"], p["how"])
    hows = set(p["how"] for p in ps)
    tags.append("announce:" + ("many" if "many" in hows else "1" if "1" in hows else "0"))
    return ps, tags


def render_doc(rng, style, summary, ps, returns=None, field="param"):
    """docstring text (no indentation, no quotes)"""
    out = [summary, ""] if summary else []
    if style == "rest":
        for p in ps:
            out.append((":%s %s: %s%s" % (field, p["name"], p["prose"], p["sentence"])).replace("\n", "\n    "))
            if p["typ"] and p.get("show_typ", True):
                out.append(":type %s: ```%s```" % (p["name"], p["typ"]))
            out.append("")
        if returns:
            out += [":returns: %s" % returns[1], ":rtype: ```%s```" % returns[0], ""]
    elif style == "google":
        if ps:
            out.append("Args:")
            for p in ps:
                out.append(("  %s (%s): %s%s" % (p["name"], p["typ"], p["prose"], p["sentence"])).replace("\n", "\n    "))
            out.append("")
        if returns:
            out += ["Returns:", "  %s: %s" % returns if rng.random() < 0.5 else "  %s" % returns[1], ""]
    else:
        if ps:
            out += ["Parameters", "----------"]
            for p in ps:
                out.append("%s : %s" % (p["name"], p["typ"]))
                out.append(("    %s%s" % (p["prose"], p["sentence"])).replace("\n", "\n    "))
            out.append("")
        if returns:
            out += ["Returns", "-------", returns[0], "    " + returns[1], ""]
    return "\n".join(out).rstrip("\n") + "\n"


def _quote(doc, ind):
    """a docstring statement at indentation `ind` from text"""
    body = "\n".join((ind + l) if l else "" for l in doc.split("\n"))
    return ind + '"""\n' + body.rstrip(" ") + ("" if body.endswith("\n") else "\n") + ind + '"""'


DEGENERATE = [
    ("doc:empty", '""""""'), ("doc:empty", '""""""'), ("doc:empty", "''''''"), ("doc:blank", '""" """'),
    ("doc:blank", '"""\n{ind}"""'), ("doc:blank", '"""\n\n{ind}"""'), ("doc:blank", '"""   \n{ind}   \n{ind}"""'),
    ("doc:stub", '"""Args:"""'), ("doc:stub", '"""\n{ind}Returns:\n{ind}"""'), ("doc:stub", '"""\n{ind}:param {a}:\n{ind}"""'),
    ("doc:stub", '"""\n{ind}Parameters\n{ind}----------\n{ind}"""'), ("doc:stub", '"""."""'),
    ("doc:stub", '"""\n{ind}:type {a}: ```int```\n{ind}"""'), ("doc:stub", '"""\n{ind}:returns:\n{ind}"""'),
    ("doc:absent", None),
]


# the same for a bare interface description (there is no `absent`: parse.docstring wants a str)
DEGENERATE_TEXT = [("doc:empty", ""), ("doc:empty", ""), ("doc:blank", " "), ("doc:blank", "\n"), ("doc:blank", "\n\n  \n"),
                   ("doc:stub", "Args:"), ("doc:stub", "Returns:\n"), ("doc:stub", ":param {a}:"), ("doc:stub", "."),
                   ("doc:stub", "Parameters\n----------\n"), ("doc:stub", ":returns:"), ("doc:stub", ":type {a}: ```int```")]


def _degenerate(rng, pool):
    """empty, blank, stub and absent docstrings in comparable shares"""
    tag = rng.choice(["doc:empty", "doc:empty", "doc:blank", "doc:blank", "doc:stub", "doc:stub", "doc:absent"])
    return rng.choice([x for x in pool if x[0] == tag] or [x for x in pool if x[0] == "doc:empty"])


def _sig(rng, ps, first=None):
    parts = [first] if first else []
    seen_default = False
    for p in ps:
        s = p["name"]
        if rng.random() < 0.4:
            s += ": " + p["typ"]
        if seen_default or rng.random() < 0.35:
            seen_default = True
            s += (" = " if ":" in s else "=") + (p["value"] if p.get("value") and rng.random() < 0.8 else rng.choice(VALUES[p["typ"]] + ["None"]))
        parts.append(s)
    return ", ".join(parts)


def gen_function(rng, ps, tags, style, docstmt=None):
    name = rng.choice(FUNC_NAMES)
    head = "def %s(%s)%s:" % (name, _sig(rng, ps), rng.choice(["", "", " -> int", " -> str"]))
    lines = [head]
    if docstmt is None:
        ret = rng.choice([None, None, ("int", "the result."), ("str", "Trained model")])
        docstmt = _quote(render_doc(rng, style, rng.choice(SUMMARIES), ps, ret), "    ")
    if docstmt:
        lines.append(docstmt)
    tail = rng.choice(["pass", "return None", "return 5", "return %s" % (ps[0]["name"] if ps else "1"), "return 'x'"])
    if tail != "pass" or not docstmt or rng.random() < 0.6:
        lines.append("    " + tail)
    return "\n".join(lines) + "\n"


def gen_class(rng, ps, tags, style, docstmt=None, inner=None):
    lines = ["class %s(%s):" % (rng.choice(CLASS_NAMES), rng.choice(["object", "object", ""]))]
    if lines[0].endswith("():"):
        lines[0] = lines[0][:-3] + ":"
    if docstmt is None:
        doc_ps = [p for p in ps if rng.random() < 0.85]
        docstmt = _quote(render_doc(rng, style, rng.choice(SUMMARIES), doc_ps, None, field="cvar" if style == "rest" else "param"), "    ")
    if docstmt:
        lines += [docstmt, ""]
    attrs = [p for p in ps if rng.random() < 0.8]
    for p in attrs:
        lines.append("    %s: %s = %s" % (p["name"], p["typ"], p["value"] if p.get("value") and rng.random() < 0.8 else rng.choice(VALUES[p["typ"]])))
    if inner is not None:
        lines += ["", inner]
    if len(lines) == 1 or (not attrs and inner is None and not docstmt):
        lines.append("    pass")
    return "\n".join(lines) + "\n"


def _init(rng, ps, docstmt, receiver="self", name="__init__", decorators=()):
    """an __init__ (to be merged) at class-body indentation.  receiver: what the method calls its instance argument
    (`self` by convention; any name is legal Python), or None for a method without one (a @staticmethod, say)"""
    lines = ["    " + d for d in decorators] + ["    def %s(%s):" % (name, _sig(rng, ps, first=receiver))]
    if docstmt:
        lines.append(docstmt)
    for p in ps[:2]:
        lines.append("        %s%s = %s" % (receiver + "." if receiver else "_", p["name"], p["name"]))
    if len(lines) == 1 + len(decorators) + bool(docstmt) and not ps[:2]:
        lines.append("        pass")
    return "\n".join(lines)


CHOICE_POOLS = [
    ["train", "validation", "test", "holdout", "dev"], ["np", "tf", "torch", "jax"], ["adam", "sgd", "rmsprop", "adagrad", "lamb"],
    ["mnist", "cifar10", "cifar100", "imagenet"], ["relu", "tanh", "sigmoid", "gelu", "swish", "elu"], ["a", "b", "c"],
    ["low", "medium", "high"], ["0", "1", "2", "3"], ["yes", "no", "auto"], ["float16", "float32", "float64", "bfloat16"],
]
NUM_CHOICE_POOLS = {"int": ["1", "2", "4", "8", "16", "32"], "float": ["0.1", "0.5", "0.9", "1.0", "2.5"]}


def gen_choices(rng, typ, force_repeat=False):
    """(source of a `choices=` collection, stratum tags).  The members are written as a tuple, a list or a set display
    (argparse takes any container); with `repeat`, one or two members are listed more than once (argparse is happy with
    that; a set display holds each once anyway): whatever de-duplicates them must keep the order of first appearance.
    At least three distinct members whenever something is repeated, so that an order exists to be lost."""
    if typ in NUM_CHOICE_POOLS and rng.random() < 0.5:
        pool, q = NUM_CHOICE_POOLS[typ], (lambda s: s)
    else:
        pool, q = rng.choice(CHOICE_POOLS), repr
    repeat = force_repeat or rng.random() < 0.35
    k = rng.randint(3 if repeat else 1, len(pool))
    members = rng.sample(pool, k)
    tags = ["choices:%d" % min(k, 4)]
    if repeat:
        for _ in range(rng.choice([1, 1, 2])):
            members.insert(rng.randint(0, len(members)), rng.choice(members))
        tags.append("choices:repeated")
    shape = rng.choice(["tuple", "tuple", "list", "set"])
    tags.append("choices-shape:" + shape)
    body = ", ".join(q(m) for m in members)
    if shape == "tuple":
        return "(%s%s)" % (body, "," if len(members) == 1 else ""), tags
    return ("[%s]" if shape == "list" else "{%s}") % body, tags


def gen_argparse(rng, ps, tags, docstmt=None, choices=0.0, force_repeat=False):
    """choices: probability that an argument of the parser restricts its values (`choices=`, see gen_choices), appends
    (`action='append'`), or is added a second time further down (argparse objects at run time, the text is a legal
    module all the same); 0.0 (the default) draws nothing extra.  force_repeat: the first `choices=` of the function
    lists a member twice."""
    lines = ["def set_cli_args(argument_parser):"]
    if docstmt is None:
        docstmt = _quote("Set CLI arguments\n\n:param argument_parser: argument parser\n:type argument_parser: ```ArgumentParser```\n\n"
                         ":returns: argument_parser\n:rtype: ```ArgumentParser```\n", "    ")
    if docstmt:
        lines.append(docstmt)
    lines.append("    argument_parser.description = %r" % rng.choice(SUMMARIES).split("\n")[0])
    added = []
    for p in ps:
        kws = ["'--%s'" % p["name"]]
        if p["typ"] != "str" or rng.random() < 0.3:
            kws.append("type=%s" % p["typ"])
        if choices and p["typ"] != "bool" and (force_repeat or rng.random() < choices):
            src, ctags = gen_choices(rng, p["typ"], force_repeat=force_repeat)
            force_repeat = False
            kws.insert(rng.randint(1, len(kws)), "choices=" + src)
            tags.extend(t for t in ctags if t not in tags)
        kws.append("help=%r" % (p["prose"] + p["sentence"]))
        r = rng.random()
        if p["how"] in ("1", "many") and r < 0.7:
            kws.append("default=%s" % (p["value"] if p.get("value") and rng.random() < 0.8 else rng.choice(VALUES[p["typ"]])))
        elif r < 0.3:
            kws.append("required=True")
        if choices and rng.random() < choices / 4:
            kws.append("action='append'")
            if "action:append" not in tags:
                tags.append("action:append")
        lines.append("    argument_parser.add_argument(%s)" % ", ".join(kws))
        added.append(lines[-1])
    if choices and added and rng.random() < choices / 3:
        # the same argument once more (a copy-and-paste slip): the later call's keywords update the earlier entry
        again = rng.choice(added)
        if rng.random() < 0.5:
            again = again.replace("required=True", "required=False")
        lines.append(again)
        tags.append("argument:repeated")
    lines.append("    return argument_parser")
    return "\n".join(lines) + "\n"


def _foreign_phrase(rng, style):
    """(the dialect the words belong to, prose using them), for a docstring written in `style`"""
    other = rng.choice([o for o in ("rest", "google", "google", "numpydoc") if o != style] if style != "rest"
                       else ["google", "google", "google", "numpydoc"])
    return other, rng.choice(FOREIGN[other])


def gen_foreign(rng, kind=None):
    """a docstring-carrying point of one dialect whose prose uses another dialect's markers"""
    kind = kind or rng.choice(["function", "function", "class", "docstring"])
    style = rng.choice(["rest", "rest", "rest", "google", "numpydoc"])
    ps, tags = gen_params(rng, allow_fail=False)
    for p in ps:
        p["sentence"] = p["sentence"].replace("\n", " ")
    summary = rng.choice(SUMMARIES)
    others = set()
    where = rng.choice(["summary", "summary", "summary", "param", "returns", "summary+param"])
    ret = rng.choice([None, ("int", "the result."), ("str", "Trained model")])
    if "summary" in where:
        k = rng.choice([1, 1, 2])
        bits = []
        for _ in range(k):
            o, ph = _foreign_phrase(rng, style)
            if "\n" in ph:                              # a numpydoc block goes on lines of its own
                bits.append("\n\n" + ph + "\n")
            else:
                bits.append(" " + ph)
            others.add(o)
        summary = summary.rstrip() + ("" if summary.rstrip()[-1:] in ".:" or rng.random() < 0.2 else ".") + "".join(bits)
    if "param" in where:
        o, ph = _foreign_phrase(rng, style)
        if "\n" not in ph:
            q = rng.choice(ps)
            q["prose"] = q["prose"].rstrip(".") + ". " + ph
            others.add(o)
    if where == "returns":
        o, ph = _foreign_phrase(rng, style)
        if "\n" not in ph:
            ret = (rng.choice(["int", "str", "List[int]"]), "scaled numbers. " + ph)
            others.add(o)
    if not others:
        o, ph = _foreign_phrase(rng, "rest" if style == "rest" else style)
        summary = summary.rstrip() + " " + ph.replace("\n", " ")
        others.add(o)
    tags = ["style:" + style] + tags + sorted("foreign:" + o for o in others)
    doc = render_doc(rng, style, summary, ps, ret, field="cvar" if (kind == "class" and style == "rest") else "param")
    if kind == "docstring":
        return {"kind": kind, "src": doc, "tags": tags}
    if kind == "function":
        return {"kind": kind, "src": gen_function(rng, ps, tags, style, docstmt=_quote(doc, "    ")), "tags": tags}
    return {"kind": kind, "src": gen_class(rng, ps, tags, style, docstmt=_quote(doc, "    ")), "tags": tags}


def gen_xtype_family(rng):
    """2..4 points, each with one parameter whose default is equal to the others' but of another type"""
    cls = rng.choice(XTYPE)
    members = rng.sample(cls, rng.choice([2, 2, 3, min(4, len(cls))]))
    if rng.random() < 0.5:                               # the same family under one parameter name, or under several
        names = [rng.choice(NAMES)] * len(members)
    else:
        names = [rng.choice(NAMES) for _ in members]
    n = len(members)
    pts = []
    for (typ, value), name in zip(members, names):
        for _ in range(20):
            kind = rng.choice(["function", "function", "class", "class", "docstring", "argparse"])
            style = rng.choice(["rest", "rest", "google", "numpydoc"])
            ps, tags = gen_params(rng, allow_fail=False)
            ps = [p for p in ps if p["name"] != name]
            # where the default is stated: announced in the prose, in the code (signature / attribute / default=), or both
            where = rng.choice(["doc", "doc", "doc", "code", "both"])
            phrase = rng.choice(PHRASES[:3])[0]
            x = {"name": name, "typ": typ, "prose": NOUNS[NAMES.index(name)] + rng.choice([".", ".", ""]), "how": "1",
                 "sentence": (" " + phrase + value + rng.choice(["", "", "."])) if where != "code" else "",
                 "show_typ": rng.random() < 0.5}
            if where != "doc":
                x["value"] = value
            if x["sentence"].endswith(value + ".") and typ in ("int", "float") and "." not in value:
                pass                                     # "Defaults to 1." reads as a float: a near miss worth having
            ps.insert(rng.randint(0, len(ps)), x)
            tags = ["style:" + style] + tags + ["xtype:%d" % n, "xtype-default:" + where]
            if kind == "docstring":
                ret = rng.choice([None, ("int", "the result."), ("str", "Trained model")])
                pt = {"kind": kind, "src": render_doc(rng, style, rng.choice(SUMMARIES), ps, ret), "tags": tags}
            elif kind == "function":
                pt = {"kind": kind, "src": gen_function(rng, ps, tags, style), "tags": tags}
            elif kind == "argparse":
                pt = {"kind": kind, "src": gen_argparse(rng, ps, [t for t in tags if not t.startswith("style:")]),
                      "tags": [t for t in tags if not t.startswith("style:")]}
            else:
                doc = render_doc(rng, style, rng.choice(SUMMARIES), ps, None, field="cvar" if style == "rest" else "param")
                pt = {"kind": kind, "src": gen_class(rng, ps, tags, style, docstmt=_quote(doc, "    ")), "tags": tags}
            if _parses(pt):
                pts.append(pt)
                break
    return pts


# ---- live objects: modules that are written to disk and imported; the object itself is handed to the parser
TYPING_ANN = ["Optional[str]", "Optional[int]", "List[str]", "List[int]", "Union[int, float]", "Dict[str, int]",
              "Tuple[int, int]", "Optional[List[str]]", "Sequence[str]", "Iterable[int]", "Optional[float]",
              "Union[str, int, None]", "Tuple[str, ...]", "Callable[[int], int]", "Any", "Optional[bool]",
              "List[Optional[str]]", "Dict[str, List[int]]"]
BUILTIN_ANN = ["int", "str", "float", "bool", "list", "dict", "tuple", "object"]
LIVE_DEFAULTS = ["None", "None", "None", "5", "0", "'x'", "''", "0.5", "True", "False", "()", "(1, 2)", "-1", "'adam'"]
TYPING_NAMES = ["Any", "Callable", "Dict", "Iterable", "List", "Optional", "Sequence", "Tuple", "Union"]
HELPERS = [
    "def _identity(x):\n    return x\n",
    "DEFAULT_NAME = 'mnist'\n",
    "class _Base(object):\n    \"\"\" base \"\"\"\n",
    "def helper(a: Optional[int] = None):\n    \"\"\"\n    Help\n\n    :param a: an a\n    \"\"\"\n    return a\n",
]


def _live_ann(rng, how):
    """(annotation as spelled in the source or None, stratum)"""
    if how == "typing":
        return rng.choice(TYPING_ANN), "typing"
    if how == "qualified":
        return re.sub(r"\b(%s)\b" % "|".join(TYPING_NAMES), r"typing.\1", rng.choice(TYPING_ANN)), "qualified"
    if how == "string":
        return repr(rng.choice(TYPING_ANN + BUILTIN_ANN[:4])), "string"
    if how == "builtin":
        return rng.choice(BUILTIN_ANN), "builtin"
    return None, "none"


def gen_live(rng, what=None):
    """one live point: a module whose last top-level definition is the target.
    what: None | function | class | class-init"""
    what = what or rng.choice(["function", "function", "class", "class-init"])
    style = rng.choice(["rest", "rest", "google", "numpydoc"])
    n = rng.choice([1, 2, 2, 3, 3, 4, 5])
    idx = rng.sample(range(len(NAMES)), n)
    profile = rng.choice(["typing", "typing", "typing", "mixed", "mixed", "qualified", "plain"])
    ps, strata = [], []
    seen_default = False
    for i in idx:
        if profile == "typing":
            how = rng.choice(["typing", "typing", "typing", "qualified", "none"])
        elif profile == "qualified":
            how = rng.choice(["qualified", "qualified", "typing", "builtin"])
        elif profile == "mixed":
            how = rng.choice(["typing", "typing", "qualified", "string", "builtin", "none"])
        else:
            how = rng.choice(["builtin", "builtin", "none"])
        ann, st = _live_ann(rng, how)
        strata.append(st)
        default = None
        if seen_default or rng.random() < 0.6:
            seen_default = True
            default = rng.choice(LIVE_DEFAULTS)
        doc_typ = rng.choice(["int", "str", "float", "bool"])
        ps.append({"name": NAMES[i], "typ": doc_typ, "prose": NOUNS[i] + rng.choice([".", ".", ""]), "how": "0",
                   "sentence": "", "ann": ann, "default": default,
                   "show_typ": rng.random() < 0.25})          # mostly the type comes from the signature only
    # which parameters the docstring documents: all (mostly), a prefix, or a shuffled subset - only the documented
    # ones meet the signature in the live path
    r = rng.random()
    doc_ps = list(ps) if r < 0.7 else ps[:max(1, n - 1)] if r < 0.85 else rng.sample(ps, max(1, n - 1))
    ret = rng.choice([None, None, ("int", "the result."), ("str", "Trained model")])
    sig = []
    for p in ps:
        s = p["name"]
        if p["ann"] is not None:
            s += ": " + p["ann"]
        if p["default"] is not None:
            s += (" = " if p["ann"] is not None else "=") + p["default"]
        sig.append(s)
    head = ["from typing import %s" % ", ".join(TYPING_NAMES)]
    if "qualified" in strata or rng.random() < 0.3:
        head.append("import typing")
    if rng.random() < 0.2:
        head.insert(0, rng.choice(["import os", "import sys", "from collections import OrderedDict"]))
    lines = head + ["", ""]
    if rng.random() < 0.3:
        lines += [rng.choice(HELPERS), ""]
    summary = rng.choice(SUMMARIES)
    if what == "function":
        doc = render_doc(rng, style, summary, doc_ps, ret)
        lines.append("def %s(%s)%s:" % (rng.choice(FUNC_NAMES), ", ".join(sig),
                                        rng.choice(["", "", " -> int", " -> Optional[str]", " -> List[str]"])))
        lines.append(_quote(doc, "    "))
        lines.append("    " + rng.choice(["return None", "return 5", "return %s" % ps[0]["name"], "return 'x'", "pass"]))
    else:
        cls_doc_ps = doc_ps if rng.random() < 0.8 else []
        doc = render_doc(rng, style, summary, cls_doc_ps, None, field="cvar" if style == "rest" else "param")
        lines.append("class %s(%s):" % (rng.choice(CLASS_NAMES), rng.choice(["object", "object", "_Base"]) if "_Base" in "\n".join(lines) else "object"))
        lines += [_quote(doc, "    "), ""]
        for p in [q for q in ps if rng.random() < 0.3]:     # some class-level annotated attributes
            if p["ann"] is not None and p["default"] is not None:
                lines.append("    %s: %s = %s" % (p["name"], p["ann"], p["default"]))
        init_doc = ""
        if rng.random() < 0.5:
            init_doc = _quote(render_doc(rng, rng.choice(["rest", "google", "numpydoc"]), "Construct it", doc_ps), "        ")
        lines += ["", "    def __init__(%s):" % ", ".join(["self"] + sig)]
        if init_doc:
            lines.append(init_doc)
        for p in ps[:3]:
            lines.append("        self.%s = %s" % (p["name"], p["name"]))
    src = "\n".join(lines) + "\n"
    ntyping = sum(1 for s in strata if s in ("typing", "qualified"))
    tags = ["live:" + what, "style:" + style] + sorted(set("ann:" + s for s in strata))
    if ntyping >= 2:
        tags.append("ann:typing-many")
    return {"kind": "live-init" if what == "class-init" else "live", "src": src, "tags": tags}


def gen_point(rng, kind=None, force=None):
    """one point of the new strata.  force: None | many | fails | degenerate | foreign | choices (an argparse function
    one of whose arguments lists a choice twice)"""
    if force == "foreign":
        return gen_foreign(rng, kind)
    if force == "choices":
        kind = "argparse"
    kind = kind or rng.choice(["function", "function", "class", "class", "docstring", "argparse"])
    style = rng.choice(["rest", "google", "numpydoc"])
    if force == "fails" and rng.random() < 0.7:
        style = rng.choice(["google", "numpydoc"])
    ps, tags = gen_params(rng, allow_fail=(force != "choices"), force=force if force in ("many", "fails") else None)
    tags = ["style:" + style] + tags
    if force == "degenerate" or (force is None and rng.random() < 0.15):
        tag, tmpl = _degenerate(rng, DEGENERATE)
        tags = [t for t in tags if not t.startswith(("style:", "announce:", "defaults:", "fails"))] + [tag]
        for p in ps:
            p["how"], p["sentence"] = "0", ""
        a = ps[0]["name"]
        if kind == "docstring":
            tag, text = _degenerate(rng, DEGENERATE_TEXT)
            tags[-1] = tag
            return {"kind": kind, "src": text.replace("{a}", a), "tags": tags}
        if kind == "function":
            d = None if tmpl is None else "    " + tmpl.replace("{ind}", "    ").replace("{a}", a)
            return {"kind": kind, "src": gen_function(rng, ps, tags, style, docstmt=d or ""), "tags": tags}
        if kind == "argparse":
            d = None if tmpl is None else "    " + tmpl.replace("{ind}", "    ").replace("{a}", a)
            return {"kind": kind, "src": gen_argparse(rng, ps, tags, docstmt=d or ""), "tags": tags}
        d = "" if tmpl is None else "    " + tmpl.replace("{ind}", "    ").replace("{a}", a)
        inner = None
        if rng.random() < 0.4:
            t2, tm2 = _degenerate(rng, DEGENERATE)
            ips = ps if rng.random() < 0.5 else gen_params(rng, allow_fail=False)[0]
            inner = _init(rng, ips, "" if tm2 is None else "        " + tm2.replace("{ind}", "        ").replace("{a}", ips[0]["name"]))
            tags.append("init-" + t2)
        return {"kind": kind, "src": gen_class(rng, ps, tags, style, docstmt=d, inner=inner), "tags": tags}
    if kind == "docstring":
        ret = rng.choice([None, ("int", "the result."), ("str", "Trained model")])
        return {"kind": kind, "src": render_doc(rng, style, rng.choice(SUMMARIES), ps, ret), "tags": tags}
    if kind == "function":
        return {"kind": kind, "src": gen_function(rng, ps, tags, style), "tags": tags}
    if kind == "argparse":
        tags = [t for t in tags if not t.startswith("style:")]
        return {"kind": kind, "src": gen_argparse(rng, ps, tags, choices=0.3, force_repeat=(force == "choices")), "tags": tags}
    inner = None
    if rng.random() < 0.35:
        ips, itags = gen_params(rng, allow_fail=False)
        inner = _init(rng, ips, _quote(render_doc(rng, rng.choice(["rest", "google", "numpydoc"]), "Construct it", ips), "        "))
        tags.append("init")
    return {"kind": kind, "src": gen_class(rng, ps, tags, style, inner=inner), "tags": tags}


def _parses(pt):
    if pt["kind"] == "docstring":
        return True
    import ast
    try:
        ast.parse(pt["src"])
        return True
    except SyntaxError:
        return False


def gen(rng, n, filler=None):
    """a sequence of n points: about half from the strata above (with failing, multi-announcement and degenerate
    points forced in at a fixed share so that every run has several of each, of several kinds), the rest ordinary
    definitions from `filler(rng) -> point`; some points are repeated later in the sequence"""
    pts = []
    kinds = ["function", "class", "docstring", "argparse"]
    plan = []
    for k in range(n):
        r = k % 10
        plan.append({0: "fails", 1: "many", 2: "degenerate", 3: "degenerate", 4: "many"}.get(r, None if r < 8 else "filler"))
    # on top of the n points above: one foreign-marker point per 10 and one equal-across-types family per 16
    plan += ["foreign"] * max(2, n // 10) + ["xtype"] * max(2, n // 16)
    # and live objects (imported modules): one per 12, some of them in pairs next to each other
    plan += ["live"] * max(4, n // 12) + ["live2"] * max(1, n // 80)
    # and argparse functions with a `choices=` collection that repeats a member: one per 25
    plan += ["choices"] * max(2, n // 25)
    rng.shuffle(plan)
    for k, force in enumerate(plan):
        if force in ("live", "live2"):
            for _ in range(2 if force == "live2" else 1):
                pts.append(gen_live(rng))
            continue
        if force == "filler" and filler is not None:
            pts.append(filler(rng))
            continue
        if force == "xtype":
            pts.extend(gen_xtype_family(rng))
            continue
        for _ in range(20):
            kind = kinds[k % 4] if force in ("degenerate", "many") else None
            if force == "degenerate" and rng.random() < 0.4:
                kind = "class"
            pt = gen_point(rng, kind=kind, force=None if force == "filler" else force)
            if _parses(pt):
                pts.append(pt)
                break
    # A, B, A: repeat some points later in the sequence
    for i in rng.sample(range(len(pts)), max(1, len(pts) // 8)):
        pts.insert(rng.randint(i + 1, len(pts)), dict(pts[i], tags=pts[i]["tags"] + ["dup"]))
    return pts
