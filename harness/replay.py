#!/usr/bin/env python3
"""Replay a violation file written by check.py:  python3 harness/replay.py <replay.json>
Re-evaluates each recorded failing case on the current /repo and prints whether it still fails."""
import importlib, json, os, sys
HERE = os.path.dirname(os.path.abspath(__file__))
sys.path.insert(0, HERE)
import check  # noqa: E402  (for reexec)
if __name__ == "__main__":
    check.reexec()
    r = json.load(open(sys.argv[1]))
    pid = r["property"]
    prop = importlib.import_module("prop_" + pid)
    print("property", pid, "kind", r.get("kind"))
    still = 0
    for v in r.get("violations", []):
        if hasattr(prop, "check_case"):
            try:
                ok, what = prop.check_case(v["case"])
            except Exception as e:  # noqa
                ok, what = False, "check_case raised %s" % type(e).__name__
            print("PASS" if ok else "FAIL", json.dumps(v["case"], default=str)[:300], "|", what[:200])
            still += 0 if ok else 1
    if r.get("kind") != "failing-input":
        print("no failing input recorded; what no longer checks:", json.dumps(
            {k: r.get(k) for k in ("theorem_or_lemma_that_no_longer_checks", "correspondence_that_no_longer_checks")}, default=str)[:1500])
        sys.exit(1)
    sys.exit(1 if still else 0)
