"""C10 — sync is idempotent, never edits the truth, and reports changes truthfully."""
import fam_sync
import sync_judge as J
import sync_props as P

ID = "C10"
COQ_PROP = "C10"
FAMILIES = [(fam_sync, 150, 1500)]
TECHNIQUE = "Coq proof (unchanged-flag => bytes unchanged, truth never written, second run is a no-op from the FIX law, by induction over targets and runs) + replay correspondence + history oracle on the real sync"
TRUSTED = P.TRUSTED
WITNESS_REPLAY = False   # a scenario can fail for several reasons; findings are reported when observed in the run


def oracle(rng, tier):
    return P.evaluate(rng, tier, J.judge_c10, runs=3)


def check_case(case):
    return P.check_scenario(case, J.judge_c10)
