"""Correspondence family `c03`: the two model functions coq/model/C03Spec.v adds for the function round trip.

  reparse     C03Spec.reparse_stmt  vs  ast.parse(ast.unparse(node)).body[0]  on FunctionDefs emitted by the real
              emit.function (the artefact trees are compared through astwire);
  round_trip  C03Spec.round_trip_fn (EmitAst.emit_function -> reparse_stmt -> ParseSig.parse_function)  vs the real
              emit.function -> ast.unparse -> ast.parse -> parse.function: the whole resulting IR, or the exception kind.

Boundary inputs of the model, recorded from the very call being compared (as fam_emitast / fam_parsesig do):
  tds  what doctrans.emit.to_docstring returned inside emit.function;
  pt   ast.parse(s).body[0].value for the code strings of the IR;
  d    what parse.docstring made of the cleaned docstring of the re-parsed function (parse.function's own call).

Also here: the shared round-trip runner and the Python comparison used by the oracle of property C03 (prop_C03.py).
"""
import ast
import copy
from collections import OrderedDict

from common import Sym, dumps, opt, outcome, impl, exc_kind
import astwire
import irwire
import gen_ir
import gen_text as G
import fam_emitast

NAME = "c03"
KINDS = ("static", "self", "cls")


# ------------------------------------------------------------------ IR plumbing
def od(ir):
    """deep copy with OrderedDicts where doctrans expects them"""
    out = {"name": ir.get("name"), "type": ir.get("type"), "doc": ir.get("doc"),
           "params": OrderedDict((k, dict(v)) for k, v in (ir.get("params") or {}).items()),
           "returns": None}
    r = (ir.get("returns") or {}).get("return_type") if ir.get("returns") else None
    if r is not None:
        out["returns"] = OrderedDict((("return_type", dict(r)),))
    return out


def gen_opts(rng):
    return {"function_type": rng.choice(KINDS), "inline_types": rng.random() < 0.5,
            "emit_as_kwonlyargs": rng.random() < 0.5, "indent_level": rng.choice([0, 1, 2]),
            "emit_separating_tab": rng.random() < 0.5, "emit_default_doc": rng.random() < 0.3,
            "word_wrap": rng.random() < 0.8,
            # the kind is not passed to emit.function but carried by the IR (as after parse.function of a method)
            "type_from_ir": rng.random() < 0.2}


def opts_wire(o, pt):
    return [o["function_type"], o["inline_types"], o["emit_as_kwonlyargs"], o["indent_level"],
            o["emit_separating_tab"], o["emit_default_doc"], o["word_wrap"], pt]


def pt_of(ir, extra_irs=()):
    strings = set()
    fam_emitast._strings_of_ir(ir, strings)
    for x in extra_irs:
        fam_emitast._strings_of_ir(x, strings)
    return fam_emitast.parse_table(strings)


# ------------------------------------------------------------------ the real round trip, stage by stage
class Trip(object):
    """one run of emit.function -> ast.unparse -> ast.parse -> parse.function on the real code"""

    def __init__(self, ir, o):
        m = impl()
        self.ir, self.o = ir, o
        self.node = self.src = self.node2 = self.out = self.doc_ir = None
        self.stage, self.exc = "emit", None
        ir_in = od(ir)
        if o.get("type_from_ir"):
            ir_in["type"] = o["function_type"]
        emit_o = {"function_name": "f", "function_type": None if o.get("type_from_ir") else o["function_type"], "word_wrap": o["word_wrap"],
                  "emit_default_doc": o["emit_default_doc"], "indent_level": o["indent_level"],
                  "emit_separating_tab": o["emit_separating_tab"], "inline_types": o["inline_types"],
                  "emit_as_kwonlyargs": o["emit_as_kwonlyargs"]}
        res, rec = fam_emitast.call_emitter("function", ir_in, emit_o)
        self.tds = rec.tds
        self.pt = pt_of(od(ir), rec.irs)
        if rec.node is None:
            self.exc = rec.exc
            return
        self.node = rec.node
        self.stage = "unparse"
        try:
            self.src = ast.unparse(ast.fix_missing_locations(self.node))
        except Exception as e:  # noqa
            self.exc = e
            return
        self.stage = "reparse"
        try:
            self.node2 = ast.parse(self.src).body[0]
        except Exception as e:  # noqa
            self.exc = e
            return
        # the docstring-derived IR, exactly as parse.function obtains it
        self.stage = "docstring"
        try:
            ds = ast.get_docstring(self.node2)
            self.doc_ir = None if ds is None else m.parse.docstring(ds.replace(":cvar", ":param"), infer_type=False)
        except Exception as e:  # noqa
            self.exc = e
            return
        self.stage = "parse"
        try:
            self.out = m.parse.function(copy.deepcopy(self.node2), word_wrap=True)
        except Exception as e:  # noqa
            self.exc = e
            return
        self.stage = "done"

    def wire_result(self):
        """the observation compared with C03Spec.round_trip_fn"""
        if self.stage == "done":
            return [Sym("ok"), irwire.enc_ir(self.out)]
        return [Sym("err"), Sym(exc_kind(self.exc))]


# ------------------------------------------------------------------ the Python side of same_interface_fn
NONE_LIKE = (None, "None", "```(None)```")


def none_like(v):
    return not isinstance(v, (bool, int, float)) and v in NONE_LIKE


def same_val(v, w):
    if isinstance(v, ast.AST) or isinstance(w, ast.AST):
        return False
    if none_like(v):
        return none_like(w)
    if type(v) is not type(w):
        return False
    if isinstance(v, float):
        return repr(v) == repr(w)
    return v == w


def _prose(p):
    return p.get("doc") or None


def cmp_param(pin, pout, what, prefix):
    if (pin.get("typ") or None) != (pout.get("typ") or None):
        what.append("%s: type %r came back as %r" % (prefix, pin.get("typ"), pout.get("typ")))
    if _prose(pin) != _prose(pout):
        what.append("%s: prose %r came back as %r" % (prefix, _prose(pin), _prose(pout)))
    if "default" in pin:
        if "default" not in pout or not same_val(pin["default"], pout["default"]):
            what.append("%s: default %r (%s) came back as %r (%s)" % (
                prefix, pin["default"], type(pin["default"]).__name__, pout.get("default", "<absent>"),
                type(pout.get("default")).__name__ if "default" in pout else "-"))
    elif "default" in pout:
        what.append("%s: no default came back as %r" % (prefix, pout["default"]))


def same_interface_fn(a, b, kind):
    """differences between the input description a and the parsed-back b (empty = same interface and kind)"""
    what = []
    an, bn = list(a["params"]), list(b.get("params") or {})
    if an != bn:
        what.append("names/order %r came back as %r" % (an, bn))
    for k in an:
        if k in (b.get("params") or {}):
            cmp_param(a["params"][k], b["params"][k], what, k)
    ar = (a.get("returns") or {}).get("return_type")
    br = (b.get("returns") or {}).get("return_type")
    if (ar is None) != (br is None):
        what.append("return entry %s" % ("lost" if br is None else "invented: %r" % (dict(br),)))
    elif ar is not None:
        cmp_param(ar, br, what, "return")
    if b.get("type") != kind:
        what.append("kind %r came back as %r" % (kind, b.get("type")))
    return what


def round_trip(ir, o):
    """(holds, what, Trip)"""
    t = Trip(ir, o)
    if t.stage != "done":
        return False, {"emit": "emitter raised %s", "unparse": "ast.unparse raised %s",
                       "reparse": "emitted text does not re-parse (%s)", "docstring": "parser raised %s (docstring)",
                       "parse": "parser raised %s"}[t.stage] % type(t.exc).__name__, t
    what = same_interface_fn(ir, t.out, o["function_type"])
    return (not what), "; ".join(what), t


# ------------------------------------------------------------------ generation
def gen_point(rng):
    """an (ir, opts, tags) point: whole generated descriptions (clean and general), single-parameter strata over
    (type shape x prose shape x default kind), wider scalar values, return-entry strata, kwargs strata"""
    r = rng.random()
    tags = []
    if r < 0.45:
        ir, tags = gen_ir.gen_ir(rng, clean=rng.random() < 0.5)
    elif r < 0.70:
        p = gen_ir.gen_param(rng, tags)
        ir = {"name": None, "type": "static", "doc": G.clean_prose(rng, max_words=6), "params": {G.ident(rng): p},
              "returns": None}
        tags.append("single")
    elif r < 0.80:
        typ = rng.choice(["str", "Optional[str]", "int", "float", "bool", "Optional[int]", "List[str]", "List[int]",
                          "Literal['a', 'b']", "Union[str, int]", "Optional[float]", None])
        v = G.value(rng, kinds=("int", "float", "bool", "str", "str")) if typ is None or rng.random() < 0.3 else \
            (G.str_value(rng) if "str" in typ or "Literal" in typ else
             G.int_value(rng) if "int" in typ else G.float_value(rng) if "float" in typ else rng.choice([True, False]))
        p = {"default": v}
        if rng.random() < 0.8:
            p["doc"] = G.clean_prose(rng)
        if typ is not None:
            p["typ"] = typ
        ir = {"name": None, "type": "static", "doc": G.clean_prose(rng, max_words=6), "params": {G.ident(rng): p},
              "returns": None}
        tags = ["wide-value", "typ:%s" % typ]
    elif r < 0.84:
        # prose strata: the shapes the docstring does not carry unchanged
        base = G.clean_prose(rng, max_words=5)
        doc = rng.choice([" " + base, base + " ", base.rstrip(".") + "\nsecond line.", base.replace(" ", "  ", 1), "\t" + base,
                          base + "\n", "Optional " + base, "(Optional) " + base, "optional " + base,
                          base.rstrip(".") + ". Defaults to 5", base.rstrip(".") + ", default: 3", "Default value is x",
                          "see :param other: for more.", "the :type of it.", ":returns: nothing.", "uses :cvar x.",
                          base.rstrip(".") + " :rtype: int", "a `code` span.", "ends with colon:", "x", "Defaults",
                          "50% of it.", "a\\b backslash.", "quote \" inside.", "it's fine.", "*starred*", "**bold**",
                          base + " " + fam_emitast.LONG + "."])
        typ = rng.choice(["int", "str", "Optional[int]", "List[str]", None])
        p = {"doc": doc}
        if typ is not None:
            p["typ"] = typ
        if rng.random() < 0.85:
            p["default"] = {"int": 5, "str": "adam", "Optional[int]": None, "List[str]": "```['a']```", None: None}[typ]
        where = rng.random()
        ir = {"name": None, "type": "static", "doc": G.clean_prose(rng, max_words=6), "params": {}, "returns": None}
        if where < 0.7:
            ir["params"][G.ident(rng)] = p
        elif where < 0.85:
            ir["params"]["kwargs"] = {"doc": doc, "typ": "Optional[dict]", "default": "```(None)```"}
        else:
            ir["params"][G.ident(rng)] = {"doc": "the thing.", "typ": "int", "default": 5}
            ir["returns"] = {"return_type": {"doc": doc, "typ": rng.choice(["int", "List[str]"])}}
        if rng.random() < 0.2:
            ir["doc"] = rng.choice([" " + ir["doc"], ir["doc"] + "\n\nMore text.", "Summary :param x: y", ir["doc"] + " " + fam_emitast.LONG])
        tags = ["prose-strata"]
    elif r < 0.93:
        # return-entry strata (with 0..2 clean parameters in front)
        ir, tags = gen_ir.gen_ir(rng, nparams=rng.choice([0, 0, 1, 2]), returns="none", kwargs=False, clean=True)
        rt = {}
        if rng.random() < 0.7:
            rt["typ"] = rng.choice(["int", "str", "np.ndarray", "Tuple[int, str]", "List[str]", "Union[int, str]",
                                    "Tuple[np.ndarray, np.ndarray]", "Optional[float]", "tf.data.Dataset"])
        if rng.random() < 0.7:
            rt["doc"] = gen_ir.prose_of_shape(rng, rng.choice(["clean", "clean", "clean", "noterm", "comma", "spicy"]))
        k = rng.random()
        if k < 0.55:
            rt["default"] = rng.choice(["```(np.empty(0), np.empty(0))```", "```x```", "```5```", "```None```", "```[1, 2]```",
                                        "```(None)```", "```foo(a)```", "```a.b```", "```-1```", "```'s'```", "```a[0]```",
                                        "```{'a': 1}```", "```(1, 2)```", "```np.array([1])```", "x", 5, None, "", "```()```",
                                        "```f(x)[0]```", "```not x```", "```lambda: 0```", "'q'", "```x + 1```"])
        if rt:
            ir["returns"] = OrderedDict((("return_type", rt),))
        tags.append("return-strata")
    else:
        # kwargs strata
        ir, tags = gen_ir.gen_ir(rng, nparams=rng.choice([0, 1, 2]), returns="none", kwargs=False, clean=True)
        kp = {}
        if rng.random() < 0.8:
            kp["doc"] = G.clean_prose(rng)
        if rng.random() < 0.85:
            kp["typ"] = rng.choice(["Optional[dict]", "Optional[dict]", "Optional[dict]", "dict", "Dict[str, int]"])
        if rng.random() < 0.85:
            kp["default"] = rng.choice([None, "```(None)```", "```(None)```", "None", 5, "```{}```"])
        if kp:
            ir["params"][rng.choice(["kwargs", "data_loader_kwargs", "model_kwargs"])] = kp
        tags.append("kwargs-strata")
    ir = {"name": ir.get("name"), "type": ir.get("type"), "doc": ir.get("doc"),
          "params": OrderedDict((k, dict(v)) for k, v in ir["params"].items()),
          "returns": None if not ir.get("returns") else OrderedDict(
              (("return_type", dict(ir["returns"]["return_type"])),))}
    return ir, gen_opts(rng), tags


def gen(rng, n, tier="quick"):
    cases = []
    for _ in range(n):
        ir, o, tags = gen_point(rng)
        if rng.random() < 0.08 and ir["params"]:      # a smaller malformed stream
            k = rng.choice(list(ir["params"]))
            r = rng.random()
            if r < 0.4:
                ir["params"][k]["typ"] = rng.choice([None, "", "List[str", "int or str", "X[a,]", "None", "Tuple[int, ...]"])
            elif r < 0.7:
                ir["params"][k]["default"] = rng.choice(["'q'", '"dq"', "", " x", "```-x```", "```not x```", 0, False,
                                                         float("inf"), -2.5, -7, "```'a b'```"])
            else:
                ir["params"][k]["doc"] = rng.choice([None, "", "x", "Defaults to 5", "two\nlines."])
            tags = tags + ["malformed"]
        fn = "round_trip" if rng.random() < 0.7 else "reparse"
        cases.append({"fam": NAME, "fn": fn, "args": {"ir": ir, "opts": o}, "tags": tags})
    return cases


# ------------------------------------------------------------------ wire
_CACHE = {}


def _trip(case):
    key = dumps([Sym(case["fn"])]) + repr((sorted(case["args"]["opts"].items()), case["args"]["ir"]))
    if key not in _CACHE:
        if len(_CACHE) > 4000:
            _CACHE.clear()
        _CACHE[key] = Trip(case["args"]["ir"], case["args"]["opts"])
    return _CACHE[key]


def request(case):
    t = _trip(case)
    a = case["args"]
    if case["fn"] == "reparse":
        if t.node is None:
            return dumps([Sym("c03_reparse"), [Sym("expr"), [Sym("name"), "x"]]])     # not a FunctionDef: declined
        try:
            return dumps([Sym("c03_reparse"), astwire.enc_stmt(t.node)])
        except Exception:  # noqa
            return dumps([Sym("c03_reparse"), [Sym("expr"), [Sym("name"), "x"]]])
    d = Sym("none") if t.doc_ir is None else [Sym("some"), irwire.enc_ir(t.doc_ir)]
    return dumps([Sym("c03_round_trip")] + opts_wire(a["opts"], t.pt) + [irwire.enc_ir(od(a["ir"])), t.tds, d])


def run_impl(case):
    t = _trip(case)
    if case["fn"] == "reparse":
        if t.node is None:
            return "(err Unmodelled)"
        if t.stage in ("unparse", "reparse"):
            return dumps([Sym("err"), Sym(exc_kind(t.exc))])
        return dumps([Sym("ok"), astwire.enc_stmt(t.node2)])
    return dumps(t.wire_result())


def nontrivial(case):
    return bool(case["args"]["ir"]["params"]) or bool(case["args"]["ir"].get("returns"))


if __name__ == "__main__":
    import collections
    import json
    import random
    import sys
    import corr
    seed = int(sys.argv[2]) if len(sys.argv) > 2 else 1
    cs = gen(random.Random(seed), int(sys.argv[1]) if len(sys.argv) > 1 else 500)
    res = corr.run_family(sys.modules[__name__], cs)
    print({k: v for k, v in res.items() if k not in ("mismatches", "histogram")})
    print(dict(collections.Counter(c["fn"] for c in cs)))
    print({k: v for k, v in res["histogram"].items() if k.startswith("unmodelled")})
    from fam_parseast import _pretty
    for mm in res["mismatches"][:int(sys.argv[3]) if len(sys.argv) > 3 else 6]:
        print("-" * 70)
        print(json.dumps(mm["case"], default=str)[:1500])
        print("MODEL", _pretty(mm["model"])[:3000])
        print("IMPL ", _pretty(mm["impl"])[:3000])
