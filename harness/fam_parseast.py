"""Correspondence family `parseast`: parse.class_ (AST path), parse.argparse_ast, emitter_utils.parse_out_param /
_parse_return, docstring_parsers._set_name_and_type (scalar and AST-node defaults), ast_utils.get_value, and the two
CPython functions they run on expression nodes (ast.unparse, ast.literal_eval)  vs  coq/model/ParseAst.v.

Decoupling: the model takes what the docstring parser returned as an input.  The harness records it by wrapping
`doctrans.parse.docstring` (class_) / `doctrans.parse.parse_docstring` (argparse_ast) during the real call.

Cases carry Python SOURCE TEXT (JSON-able); nodes are rebuilt with ast.parse, as the real pipeline does after
emit -> ast.unparse.  `fold` additionally folds -<number> into a negative Constant, the shape emitters build
directly.  Also here: the round-trip oracles of C02 / C04 (oracle_class, oracle_argparse) in prop-module format."""
import ast
import collections
import copy
import json
import os
import sys
from collections import OrderedDict

HERE = os.path.dirname(os.path.abspath(__file__))
if HERE not in sys.path:
    sys.path.insert(0, HERE)

from common import Sym, dumps, loads, opt, enc_pyval, outcome, impl, exc_kind, run_model, unhx, is_ascii_text  # noqa: E402
import gen_text as G  # noqa: E402
import gen_ir  # noqa: E402
import irwire  # noqa: E402
import astwire  # noqa: E402

NAME = "parseast"


# ------------------------------------------------------------------ helpers
class _FoldNeg(ast.NodeTransformer):
    """-<number constant>  ->  Constant(negative): what emitters construct without going through source"""

    def visit_UnaryOp(self, node):
        self.generic_visit(node)
        if isinstance(node.op, ast.USub) and isinstance(node.operand, ast.Constant) \
                and type(node.operand.value) in (int, float):
            return ast.copy_location(ast.Constant(value=-node.operand.value, kind=None), node)
        return node


def _parse_stmt(src, fold=False):
    mod = ast.parse(src)
    if fold:
        mod = ast.fix_missing_locations(_FoldNeg().visit(mod))
    return mod


def _parse_expr(src, fold=False):
    e = ast.parse(src, mode="eval").body
    if fold:
        e = ast.fix_missing_locations(_FoldNeg().visit(ast.Expression(body=e))).body
    return e


def _od(ir):
    ir = copy.deepcopy(ir)
    if isinstance(ir.get("params"), dict):
        ir["params"] = OrderedDict(ir["params"].items())
    if isinstance(ir.get("returns"), dict):
        ir["returns"] = OrderedDict(ir["returns"].items())
    return ir


def _safe(enc):
    """encoder that never raises: values outside the wire vocabulary become the atom `unencodable`"""
    def f(v):
        try:
            w = enc(v)
            dumps(w)
            return w
        except Exception:  # noqa
            return Sym("unencodable")
    return f


def _enc_outcome_ir(rec):
    """recorded docstring-parser outcome -> wire"""
    kind, val = rec
    if kind == "ok":
        return [Sym("ok"), irwire.enc_ir(val)]
    return [Sym("err"), Sym(val)]


class _Recorder(object):
    """wraps one attribute of doctrans.parse for the duration of a call; records the first outcome"""

    def __init__(self, attr):
        self.attr, self.rec = attr, None

    def __enter__(self):
        self.mod = impl().parse
        self.orig = getattr(self.mod, self.attr)

        def wrapped(*a, **k):
            try:
                r = self.orig(*a, **k)
            except Exception as e:  # noqa
                if self.rec is None:
                    self.rec = ("err", exc_kind(e))
                raise
            if self.rec is None:
                self.rec = ("ok", copy.deepcopy(r))
            return r

        setattr(self.mod, self.attr, wrapped)
        return self

    def __exit__(self, *a):
        setattr(self.mod, self.attr, self.orig)
        return False


def _dval_from_json(d):
    """{"s": scalar} | {"e": expr source[, "fold": bool]} | {"o": source of a python object}"""
    if "s" in d:
        v = d["s"]
        return float(v[1]) if isinstance(v, list) and v and v[0] == "float" else v
    if "e" in d:
        return _parse_expr(d["e"], d.get("fold", False))
    return eval(d["o"], {})  # noqa: S307  fixed literals only: [], (), {}, set()


def _gparam_from_json(p):
    q = {}
    for k in ("doc", "typ"):
        if k in p:
            q[k] = p[k]
    if "default" in p:
        q["default"] = _dval_from_json(p["default"])
    return q


_CACHE = {}


def _key(case):
    return json.dumps([case["fn"], case["args"]], sort_keys=True, default=str)


def _real(case):
    """run the real code once per case: (wire result, recorded docstring-parser outcome or None, node wire)"""
    k = _key(case)
    if k in _CACHE:
        return _CACHE[k]
    m = impl()
    fn, a = case["fn"], case["args"]
    rec, nodew = None, None
    if fn == "parse_class":
        mod = _parse_stmt(a["src"], a.get("fold", False))
        if a["as"] == "module":
            node, nodew = mod, [Sym("module"), astwire.enc_module(mod)]
        else:
            node = mod.body[a.get("index", 0)]
            nodew = [Sym("stmt"), astwire.enc_stmt(node)]
        with _Recorder("docstring") as r:
            res = outcome(lambda: m.parse.class_(copy.deepcopy(node), class_name=a["class_name"],
                                                 infer_type=a["infer_type"], word_wrap=a["word_wrap"]),
                          _safe(irwire.enc_ir))
        rec = r.rec
    elif fn == "parse_argparse_ast":
        mod = _parse_stmt(a["src"], a.get("fold", False))
        node = mod.body[a.get("index", 0)]
        nodew = astwire.enc_stmt(node)
        with _Recorder("parse_docstring") as r:
            res = outcome(lambda: m.parse.argparse_ast(copy.deepcopy(node), function_type=a["function_type"],
                                                       function_name=a["function_name"]),
                          _safe(irwire.enc_ir))
        rec = r.rec
    elif fn == "parse_out_param":
        node = _parse_stmt(a["src"], a.get("fold", False)).body[0]
        nodew = astwire.enc_stmt(node)
        res = outcome(lambda: m.emitter_utils.parse_out_param(copy.deepcopy(node), require_default=a["require_default"],
                                                              emit_default_doc=a["emit_default_doc"]),
                      _safe(lambda r: [r[0], irwire.enc_gparam(r[1])]))
    elif fn == "pa_set_name_and_type":
        p = _gparam_from_json(a["param"])
        res = outcome(lambda: m.docstring_parsers._set_name_and_type((a["name"], p), infer_type=a["infer_type"],
                                                                     word_wrap=a["word_wrap"]),
                      _safe(lambda r: [r[0], irwire.enc_gparam(r[1])]))
    elif fn == "show_expr":
        e = _parse_expr(a["src"], a.get("fold", False))
        nodew = astwire.enc_expr(e)
        res = [Sym("ok"), ast.unparse(e)]
    elif fn == "pa_get_value":
        e = _parse_expr(a["src"], a.get("fold", False))
        nodew = astwire.enc_expr(e)

        def enc_g(v):
            if isinstance(v, ast.AST):
                return [Sym("gn"), astwire.enc_expr(v)]
            return [Sym("gv"), enc_pyval(v)]
        res = outcome(lambda: m.ast_utils.get_value(copy.deepcopy(e)), _safe(enc_g))
    elif fn == "pa_literal_eval":
        e = _parse_expr(a["src"], a.get("fold", False))
        nodew = astwire.enc_expr(e)
        res = outcome(lambda: ast.literal_eval(copy.deepcopy(e)), lambda v: [type(v).__name__, repr(v)])
    else:
        raise KeyError(fn)
    out = (dumps(res), rec, nodew)
    _CACHE[k] = out
    if len(_CACHE) > 200000:
        _CACHE.clear()
    return out


# ------------------------------------------------------------------ wire
def request(case):
    fn, a = case["fn"], case["args"]
    _, rec, nodew = _real(case)
    if fn == "parse_class":
        return dumps([Sym(fn), opt(rec, _enc_outcome_ir), nodew, opt(a["class_name"]), a["infer_type"], a["word_wrap"]])
    if fn == "parse_argparse_ast":
        if rec is None:  # the real call failed before reaching the docstring parser: the model will, too
            rec = ("err", "Unmodelled")
        return dumps([Sym(fn), _enc_outcome_ir(rec), nodew, opt(a["function_type"]), opt(a["function_name"])])
    if fn == "parse_out_param":
        return dumps([Sym(fn), nodew, a["require_default"], a["emit_default_doc"]])
    if fn == "pa_set_name_and_type":
        return dumps([Sym(fn), a["name"], irwire.enc_gparam(_gparam_from_json(a["param"])), a["infer_type"],
                      a["word_wrap"]])
    if fn in ("show_expr", "pa_get_value", "pa_literal_eval"):
        return dumps([Sym(fn), nodew])
    raise KeyError(fn)


def run_impl(case):
    return _real(case)[0]


def nontrivial(case):
    fn, a = case["fn"], case["args"]
    if fn in ("parse_class", "parse_argparse_ast"):
        return a["src"].count("\n") >= 3
    if fn == "show_expr":
        return any(c in a["src"] for c in "([{.-'\"")
    return True


# ------------------------------------------------------------------ generation: expressions
ATOMS = ["5", "0", "-1", "-5", "2.5", "-0.5", "1e20", "1e-07", "1e309", "-1e309", "True", "False", "None", "'mnist'",
         "'it\\'s'", "'say \"hi\"'", "'both \\' and \"'", "'a\\nb'", "'tab\\there'", "'back\\\\slash'", "''", "'```x```'",
         "x", "np", "foo", "loads", "str", "int", "argument_parser", "a.b", "np.ndarray", "tf.data.Dataset", "x.y.z",
         "...", "b'by'", "1j", "12345678901234", "0.1", "100.0", "'\\x00'", "'\\x7f'"]
UNOPS = ["-", "+", "~", "not "]


def gen_expr(rng, depth=0):
    r = rng.random()
    if depth >= 3 or r < 0.35:
        return rng.choice(ATOMS)
    r = rng.random()
    sub = lambda: gen_expr(rng, depth + 1)  # noqa: E731
    if r < 0.10:
        return "(%s)" % ", ".join(sub() for _ in range(rng.choice([0, 1, 2, 2, 3]))) + ""
    if r < 0.14:
        return "(%s,)" % sub()
    if r < 0.26:
        return "[%s]" % ", ".join(sub() for _ in range(rng.choice([0, 1, 2, 3])))
    if r < 0.36:
        n = rng.choice([0, 1, 2, 2])
        keys = rng.sample(["'a'", "'b'", "1", "2", "x", "'k'", "(1, 2)", "[1]", "None"], n)
        return "{%s}" % ", ".join("%s: %s" % (k, sub()) for k in keys)
    if r < 0.50:
        f = rng.choice(["foo", "np.array", "np.empty", "set", "os.path.join", "f", "dict", "(lambda: 1)", "x[0]"])
        args = [sub() for _ in range(rng.choice([0, 1, 1, 2]))]
        kws = ["%s=%s" % (k, sub()) for k in rng.sample(["bar", "dtype", "k", "axis"], rng.choice([0, 0, 1, 2]))]
        if rng.random() < 0.05:
            kws.append("**kw")
        if rng.random() < 0.05:
            args.append("*rest")
        return "%s(%s)" % (f, ", ".join(args + kws))
    if r < 0.62:
        return "%s%s" % (rng.choice(UNOPS), sub())
    if r < 0.72:
        return "%s.%s" % (sub() if rng.random() < 0.5 else "(%s)" % sub(), rng.choice(["attr", "real", "T", "value"]))
    if r < 0.86:
        idx = rng.choice([sub(), "%s, %s" % (sub(), sub()), "%s," % sub(), "1:2", "(%s, %s)" % (sub(), sub()), "()"])
        return "%s[%s]" % (rng.choice(["x", "List", "Optional", "Tuple", "a.b", "Dict", sub()]), idx)
    return rng.choice(["1 + 2", "a if b else c", "lambda x: x", "x or y", "a < b", "[i for i in x]", "(i for i in x)",
                       "f'{x}'", "{1, 2}", "a @ b", "x ** 2", "(yield)", "(y := 5)", "-x ** 2", "(-x) ** 2", "not a or b",
                       "await_ if 1 else 2", "{**a}", "[*a, 1]", "foo(i for i in x)", "foo((i for i in x), 1)"])


def _valid_expr(src):
    try:
        ast.parse(src, mode="eval")
        return True
    except (SyntaxError, ValueError, MemoryError, RecursionError):
        return False


def gen_valid_expr(rng):
    """gen_expr composes source text and can produce text that is not an expression (12345678901234.value: an attribute of
    an unparenthesised int literal); such text is no input of the converters - draw again (a harness exception here
    used to surface as a broken correspondence in the thorough tier)"""
    for _ in range(50):
        src = gen_expr(rng)
        if _valid_expr(src):
            return src
    return "foo"


# ------------------------------------------------------------------ generation: classes
VALUES = ["5", "0", "-1", "-5", "2.5", "-2.5", "'mnist'", "\"~/tensorflow_datasets\"", "None", "True", "False", "(1, 2)",
          "[1]", "{}", "[]", "()", "set()", "np.array([1])", "'a.b'", "(np.empty(0), np.empty(0))", "foo", "a.b",
          "a.b.c", "x[0]", "x[0][1]", "-x", "not x", "~5", "+3", "-True", "not True", "~2.5", "-'a'", "-None",
          "{'a': 1}", "{'a': 1, 'b': [2]}", "{1: 'x', 2: 'y'}", "{[1]: 2}", "{(1, 2): 3}", "[1, 'two', 3.0]",
          "[1, foo]", "(1,)", "lambda x: x", "1 + 2", "''", "'\"quoted\"'", "\"'q'\"", "'```[1, 2]```'",
          "'```(None)```'", "'```None```'", "'None'", "dict(a=1)", "foo(1).bar", "'abc'.upper", "'s'[0]", "1e309",
          "[[1, 2], [3]]", "((1, 2), [3, {}])", "{'k': (1, -2)}", "[-1, +2.5]", "[-True]", "x if y else z", "b'x'", "1j",
          "-1j", "..."]
TYPES = ["int", "str", "float", "bool", "Optional[int]", "Optional[str]", "List[str]",
                           "Literal['a', 'b']", "Union[int, str]", "Dict[str, int]", "np.ndarray", "dict", "Optional[dict]",
                           "Tuple[int, str]", "object", "Any", "Callable[[int], str]", "tf.data.Dataset",
                           "Union[Tuple[tf.data.Dataset, tf.data.Dataset], Tuple[np.ndarray, np.ndarray]]",
                           "'str'", "\"quoted\"", "List['str']", "Optional[List[Literal['a', \"b\"]]]"]
TYPES_EXOTIC = ["x[1:2]", "5", "None", "a or b", "List[str", "int or None"]


def _typ(rng):
    return rng.choice(TYPES_EXOTIC) if rng.random() < 0.04 else rng.choice(TYPES)
DOC_DEFAULTS = ["", "", "", " Defaults to 5", " Defaults to \"mnist\"", " Defaults to None", " Defaults to np",
                " defaults to 2.5.", " Defaults to (np.empty(0), np.empty(0))", " Default value is True",
                " Defaults to ```[1, 2]```", " Defaults to -3"]


def _cvar_line(rng, name, tok=":cvar"):
    d = rng.choice([G.clean_prose(rng), G.clean_prose(rng), G.prose(rng), "Optional thing.", "(Optional) thing", ""])
    line = "%s %s: %s%s" % (tok, name, d, rng.choice(DOC_DEFAULTS))
    if rng.random() < 0.15:
        line += "\n    :type %s: ```%s```" % (name, rng.choice(TYPES[:14]))
    return line


def gen_class_src(rng, malformed=False):
    """(source, tags) of a hand-written style config class"""
    tags = []
    n = rng.choice([0, 1, 2, 2, 3, 4])
    names = []
    while len(names) < n:
        nm = G.ident(rng, allow_kwargs=True)
        if nm not in names:
            names.append(nm)
    if rng.random() < 0.25:
        names.append("return_type")
    if rng.random() < 0.12:
        names.append(rng.choice(["kwargs", "data_loader_kwargs"]))
    lines = ["class %s%s:" % (rng.choice(["ConfigClass", "C", "Config"]), rng.choice(["(object)", "", "(Base)"]))]
    have_doc = rng.random() < (0.6 if malformed else 0.92)
    documented = [nm for nm in names if rng.random() < (0.5 if malformed else 0.9)]
    extra_doc = []
    if malformed and rng.random() < 0.4:
        extra_doc = [G.ident(rng) for _ in range(rng.choice([1, 2]))]
        tags.append("documented-without-attribute")
    if malformed and rng.random() < 0.1:
        extra_doc.append(rng.choice(["**kwargs", "*args", "model_kwargs"]))
    if have_doc:
        style = "rest"
        if malformed and rng.random() < 0.12:
            style = rng.choice(["google", "numpy", "plain"])
        tags.append("doc:" + style)
        summary = rng.choice(["Acquire from the official tensorflow_datasets model zoo, or the ophthalmology focussed ml-prepare",
                              "Config.", "Some settings\n    over two lines.", ""])
        if style == "rest":
            tok = ":cvar" if rng.random() < 0.85 else rng.choice([":param", ":ivar", ":var"])
            dl = [_cvar_line(rng, nm, tok) for nm in (documented + extra_doc)]
            rng.random() < 0.2 and rng.shuffle(dl)
            if malformed and rng.random() < 0.15:
                dl.append(":returns: the thing\n    :rtype: ```int```")
            body = summary + ("\n\n    " if summary else "\n    ") + "\n    ".join(dl)
        elif style == "google":
            body = summary + "\n\n    Args:\n" + "\n".join("      %s (%s): %s" % (nm, rng.choice(TYPES[:8]), G.clean_prose(rng))
                                                              for nm in documented + extra_doc)
        elif style == "numpy":
            body = summary + "\n\n    Parameters\n    ----------\n" + "\n".join(
                "    %s : %s\n        %s" % (nm, rng.choice(TYPES[:8]), G.clean_prose(rng)) for nm in documented + extra_doc)
        else:
            body = summary
        lines.append('    """\n    %s%s"""' % (body, "\n    " if body.endswith('"') else rng.choice(["", "\n    "])))
    else:
        tags.append("doc:none")
    for nm in names:
        r = rng.random()
        if malformed and r < 0.25:
            k = rng.random()
            if k < 0.5:
                lines.append("    %s = %s" % (nm, rng.choice(VALUES)))
                tags.append("assign")
            elif k < 0.65:
                lines.append("    %s = %s_alias = %s" % (nm, nm, rng.choice(VALUES)))
                tags.append("assign-multi")
            elif k < 0.75:
                lines.append("    %s, other = 1, 2" % nm)
                tags.append("assign-tuple-target")
            elif k < 0.85:
                lines.append("    self.%s: int = %s" % (nm, rng.choice(VALUES)))
                tags.append("annassign-attr-target")
            elif k < 0.93:
                lines.append("    obj.%s = %s" % (nm, rng.choice(VALUES)))
                tags.append("assign-attr-target")
            else:
                lines.append("    %s += 1" % nm)
                tags.append("augassign")
        elif r < (0.35 if malformed else 0.08):
            lines.append("    %s: %s" % (nm, _typ(rng)))
            tags.append("annassign-novalue")
        else:
            lines.append("    %s: %s = %s" % (nm, _typ(rng), rng.choice(VALUES)))
    if malformed and names and rng.random() < 0.2:
        lines.append("    %s: %s = %s" % (rng.choice(names), _typ(rng), rng.choice(VALUES)))
        tags.append("duplicate-attribute")
    if rng.random() < 0.25:
        lines.append("    def __call__(self):\n        return self.%s" % (names[0] if names else "x"))
        tags.append("method")
    if rng.random() < 0.1:
        lines.append(rng.choice(["    pass", "    print('x')", "    if True:\n        z = 1", "    'a string statement'"]))
    if len(lines) == 1:
        lines.append("    pass")
    return "\n".join(lines) + "\n", tags


def _emit_opts(rng):
    return {"emit_default_doc": rng.random() < 0.5, "word_wrap": rng.random() < 0.5}


def emitted_class_src(ir, opts):
    """real emitter -> ast.unparse; None when the emitter raises"""
    m = impl()
    try:
        node = m.emit.class_(_od(ir), emit_default_doc=opts["emit_default_doc"], word_wrap=opts["word_wrap"])
        return ast.unparse(ast.fix_missing_locations(node))
    except Exception:  # noqa
        return None


def emitted_argparse_src(ir, opts):
    m = impl()
    try:
        node = m.emit.argparse_function(_od(ir), emit_default_doc=opts["emit_default_doc"],
                                        word_wrap=opts["word_wrap"],
                                        wrap_description=opts.get("wrap_description", False))
        return ast.unparse(ast.fix_missing_locations(node))
    except Exception:  # noqa
        return None


# ------------------------------------------------------------------ generation: argparse functions
RTYPES = ["```Tuple[ArgumentParser, Union[Tuple[tf.data.Dataset, tf.data.Dataset], Tuple[np.ndarray,\n    np.ndarray]]]```",
          "```Tuple[ArgumentParser, int]```", "```ArgumentParser```", "```Tuple[ArgumentParser, List[float]]```",
          "```Optional[int]```", "```Tuple[ArgumentParser, Literal['a', \"b\"]]```", "```Tuple[ArgumentParser]```",
          "```Callable[[int, str]]```", "```Callable[[int]]```", "```Dict[str, int]```", "```List[a.b]```", "```int```",
          "```Tuple[ArgumentParser, np.ndarray, int]```", "Tuple[ArgumentParser, str]", "``` Tuple[A, B]```",
          "```Tuple[A, B,]```", "```Tuple[(A, B)]```", "```5```", "```'s'```", "```a b```", "```X[Y[1, 2]]```"]
KW_POOL = [
    ("type", ["str", "int", "float", "bool", "loads", "json.loads", "complex", "dict", "Dataset", "lambda s: s", "'str'"]),
    ("help", ["'name of dataset.'", "'directory to look for models in'", "'Convert to numpy ndarrays. Defaults to 5'",
              "'x, defaults to \"a\".'", "'no stop Defaults to [1, 2]'", "''", "None", "5", "HELP", "'a' 'b'",
              "'Default value is True.'", "'multi\\nline help.'", "'Defaults to -3. And more.'"]),
    ("required", ["True", "False", "True", "None", "1", "0", "REQ", "''", "'no'", "not x", "[]", "a.b"]),
    ("default", ["'mnist'", "5", "-5", "2.5", "True", "False", "None", "[]", "()", "{}", "''", "[1, 2]", "foo", "a.b",
                 "np.array([1])", "'```(None)```'", "'```(lambda x: x)```'", "-x", "not True", "0", "'None'", "1e309"]),
    ("action", ["'append'", "'store_true'", "'store'", "APPEND", "None", "5"]),
    ("choices", ["('np', 'tf')", "['a', 'b']", "(1, 2)", "(np, tf)", "()", "('a',)", "CHOICES", "{'a', 'b'}", "(1.5, 'x')",
                 "(None, True)", "('it\\'s',)", "(a.b, c)", "(-1, 2)", "(foo(),)"]),
    ("nargs", ["'+'", "2"]),
    ("dest", ["'d'"]),
]


def gen_add_argument(rng, malformed=False, name=None):
    name = name or G.ident(rng, allow_kwargs=True)
    first = "'--%s'" % name
    if malformed and rng.random() < 0.12:
        first = rng.choice(["'-%s'" % name, "'%s'" % name, "5", "NAME", "None", "a.b", "('--x', 1)", "", "True", "-1",
                            "'--%s', '-x'" % name, "*names"])
    kws = []
    pool = KW_POOL if malformed else KW_POOL[:6]
    for k, vals in pool:
        p = {"type": 0.6, "help": 0.8, "required": 0.5, "default": 0.5, "action": 0.15, "choices": 0.2}.get(k, 0.1)
        if rng.random() < p:
            v = rng.choice(vals if malformed else vals[:max(3, len(vals) // 2)])
            kws.append("%s=%s" % (k, v))
    if malformed and rng.random() < 0.08:
        kws.append("**extra")
    if malformed and rng.random() < 0.08 and kws:
        kws.append(kws[0].split("=")[0] + "=None")  # repeated keyword: a SyntaxError, filtered by the caller
    rng.random() < 0.3 and rng.shuffle(kws)
    return "argument_parser.add_argument(%s)" % ", ".join([x for x in [first] if x] + kws)


def gen_argparse_src(rng, malformed=False):
    tags = []
    fname = rng.choice(["set_cli_args", "set_cli_args", "f"])
    arg0 = rng.choice(["argument_parser"] * 6 + ["self, argument_parser", "cls, argument_parser", "", "parser"])
    lines = ["def %s(%s):" % (fname, arg0)]
    have_doc = rng.random() < (0.6 if malformed else 0.95)
    if have_doc:
        ret = rng.choice([":returns: argument_parser, Train and tests dataset splits.", ":returns: argument_parser",
                          ":return: argument_parser, the result, with commas. Defaults to 5",
                          ":returns: argument_parser, x",
                          ":returns: no comma here"] + ([""] if malformed else []))
        rt = rng.choice(RTYPES if malformed else RTYPES[:6])
        doc = ["Set CLI arguments", "", ":param argument_parser: argument parser",
               ":type argument_parser: ```ArgumentParser```", ""]
        if ret:
            doc.append(ret)
        if rng.random() < 0.92:
            doc.append(":rtype: %s" % rt)
        lines.append('    """\n    %s\n    """' % "\n    ".join(doc))
        tags.append("doc")
    else:
        tags.append("doc:none")
    if rng.random() < 0.85:
        lines.append("    argument_parser.description = %s" % rng.choice(
            ["'Acquire from the official tensorflow_datasets model zoo'", "'desc'", "('a'\n        'b')", "''"]
            + (rng.choice([["None"], ["5"], ["DESC"], ["b'x'"], ["'first'\n    argument_parser.description = 'second'"]])
               if malformed else [])))
    n = rng.choice([0, 1, 2, 3, 4])
    names = []
    for _ in range(n):
        nm = G.ident(rng, allow_kwargs=True)
        if malformed and names and rng.random() < 0.15:
            nm = rng.choice(names)
            tags.append("duplicate-name")
        names.append(nm)
        lines.append("    " + gen_add_argument(rng, malformed, nm))
        if malformed and rng.random() < 0.1:
            lines.append("    " + rng.choice(["parser.add_argument('--zz')", "argument_parser.add_mutually_exclusive_group()",
                                              "x = 5", "if x:\n        pass", "argument_parser.other = 'y'",
                                              "argument_parser.description += 'more'", "argument_parser.add_argument"]))
    lines.append("    " + rng.choice(
        ["return argument_parser", "return argument_parser, (np.empty(0), np.empty(0))", "return argument_parser, 5",
         "return argument_parser, '```x```'", "return (argument_parser, -1)"]
        + (["return", "pass", "return (argument_parser,)", "return [argument_parser, 5]", "return argument_parser, a, b",
            "return (*a, b)", "return ()", "return argument_parser, 'it\\'s'"] if malformed else [])))
    return "\n".join(lines) + "\n", tags


# ------------------------------------------------------------------ generation: set_name_and_type
def _json_scalar(v):
    return ["float", repr(v)] if isinstance(v, float) else v


def gen_snt(rng):
    name = rng.choice([G.ident(rng, allow_kwargs=True), "kwargs", "**kwargs", "*args", "model_kwargs", "x"])
    p = {}
    r = rng.random()
    if r < 0.8:
        p["doc"] = rng.choice([G.clean_prose(rng), G.prose(rng), "", "Optional thing", "(Optional) x",
                               "two\n  lines  \n here ", "Optionally"])
    elif r < 0.85:
        p["doc"] = None
    r = rng.random()
    if r < 0.7:
        p["typ"] = rng.choice(TYPES[:20] + ["int, optional", "dict", "str, optional", "List[str"])
    elif r < 0.78:
        p["typ"] = None
    r = rng.random()
    if r < 0.35:
        p["default"] = {"s": _json_scalar(G.value(rng))}
    elif r < 0.45:
        p["default"] = {"s": rng.choice(["'quoted'", '"dq"', "None", "```(None)```", "```[1, 2]```", "```x```", "'", "''"])}
    elif r < 0.80:
        p["default"] = {"e": rng.choice(VALUES + [gen_valid_expr(rng) for _ in range(3)]), "fold": rng.random() < 0.3}
    elif r < 0.88:
        p["default"] = {"o": rng.choice(["[]", "()", "{}", "set()"])}
    return {"name": name, "param": p, "infer_type": rng.random() < 0.3, "word_wrap": rng.random() < 0.6}


# ------------------------------------------------------------------ gen
def gen(rng, n, tier="quick"):
    cases = []

    def add(fn, args, *tags):
        cases.append({"fam": NAME, "fn": fn, "args": args, "tags": list(tags)})

    def class_args(src, **kw):
        a = {"src": src, "as": "stmt" if rng.random() < 0.6 else "module", "class_name": None,
             "infer_type": rng.random() < 0.2, "word_wrap": rng.random() < 0.7, "fold": rng.random() < 0.15}
        if rng.random() < 0.15:
            a["class_name"] = rng.choice(["ConfigClass", "ConfigClass", "C", "Nope"])
        a.update(kw)
        return a

    def fn_args(src, **kw):
        a = {"src": src, "function_type": rng.choice([None, None, None, "static", "self", ""]),
             "function_name": rng.choice([None, "set_cli_args", "other"]), "fold": rng.random() < 0.15}
        a.update(kw)
        return a

    for i in range(n):
        r = rng.random()
        if r < 0.16:       # (a) emitted classes
            ir, tags = gen_ir.gen_ir(rng, clean=rng.random() < 0.4)
            src = emitted_class_src(ir, _emit_opts(rng))
            if src is None:
                continue
            add("parse_class", class_args(src), "emitted", *[t for t in tags if t.startswith(("params", "returns"))])
        elif r < 0.32:     # (a) emitted argparse functions
            ir, tags = gen_ir.gen_ir(rng, clean=rng.random() < 0.4)
            o = _emit_opts(rng)
            o["wrap_description"] = rng.random() < 0.3
            src = emitted_argparse_src(ir, o)
            if src is None:
                continue
            add("parse_argparse_ast", fn_args(src), "emitted", *[t for t in tags if t.startswith(("params", "returns"))])
        elif r < 0.44:     # (b) hand-written style classes
            src, tags = gen_class_src(rng)
            if _valid_stmt(src):
                add("parse_class", class_args(src), "handwritten", *tags)
        elif r < 0.54:     # (c) malformed classes
            src, tags = gen_class_src(rng, malformed=True)
            a = class_args(src)
            k = rng.random()
            if k < 0.08:
                a["src"] = src + "\n" + gen_class_src(rng)[0].replace("class ", "class Second", 1)
                a["as"] = "module"
                tags.append("two-classes")
            elif k < 0.12:
                a["src"] = "x = 1\n"
                a["as"] = "module"
                tags.append("no-class")
            elif k < 0.16:
                a["src"] = "def f(a):\n    pass\n"
                a["as"] = "stmt"
                tags.append("function-given")
            elif k < 0.19:
                a["src"] = src.replace(":", "(metaclass=M):", 1) if "(" not in src.split("\n")[0] else src
                tags.append("class-keywords")
            if _valid_stmt(a["src"]):
                add("parse_class", a, "malformed", *tags)
        elif r < 0.64:     # (b) hand-written style argparse functions
            src, tags = gen_argparse_src(rng)
            if _valid_stmt(src):
                add("parse_argparse_ast", fn_args(src), "handwritten", *tags)
        elif r < 0.74:     # (c) malformed argparse functions
            src, tags = gen_argparse_src(rng, malformed=True)
            if rng.random() < 0.04:
                src = rng.choice(["class C:\n    pass\n", "x = 1\n", "def f(a, /, argument_parser):\n    return argument_parser, 1\n",
                                  "async def f(argument_parser):\n    pass\n"])
            if _valid_stmt(src):
                add("parse_argparse_ast", fn_args(src), "malformed", *tags)
        elif r < 0.80:
            src = gen_add_argument(rng, malformed=rng.random() < 0.6) + "\n"
            if _valid_stmt(src):
                add("parse_out_param", {"src": src, "require_default": rng.random() < 0.4,
                                        "emit_default_doc": rng.random() < 0.5, "fold": rng.random() < 0.2}, "call")
        elif r < 0.88:
            add("pa_set_name_and_type", gen_snt(rng), "snt")
        elif r < 0.96:
            src = gen_expr(rng)
            if _valid_expr(src):
                fold = rng.random() < 0.3
                add("show_expr", {"src": src, "fold": fold}, "expr")
                if rng.random() < 0.5:
                    add("pa_get_value", {"src": src, "fold": fold}, "expr")
                if rng.random() < 0.5:
                    add("pa_literal_eval", {"src": src, "fold": fold}, "expr")
        else:
            src = rng.choice(VALUES + TYPES)
            if _valid_expr(src):
                add("show_expr", {"src": src, "fold": False}, "pool")
                add("pa_get_value", {"src": src, "fold": False}, "pool")
                add("pa_literal_eval", {"src": src, "fold": False}, "pool")
    return cases


def _valid_stmt(src):
    try:
        ast.parse(src)
        return True
    except (SyntaxError, ValueError):
        return False


# ------------------------------------------------------------------ round-trip oracles (C02, C04)
NONE_LIKE = (None, "None", "```(None)```")
SCALAR_ZERO = {"int": 0, "float": 0.0, "str": "", "bool": False}


def _none_like(v):
    return not isinstance(v, (bool, int, float)) and v in NONE_LIKE


def _same_val(v, w):
    if _none_like(v):
        return _none_like(w)
    if type(v) is not type(w):
        return False
    if isinstance(v, float):
        return repr(v) == repr(w)
    return v == w


def _prose(p):
    return p.get("doc") or None


def _default_ok(pin, pout):
    """an explicit default is preserved with its Python type; an absent one may stay absent, become the zero value
    of the declared type, or None (the documented normalisation)"""
    if "default" in pin:
        return "default" in pout and _same_val(pin["default"], pout["default"])
    if "default" not in pout:
        return True
    w, t = pout["default"], pin.get("typ")
    if t in SCALAR_ZERO and type(w) is type(SCALAR_ZERO[t]) and w == SCALAR_ZERO[t]:
        return True
    return _none_like(w)


def _cmp_param(pin, pout, what, prefix):
    if pin.get("typ") != pout.get("typ"):
        what.append("%s: type %r came back as %r" % (prefix, pin.get("typ"), pout.get("typ")))
    if _prose(pin) != _prose(pout):
        what.append("%s: prose %r came back as %r" % (prefix, _prose(pin), _prose(pout)))
    if not _default_ok(pin, pout):
        what.append("%s: default %r came back as %r" % (prefix, pin.get("default", "<absent>"),
                                                        pout.get("default", "<absent>")))


def same_interface(a, b, kind):
    """list of differences between the input description a and the parsed-back b (empty = same interface)"""
    what = []
    an, bn = list(a["params"]), list(b.get("params") or {})
    if an != bn:
        what.append("names/order %r came back as %r" % (an, bn))
    for k in an:
        if k in (b.get("params") or {}):
            _cmp_param(a["params"][k], b["params"][k], what, k)
    ar = (a.get("returns") or {}).get("return_type")
    br = (b.get("returns") or {}).get("return_type")
    if kind == "argparse":
        if (a.get("doc") or "") != (b.get("doc") or ""):
            what.append("description %r came back as %r" % (a.get("doc"), b.get("doc")))
        if ar is not None and "default" in ar:     # C04 speaks of a return entry that carries a default
            if br is None:
                what.append("return entry lost")
            else:
                _cmp_param(ar, br, what, "return")
    else:
        if (ar is None) != (br is None):
            what.append("return entry %s" % ("lost" if br is None else "invented"))
        elif ar is not None:
            _cmp_param(ar, br, what, "return")
    return what


def round_trip(kind, ir, opts):
    """real emit -> ast.unparse -> ast.parse -> real parse.  returns (holds, what, parsed-or-None)"""
    m = impl()
    try:
        if kind == "class":
            node = m.emit.class_(_od(ir), emit_default_doc=opts["emit_default_doc"], word_wrap=opts["word_wrap"])
        else:
            node = m.emit.argparse_function(_od(ir), emit_default_doc=opts["emit_default_doc"],
                                            word_wrap=opts["word_wrap"],
                                            wrap_description=opts.get("wrap_description", False))
        src = ast.unparse(ast.fix_missing_locations(node))
    except Exception as e:  # noqa
        return False, "emitter raised %s" % type(e).__name__, None
    try:
        node2 = ast.parse(src).body[0]
    except Exception as e:  # noqa
        return False, "emitted text does not re-parse (%s)" % type(e).__name__, None
    try:
        if kind == "class":
            out = m.parse.class_(node2, word_wrap=opts["word_wrap"])
        else:
            out = m.parse.argparse_ast(node2)
    except Exception as e:  # noqa
        return False, "parser raised %s" % type(e).__name__, None
    what = same_interface(ir, out, kind)
    return (not what), "; ".join(what), out


def _one_param_ir(rng, p, returns=None):
    return {"name": None, "type": "static", "doc": G.clean_prose(rng, max_words=6), "params": {G.ident(rng): p},
            "returns": returns}


def gen_point(rng, kind):
    """an (ir, opts, tags) point of the supported domain; stratified: whole generated descriptions, single-parameter
    descriptions over every (type shape x prose shape x default kind), wider str / numeric values, long prose"""
    r = rng.random()
    tags = []
    if r < 0.45:
        ir, tags = gen_ir.gen_ir(rng, clean=rng.random() < 0.4)
    elif r < 0.80:
        p = gen_ir.gen_param(rng, tags)
        ir = _one_param_ir(rng, p)
        tags.append("single")
    elif r < 0.92:
        typ = rng.choice(["str", "Optional[str]", "int", "float", "bool", "Optional[int]", "List[str]", "List[int]",
                          "Literal['a', 'b']", "Union[str, int]", None])
        v = G.value(rng, kinds=("int", "float", "bool", "str", "str")) if typ is None or rng.random() < 0.3 else \
            (G.str_value(rng) if "str" in typ or "Literal" in typ else
             G.int_value(rng) if "int" in typ else G.float_value(rng) if "float" in typ else rng.choice([True, False]))
        p = {"doc": G.clean_prose(rng), "default": v}
        if typ is not None:
            p["typ"] = typ
        ir = _one_param_ir(rng, p)
        tags = ["wide-value", "typ:%s" % typ]
    else:
        p = {"doc": G.clean_prose(rng, min_words=10, max_words=22), "typ": rng.choice(["int", "str", "Optional[float]"])}
        if rng.random() < 0.6:
            p["default"] = {"int": 5, "str": "mnist", "Optional[float]": 0.5}[p["typ"]]
        ir = _one_param_ir(rng, p)
        ir["doc"] = G.clean_prose(rng, min_words=3, max_words=22)
        tags = ["long-prose"]
    opts = {"emit_default_doc": rng.random() < 0.5, "word_wrap": rng.random() < 0.5}
    if kind == "argparse":
        opts["wrap_description"] = rng.random() < 0.25
    return ir, opts, tags


def _wire_ok(ir):
    try:
        return is_ascii_text(dumps(irwire.enc_ir(_od(ir)))) or True
    except Exception:  # noqa
        return False


def _oracle(kind, rng, n):
    pts = [gen_point(rng, kind) for _ in range(n)]
    reqs = []
    for ir, o, _ in pts:
        if kind == "class":
            reqs.append(dumps([Sym("c02_class"), o["emit_default_doc"], o["word_wrap"], irwire.enc_ir(_od(ir))]))
        else:
            reqs.append(dumps([Sym("c04_class"), o["emit_default_doc"], o["word_wrap"], o["wrap_description"],
                               irwire.enc_ir(_od(ir))]))
    classes = run_model(reqs)
    failures, hist, seen, disagree, cmp_reqs, cmp_idx, results = [], collections.Counter(), set(), [], [], [], []
    for (ir, o, tags), c in zip(pts, classes):
        ce = loads(c)
        case = {"kind": kind, "ir": ir, "opts": o}
        if ce == "out-of-domain":
            hist["out-of-domain"] += 1
            results.append(None)
            continue
        cls = None if ce == "none" else unhx(ce[1])
        ok, what, out = round_trip(kind, ir, o)
        results.append((case, ok, out))
        if cls == "unmodelled":
            hist["skipped-unmodelled:" + ("holds" if ok else "fails")] += 1
            continue
        hist[("holds" if ok else "fails") + ":" + (cls or "in-guard")] += 1
        if cls is None:
            seen.add(json.dumps(case, sort_keys=True, default=str))
        if not ok:
            failures.append({"case": case, "what": what, "class": cls})
        if out is not None:
            try:
                w = dumps([Sym("same_interface" if kind == "class" else "same_interface_argparse"),
                           irwire.enc_ir(_od(ir)), irwire.enc_ir(out)])
                cmp_reqs.append(w)
                cmp_idx.append((case, ok, what))
            except Exception:  # noqa
                hist["relation-not-encodable"] += 1
    # the Coq relation (C02Spec.same_interface / C04Spec.same_interface_argparse) against the oracle's own
    for (case, ok, what), r in zip(cmp_idx, run_model(cmp_reqs)):
        if r not in ("true", "false") or (r == "true") != ok:
            disagree.append({"case": case, "coq_relation": r, "oracle_holds": ok, "what": what})
    return {
        "evaluations": len(pts),
        "distinct_nontrivial": len(seen),
        "rule": "descriptions from gen_ir (clean and general), single-parameter strata (type shape x prose shape x default "
                "kind), wider scalar values, long prose; x default text on/off x word-wrap on/off%s; real emit -> "
                "ast.unparse -> ast.parse -> real parse; same_interface after the permitted normalisation; non-trivial = "
                "distinct point inside the guard" % (" x wrap_description" if kind == "argparse" else ""),
        "failures": failures,
        "model_impl_property_disagreements": disagree,
        "histogram": dict(hist),
        "samples": [{"kind": kind, "ir": pts[i][0], "opts": pts[i][1]} for i in range(0, min(len(pts), 40), 8)],
    }


def oracle_class(rng, n):
    """C02 on the implementation; class of every failure from C02Spec.finding_class_C02 (None = violation)"""
    return _oracle("class", rng, n)


def oracle_argparse(rng, n):
    """C04 on the implementation; class of every failure from C04Spec.finding_class_C04 (None = violation)"""
    return _oracle("argparse", rng, n)


def check_case_roundtrip(case):
    """(ok, what) for a case dict of the two oracles"""
    ok, what, _ = round_trip(case["kind"], case["ir"], case["opts"])
    return ok, what


def _pretty(w):
    """wire text with the hex strings decoded (debugging aid)"""
    import re
    return re.sub(r"\bh((?:[0-9a-f]{2})*)\b", lambda mo: repr(bytes.fromhex(mo.group(1)).decode("latin-1")), w)


if __name__ == "__main__" and len(sys.argv) > 1 and sys.argv[1] == "oracle":
    import random
    for kind, f in (("class", oracle_class), ("argparse", oracle_argparse)):
        res = f(random.Random(int(sys.argv[3]) if len(sys.argv) > 3 else 1), int(sys.argv[2]))
        print(kind, {k: v for k, v in res.items() if k in ("evaluations", "distinct_nontrivial")})
        for k, v in sorted(res["histogram"].items()):
            print("   %-55s %d" % (k, v))
        bad = [f_ for f_ in res["failures"] if f_["class"] is None]
        print("   failures with class None:", len(bad), " relation disagreements:", len(res["model_impl_property_disagreements"]))
        for f_ in bad[:6]:
            print("   VIOLATION", json.dumps(f_, default=str)[:900])
        for d in res["model_impl_property_disagreements"][:4]:
            print("   DISAGREE", json.dumps(d, default=str)[:900])
elif __name__ == "__main__":
    import random
    import corr
    seed = int(sys.argv[2]) if len(sys.argv) > 2 else 1
    cs = gen(random.Random(seed), int(sys.argv[1]) if len(sys.argv) > 1 else 500)
    res = corr.run_family(sys.modules[__name__], cs)
    print({k: v for k, v in res.items() if k not in ("mismatches", "histogram")})
    byfn = collections.Counter(c["fn"] for c in cs)
    print(dict(byfn))
    print({k: v for k, v in res["histogram"].items() if k.startswith("unmodelled")})
    for mm in res["mismatches"][:int(os.environ.get("SHOW", "8"))]:
        print("-" * 70)
        print(json.dumps(mm["case"], indent=0)[:1500])
        print("MODEL", _pretty(mm["model"]))
        print("IMPL ", _pretty(mm["impl"]))
