"""Correspondence family `locate`: ast_utils.annotate_ancestry / find_in_ast / RewriteAtQuery.visit and the
independent resolver gen_module.resolve  vs  coq/model/Locate.v (annotate, find_in_ast_log, rewrite_visit, resolve).

Observations compared
  annotate     the whole tree with every statement's / arg's `_location` and `_idx`
  find_in_ast  the returned node WITH ITS IDENTITY (tree position at parse time) + the tree after the call
               (the `default` attributes the call attached)
  rewrite      the rewritten tree (identities, stale `_location`s and all), `replaced`, the final `replacement_node`
  resolve      gen_module.resolve (the judge of C15) vs the Coq specification `resolve`: position + node
Frame: `search` lists and the tree a replacement node is taken from are snapshotted and must be unchanged."""
import ast
import copy

from common import Sym, dumps, opt, outcome, impl
import astwire
import gen_module as GM

NAME = "locate"

NONE = Sym("none")


# ------------------------------------------------------------------ tree positions (identity)
def _is_block(v):
    """a nested statement list; after RewriteAtQuery it may also hold an ast.arg"""
    return isinstance(v, list) and v and all(isinstance(x, (ast.stmt, ast.arg)) for x in v)


def blocks_and_head(s):
    """astwire._blocks_and_head, except that a block stays a block when RewriteAtQuery has put an ast.arg into it"""
    blocks = []
    c = copy.copy(s)
    for f in getattr(s, "_fields", ()):
        v = getattr(s, f, None)
        if _is_block(v):
            blocks.append(v)
            setattr(c, f, [ast.Pass()])
        elif isinstance(v, list) and v and all(isinstance(x, ast.ExceptHandler) for x in v):
            hs = []
            for h in v:
                blocks.append(h.body)
                h2 = copy.copy(h)
                h2.body = [ast.Pass()]
                hs.append(h2)
            setattr(c, f, hs)
        elif isinstance(v, list) and v and all(type(x).__name__ == "match_case" for x in v):
            cs = []
            for h in v:
                blocks.append(h.body)
                h2 = copy.copy(h)
                h2.body = [ast.Pass()]
                cs.append(h2)
            setattr(c, f, cs)
    return astwire._unparse(c), blocks


def blocks_of(s):
    """nested statement blocks of an opaque statement, in astwire._blocks_and_head order"""
    return blocks_and_head(s)[1]


def is_func(s):
    return isinstance(s, ast.FunctionDef) and not getattr(s.args, "posonlyargs", None)


def is_class(s):
    return isinstance(s, ast.ClassDef) and not s.keywords


LEAVES = (ast.AnnAssign, ast.Assign, ast.Expr, ast.Return)


def paths(tree, root):
    """({id(node): position}, {tuple(position): node}, keepalive) with the scheme of Locate.annotate_stmt"""
    d, inv, keep = {}, {}, []

    def put(n, p):
        d[id(n)] = p
        inv[tuple(p)] = n
        keep.append(n)

    def stmt(s, p):
        put(s, p)
        if is_func(s):
            for k, a in enumerate(s.args.args):
                put(a, p + [0, k])
            for k, a in enumerate(s.args.kwonlyargs):
                put(a, p + [1, k])
            for j, x in enumerate(s.body):
                stmt(x, p + [2, j])
        elif is_class(s):
            for j, x in enumerate(s.body):
                stmt(x, p + [j])
        elif isinstance(s, LEAVES):
            pass
        else:
            for b, blk in enumerate(blocks_of(s)):
                for j, x in enumerate(blk):
                    stmt(x, p + [b, j])

    for j, s in enumerate(tree.body):
        stmt(s, root + [j])
    return d, inv, keep


# ------------------------------------------------------------------ annotated wire (mirror of Locate.enc_astmt)
class Enc:
    def __init__(self, pos, ids=True):
        self.pos, self.ids = pos, ids

    def pid(self, n):
        return list(self.pos.get(id(n), [])) if self.ids else []

    @staticmethod
    def loc(n):
        if not hasattr(n, "_location"):
            return NONE
        l = n._location
        if not isinstance(l, list) or not all(isinstance(x, str) for x in l):
            return [Sym("some"), [Sym("not-a-str-list")]]
        return [Sym("some"), list(l)]

    def aarg(self, a):
        idx = getattr(a, "_idx", None)
        return [Sym("aarg"), self.pid(a), self.loc(a), opt(idx), opt(getattr(a, "default", None), astwire.enc_expr),
                a.arg, opt(a.annotation, astwire.enc_expr)]

    def adefault(self, d):
        if isinstance(d, str):
            return [Sym("draw"), d]
        if isinstance(d, ast.arg):
            return [Sym("darg"), self.aarg(d)]
        return [Sym("dexpr"), astwire.enc_expr(d)]

    def aarguments(self, a):
        return [[self.aarg(x) for x in a.args], [self.adefault(x) for x in a.defaults],
                [self.aarg(x) for x in a.kwonlyargs], [opt(x, astwire.enc_expr) for x in a.kw_defaults],
                opt(a.vararg, astwire.enc_arg), opt(a.kwarg, astwire.enc_arg)]

    def astmt(self, s):
        if isinstance(s, ast.arg):
            return [Sym("argstmt"), self.aarg(s)]
        if is_func(s):
            return [Sym("afunc"), self.pid(s), self.loc(s), s.name, self.aarguments(s.args),
                    [self.astmt(x) for x in s.body], [astwire.enc_expr(x) for x in s.decorator_list],
                    opt(s.returns, astwire.enc_expr)]
        if is_class(s):
            return [Sym("aclass"), self.pid(s), self.loc(s), s.name, [astwire.enc_expr(x) for x in s.bases],
                    [self.astmt(x) for x in s.body], [astwire.enc_expr(x) for x in s.decorator_list]]
        if isinstance(s, ast.AnnAssign):
            return [Sym("aannassign"), self.pid(s), self.loc(s), astwire.enc_expr(s.target),
                    astwire.enc_expr(s.annotation), opt(s.value, astwire.enc_expr)]
        if isinstance(s, ast.Assign):
            return [Sym("aassign"), self.pid(s), self.loc(s), [astwire.enc_expr(x) for x in s.targets],
                    astwire.enc_expr(s.value)]
        if isinstance(s, ast.Expr):
            return [Sym("aexpr"), self.pid(s), astwire.enc_expr(s.value)]
        if isinstance(s, ast.Return):
            return [Sym("areturn"), self.pid(s), opt(s.value, astwire.enc_expr)]
        if isinstance(s, ast.AST):
            head, blocks = blocks_and_head(s)
            return [Sym("aother"), self.pid(s), type(s).__name__, head,
                    [[self.astmt(x) for x in b] for b in blocks]]
        return [Sym("aother"), [], "non-ast", repr(type(s).__name__), []]

    def amodule(self, m):
        return [self.astmt(x) for x in m.body]

    def anode(self, n):
        if isinstance(n, ast.Module):
            return [Sym("module"), self.amodule(n)]
        if isinstance(n, ast.arg):
            return [Sym("arg"), self.aarg(n)]
        return [Sym("stmt"), self.astmt(n)]


def view(n, pos):
    """(position, plain node) of a node returned by find_in_ast / resolve"""
    if isinstance(n, ast.Module):
        return [[], [Sym("module"), astwire.enc_module(n)]]
    if isinstance(n, ast.arg):
        return [list(pos.get(id(n), [])), [Sym("arg"), astwire.enc_arg(n)]]
    return [list(pos.get(id(n), [])), [Sym("stmt"), astwire.enc_stmt(n)]]


# ------------------------------------------------------------------ generation
SPECIAL = [
    "def helper(a, b=2):\n    pass\nclass C:\n    attr: int = 5\n    def method(self, a, b=3, *, k=1):\n        pass\n",
    "class C:\n    def method(self, a, b=3, *, k=1):\n        pass\ndef helper(a, b=2):\n    pass\n",
    "a = b = 1\nc.d = 2\ne.f: int = 3\n(g, h) = (1, 2)\nx = y.z = 4\n",
    "if True:\n    def f(a): pass\n    x = 1\nelse:\n    class C:\n        y: int = 2\nfor i in range(3):\n    z = i\n",
    "class C:\n    class D:\n        z: int = 1\n        w = 2\n        def g(self, q): pass\n        class E:\n            v: str = 'v'\n",
    "def f(a, b):\n    def g(c):\n        pass\n    class L:\n        m = 1\n    return g\n",
    "class C:\n    a = 1\nclass D:\n    a = 1\n    def C(self, a): pass\n",
    "def f(a=1, b=2): pass\ndef g(a, b=2, c=3): pass\ndef h(self, x=1): pass\ndef k(cls): pass\n",
    "x = 'a'\nclass C:\n    y = 'b'\n    z: Literal['a', 'b'] = 'a'\n",
    "try:\n    import x\nexcept ImportError as e:\n    x = None\n",
    "async def f(a):\n    pass\nclass C:\n    async def m(self, b): pass\n",
    "def f(a, /, b): pass\n",
    "class C(metaclass=M):\n    a = 1\n",
    "with open('f') as fh:\n    data = fh.read()\n    def inner(p): pass\nwhile False:\n    q: int = 0\n",
    "class C:\n    '''Doc.'''\n    x: int = 1\n    def C(self): pass\n    def x2(self, C): pass\n",
    "a: int = 1\nclass a:\n    b = 2\ndef a(b): pass\n",
    "class a:\n    b = 2\na: int = 1\n",
    "def f(): pass\ndef g(x): pass\nclass K:\n    def f(self, g): pass\n    g: int = 0\n",
    "@dec('a')\nclass C(Base('b')):\n    x = 1\n",
    "class C:\n    def m(self, a, b=4): pass\n    def n(a, b=1, *, c, d=2, **kw): pass\n",
    "class P:\n    from os import sep, linesep as eol\n    root: str = '/'\n    def join(self, sep: str = '/'): pass\nsep: str = ','\neol: str = 'LF'\n",
    "import x, y as z\nfrom m import f, C as D\ndef f(x): pass\nclass C:\n    import y\n    y: int = 1\nx = 1\nz = 2\n",
]

# directed rewrite stream: argument replacement with every kind of replacement node
DIRECTED_OUT = [
    "def f(a=1, b=2): pass\n",
    "def f(a, b=2, c=3): pass\n",
    "class C:\n    def m(self, a, b=4): pass\n    def n(self): pass\n",
    "class C:\n    def m(cls, a): pass\n",
    "def f(a, *, k: int = 2, j=3): pass\n",
    "def f(): pass\n",
    "def f(a, b): pass\ndef g(a=1): pass\nclass f:\n    a: int = 0\n",
    "if True:\n    def f(a=1): pass\nclass C:\n    if True:\n        def f(a=2): pass\n    f: int = 1\n",
    "a: int = 1\nb = 2\nclass C:\n    a: str = 'x'\n    b = 3\n",
]
DIRECTED_REPL = [
    "a: int\nb: str = 's'\nc.d: int = 1\nk: float = 2.5\n",
    "a = 5\nb = c = 6\nc.d = 7\n(a, b) = (1, 2)\nb, = [1]\nk = a = 0\n",
    "def f(a: str = 'x', b=1, *, k: bool = True): pass\ndef a(): pass\n",
    "class a:\n    b: int = 1\nimport a\na\n",
]

EXTRA_SEGS = ["a", "b", "x", "self", "C", "D", "f", "g", "method", "helper", "zzz", "", "K", "name", "attr", "k", "z"]


def _queries(rng, tree, k):
    locs = [p for p, _ in GM.all_locations(tree)]
    out = []
    for _ in range(k):
        r = rng.random()
        if locs and r < 0.55:
            out.append((list(rng.choice(locs)), "existing"))
        elif locs and r < 0.85:
            q = list(rng.choice(locs))
            op = rng.choice(["drop-head", "drop-last", "append", "swap", "replace-last", "prepend", "concat"])
            if op == "drop-head":
                q = q[1:]
            elif op == "drop-last":
                q = q[:-1]
            elif op == "append":
                q = q + [rng.choice(EXTRA_SEGS)]
            elif op == "swap" and len(q) >= 2:
                q[-1], q[-2] = q[-2], q[-1]
            elif op == "replace-last":
                q[-1] = rng.choice(EXTRA_SEGS)
            elif op == "prepend":
                q = [rng.choice(EXTRA_SEGS)] + q
            else:
                q = q + list(rng.choice(locs))
            out.append((q, "perturbed"))
        else:
            out.append(([rng.choice(EXTRA_SEGS) for _ in range(rng.choice([0, 1, 1, 2, 2, 3, 4]))], "random"))
    return out


# hand-written modules in which a nested scope repeats an EARLIER scope (same class names, same member names): a
# settings class used on its own and again inside an application class, two / three classes deep
DEEP = [
    "class Options:\n    verbose: bool = False\n    class Net:\n        port: int = 80\n        host = 'a'\n"
    "        def bind(self, host: str, port: int = 80, *, retry: int = 1):\n            return port\n"
    "class App:\n    verbose: bool = True\n    class Options:\n        verbose: bool = True\n        class Net:\n"
    "            port: int = 8080\n            host = 'b'\n"
    "            def bind(self, host: str, port: int = 8080, *, retry: int = 3):\n                return port\n"
    "    class Net:\n        port: int = 1\n",
    "def make(level: int = 0):\n    return level\nclass Level:\n    level: int = 1\n    def set(self, level: int):\n        pass\n"
    "class Log:\n    class Level:\n        level: int = 2\n        def set(self, level: int):\n            pass\n"
    "    class File:\n        class Level:\n            level: int = 3\n            def set(self, level: int):\n                pass\n"
    "level: int = 4\n",
]


def _nested_classes(tree):
    """[(path, ClassDef, index of its top-level ancestor)] of the classes that sit inside a class (inside a class ...)"""
    out = []

    def rec(node, path, top):
        for j, s in enumerate(node.body):
            if isinstance(s, ast.ClassDef):
                t = j if top is None else top
                if path:
                    out.append((path + [s.name], s, t))
                rec(s, path + [s.name], t)
    rec(tree, [], None)
    return out


def echo_scopes(rng, src):
    """src with one of its nested classes (C.D, C.D.E) defined once more in an EARLIER scope of the module: on its own at
    module level, or wrapped in a class named like its parent (D, or C.D for C.D.E, or X.D.E), before the definition it
    repeats or inside an earlier top-level class.  The members keep their names; half of the time their values differ.
    So the last two / three segments of a deep location also name something earlier in the file.
    -> (text, path of the repeated class) or (src, None) when the module has no nested class / the names are taken"""
    try:
        tree = ast.parse(src)
    except SyntaxError:
        return src, None
    nested = _nested_classes(tree)
    if not nested:
        return src, None
    deepest = max(len(p) for p, _, _ in nested)
    path, node, top = rng.choice([c for c in nested if len(c[0]) == deepest] if rng.random() < 0.6 else nested)
    twin = copy.deepcopy(node)
    # (a docstring of several lines is indented for the depth it was written at: the copy, which sits at another depth,
    # keeps the first line - how a formatter re-indents docstrings is not the subject here)
    for s in ast.walk(twin):
        b = getattr(s, "body", None)
        if isinstance(s, (ast.ClassDef, ast.FunctionDef)) and b and isinstance(b[0], ast.Expr) \
                and isinstance(b[0].value, ast.Constant) and isinstance(b[0].value.value, str) and "\n" in b[0].value.value:
            b[0].value = ast.Constant(value=b[0].value.value.split("\n")[0])
    if rng.random() < 0.5:
        for s in ast.walk(twin):
            if isinstance(s, (ast.AnnAssign, ast.Assign)) and isinstance(getattr(s, "value", None), ast.Constant) \
                    and isinstance(s.value.value, (int, float)) and not isinstance(s.value.value, bool):
                s.value = ast.Constant(value=s.value.value + rng.randint(1, 9))
    if rng.random() < 0.45:
        twin = ast.ClassDef(name=path[-2], bases=[], keywords=[], body=[twin], decorator_list=[])
        if hasattr(ast, "TypeVar"):
            twin.type_params = []
    # where: module level, at or before the top-level ancestor (after a leading docstring / imports); or the end of an
    # earlier top-level class
    lo = 0
    while lo < len(tree.body) and (isinstance(tree.body[lo], (ast.Import, ast.ImportFrom)) or (
            lo == 0 and isinstance(tree.body[0], ast.Expr) and isinstance(tree.body[0].value, ast.Constant))):
        lo += 1
    earlier = [s for s in tree.body[:top] if isinstance(s, ast.ClassDef)]
    if earlier and rng.random() < 0.3:
        host = rng.choice(earlier)
        if any(nm == twin.name for nm, _ in GM._members(host)):
            return src, None
        host.body.append(twin)
    else:
        if any(nm == twin.name for nm, _ in GM._members(tree)):
            return src, None
        tree.body.insert(rng.randint(min(lo, top), top), twin)
    try:
        text = ast.unparse(ast.fix_missing_locations(tree)) + "\n"
        ast.parse(text)
    except Exception:  # noqa
        return src, None
    return text, path


def local_twin(rng, src):
    """src with one of its classes (top-level or nested) defined once more as a LOCAL class of a function that comes
    EARLIER in the module (a factory, a test helper that builds a class of the same name with the same members): an
    existing top-level function before the class, or a new one.  A local class is not a location of the module; its
    members are spelled like the members of the class it repeats.  -> (text, path of the class) or (src, None)"""
    try:
        tree = ast.parse(src)
    except SyntaxError:
        return src, None
    cands = [([s.name], s, j) for j, s in enumerate(tree.body) if isinstance(s, ast.ClassDef)] + _nested_classes(tree)
    if not cands:
        return src, None
    path, node, top = rng.choice(cands)
    twin = copy.deepcopy(node)
    for s in ast.walk(twin):
        b = getattr(s, "body", None)
        if isinstance(s, (ast.ClassDef, ast.FunctionDef)) and b and isinstance(b[0], ast.Expr) \
                and isinstance(b[0].value, ast.Constant) and isinstance(b[0].value.value, str) and "\n" in b[0].value.value:
            b[0].value = ast.Constant(value=b[0].value.value.split("\n")[0])
    funcs = [s for s in tree.body[:top] if is_func(s) and not s.decorator_list]
    ret = ast.Return(value=ast.Name(id=twin.name, ctx=ast.Load()))
    if funcs and rng.random() < 0.5:
        host = rng.choice(funcs)
        k = 1 if host.body and isinstance(host.body[0], ast.Expr) and isinstance(host.body[0].value, ast.Constant) else 0
        host.body.insert(k, twin)
    else:
        taken = {nm for nm, _ in GM._members(tree)}
        name = next((n for n in rng.sample(["make", "build", "factory", "fixture", "_local"], 5) if n not in taken), None)
        if name is None:
            return src, None
        args = ast.arguments(posonlyargs=[], args=[], vararg=None, kwonlyargs=[], kw_defaults=[], kwarg=None, defaults=[])
        host = ast.FunctionDef(name=name, args=args, body=[twin, ret], decorator_list=[], returns=None, type_comment=None)
        if hasattr(ast, "TypeVar"):
            host.type_params = []
        lo = 0
        while lo < len(tree.body) and (isinstance(tree.body[lo], (ast.Import, ast.ImportFrom)) or (
                lo == 0 and isinstance(tree.body[0], ast.Expr) and isinstance(tree.body[0].value, ast.Constant))):
            lo += 1
        tree.body.insert(rng.randint(min(lo, top), top), host)
    try:
        text = ast.unparse(ast.fix_missing_locations(tree)) + "\n"
        ast.parse(text)
    except Exception:  # noqa
        return src, None
    return text, path


def deep_module(rng, max_items=None):
    """a module three classes deep in which a nested scope repeats an earlier one; one in four also has a class repeated
    as a local class of an earlier function -> (text, kind)"""
    text, kind = _deep_module(rng, max_items)
    if rng.random() < 0.25:
        text2, path = local_twin(rng, text)
        if path is not None:
            return text2, kind + "+local"
    return text, kind


def _deep_module(rng, max_items=None):
    if rng.random() < 0.12:
        return rng.choice(DEEP), "deep-special"
    for _ in range(40):
        src = GM.gen_module(rng, depth=3, max_items=max_items or rng.choice([6, 8, 10]))
        text, path = echo_scopes(rng, src)
        if path is not None:
            return text, "deep-echo"
    return rng.choice(DEEP), "deep-special"


def local_module(rng, tier="quick"):
    """an ordinary generated module with one of its classes repeated as a local class of an earlier function"""
    for _ in range(40):
        src = GM.gen_module(rng, depth=rng.choice([1, 2, 2, 3]), max_items=rng.choice([4, 6, 8]))
        text, path = local_twin(rng, src)
        if path is not None:
            return text, "local-twin"
    return rng.choice(SPECIAL), "special"


def _module(rng, tier):
    if rng.random() < 0.1:
        return deep_module(rng)
    if rng.random() < 0.06:
        return local_module(rng, tier)
    if rng.random() < 0.12:
        return rng.choice(SPECIAL), "special"
    depth = rng.choice([1, 2, 2, 3]) if tier == "quick" else rng.choice([1, 2, 3, 4, 5])
    return GM.gen_module(rng, depth=depth, max_items=rng.choice([3, 6, 8]),
                         shadow_imports=rng.choice([0.0, 0.0, 0.0, 0.2])), "generated"


def gen(rng, n, tier="quick"):
    cases = []

    def add(fn, args, *tags):
        cases.append({"fam": NAME, "fn": fn, "args": args, "tags": list(tags)})

    st = impl().source_transformer
    while len(cases) < n:
        if rng.random() < 0.08:
            src, rsrc = rng.choice(DIRECTED_OUT), rng.choice(DIRECTED_REPL)
            tree, rtree = st.ast_parse(src), st.ast_parse(rsrc)
            _, inv, _keep = paths(rtree, [1])
            for q, tag in _queries(rng, tree, 4):
                add("rewrite", [q, src, rsrc, list(rng.choice(list(inv)))], "directed", tag, "repl-directed")
            continue
        src, kind = _module(rng, tier)
        tree = st.ast_parse(src)
        add("annotate", [src], kind)
        for q, tag in _queries(rng, tree, 4):
            add("find_in_ast", [q, src], kind, tag)
            if rng.random() < 0.5:
                add("resolve", [q, src], kind, tag)
            if rng.random() < 0.25:
                add(rng.choice(["emit_arg", "emit_ann_assign"]), [q, src], kind, tag)
        # rewrite: replacement taken from a second module
        rsrc, rkind = _module(rng, tier)
        rtree = st.ast_parse(rsrc)
        _, inv, _keep = paths(rtree, [1])
        positions = [list(p) for p in inv]
        if positions:
            for q, tag in _queries(rng, tree, 3):
                if rng.random() < 0.75:
                    rl = GM.all_locations(rtree)
                    d, _, _k2 = paths(rtree, [1])
                    cand = [d[id(nd)] for _, nd in rl if id(nd) in d]
                    rp = rng.choice(cand) if cand else rng.choice(positions)
                else:
                    rp = rng.choice(positions)
                add("rewrite", [q, src, rsrc, rp], kind, tag, "repl-" + type(inv[tuple(rp)]).__name__)
    return cases[:n]


# ------------------------------------------------------------------ wire
def _plain(src):
    return astwire.enc_module(impl().source_transformer.ast_parse(src))


def request(case):
    fn, a = case["fn"], case["args"]
    if fn == "annotate":
        return dumps([Sym(fn), astwire.enc_module(ast.parse(a[0]))])
    if fn in ("find_in_ast", "resolve", "find_view", "emit_arg", "emit_ann_assign"):
        return dumps([Sym(fn), list(a[0]), _plain(a[1])])
    if fn == "rewrite":
        return dumps([Sym(fn), list(a[0]), _plain(a[1]), _plain(a[2]), list(a[3])])
    raise KeyError(fn)


def run_impl(case):
    m = impl()
    au, st = m.ast_utils, m.source_transformer
    fn, a = case["fn"], copy.deepcopy(case["args"])
    if fn == "annotate":
        tree = ast.parse(a[0])
        pos, _, _keep = paths(tree, [])
        return dumps(outcome(lambda: au.annotate_ancestry(tree), Enc(pos).amodule))
    if fn == "find_in_ast":
        q, src = a
        tree = st.ast_parse(src)
        pos, _, _keep = paths(tree, [])
        q0 = copy.deepcopy(q)
        e = Enc(pos)
        res = outcome(lambda: au.find_in_ast(q, tree), lambda r: [opt(r, e.anode), e.amodule(tree)])
        if q != q0:
            return dumps([Sym("frame-violation"), Sym("search-mutated")])
        return dumps(res)
    if fn == "find_view":
        q, src = a
        tree = st.ast_parse(src)
        pos, _, _keep = paths(tree, [])
        return dumps(outcome(lambda: au.find_in_ast(q, tree), lambda r: opt(r, lambda n: view(n, pos))))
    if fn in ("emit_arg", "emit_ann_assign"):
        q, src = a
        tree = st.ast_parse(src)
        pos, _, _keep = paths(tree, [])
        e = Enc(pos)

        def go():
            node = au.find_in_ast(q, tree)        # None / Module: both emitters raise NotImplementedError
            return getattr(au, fn)(node)
        return dumps(outcome(go, e.aarg if fn == "emit_arg" else e.astmt))
    if fn == "resolve":
        q, src = a
        tree = st.ast_parse(src)
        pos, _, _keep = paths(tree, [])
        return dumps(outcome(lambda: GM.resolve(q, tree), lambda r: opt(r, lambda n: view(n, pos))))
    if fn == "rewrite":
        q, src, rsrc, rp = a
        tree, rtree = st.ast_parse(src), st.ast_parse(rsrc)
        p0, _, _k0 = paths(tree, [0])
        p1, inv1, _k1 = paths(rtree, [1])
        pos = dict(p0)
        pos.update(p1)
        e = Enc(pos)
        repl = inv1[tuple(rp)]
        q0 = copy.deepcopy(q)
        before = dumps(e.amodule(rtree))
        v = au.RewriteAtQuery(q, repl)
        res = outcome(lambda: v.visit(tree), lambda g: [e.anode(g), bool(v.replaced), e.anode(v.replacement_node)])
        if q != q0:
            return dumps([Sym("frame-violation"), Sym("search-mutated")])
        if dumps(e.amodule(rtree)) != before:
            return dumps([Sym("frame-violation"), Sym("replacement-source-tree-mutated")])
        return dumps(res)
    raise KeyError(fn)


def nontrivial(case):
    fn, a = case["fn"], case["args"]
    if fn == "annotate":
        return "def " in a[0] or "class " in a[0]
    return len(a[0]) >= 1
