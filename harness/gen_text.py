"""Generators of structured, mostly-valid text fragments: prose, values, types, names.
Every choice comes from the one random.Random passed in."""
import keyword

WORDS = (
    "name of the dataset model batch size learning rate number epochs path to directory output input file "
    "whether use enable kind optimizer loss function metric callback value list items per step seed random "
    "verbose log level interval the a an for in with and or when if then is are used given"
).split()
SPICE = [
    "(see docs)", "e.g., 0.5", "`code`", "i.e.", "0.5", "1.25", "v2.0", "(optional)", "optional", "default",
    "defaults", "Defaults", "the default", "by default", "[a, b]", "{x}", "foo(bar)", "a:b", "key: value", "x, y",
    "end.", "3.", "etc.", "Default", "DEFAULT", "to", "value is",
]
ANNOUNCE = ["Defaults to ", "defaults to ", "Defaults to\n", "Default value is ", "Default:", "default: ",
            "DEFAULTS TO ", "default value is "]
SCALAR_TYPES = ["str", "int", "float", "bool"]
NAMES = ["dataset_name", "tfds_dir", "K", "as_numpy", "data_loader_kwargs", "batch_size", "lr", "x", "y1", "alpha",
         "num_epochs", "model", "optimizer", "loss", "verbose", "seed", "path", "out_dir", "n", "flag", "items", "mode"]


def word(rng):
    return rng.choice(WORDS)


def prose(rng, spice=0.25, min_words=1, max_words=9, terminal=None):
    """a sentence-like fragment.  terminal: None=random, or one of '', '.', ','"""
    n = rng.randint(min_words, max_words)
    ws = []
    for _ in range(n):
        if rng.random() < spice:
            ws.append(rng.choice(SPICE))
        else:
            ws.append(word(rng))
    s = " ".join(ws)
    if rng.random() < 0.3:
        s = s[0].upper() + s[1:]
    if terminal is None:
        terminal = rng.choice(["", ".", ".", ".", ","])
    s = s.rstrip(".,") + terminal if terminal else s
    return s


def clean_prose(rng, **kw):
    """prose with no spice and a terminal full stop: the shape the proved region covers"""
    return prose(rng, spice=0.0, terminal=kw.pop("terminal", "."), **kw)


def ident(rng, allow_kwargs=False):
    while True:
        s = rng.choice(NAMES) if rng.random() < 0.7 else \
            rng.choice("abcdefghijklmnopqrstuvwxyz_") + "".join(
                rng.choice("abcdefghijklmnopqrstuvwxyz0123456789_") for _ in range(rng.randint(0, 8)))
        if keyword.iskeyword(s) or s in ("return_type", "self", "cls", "None", "True", "False"):
            continue
        if s.endswith("kwargs") and not allow_kwargs:
            continue
        return s


def int_value(rng):
    return rng.choice([0, 1, 2, 5, 7, 10, 32, 100, 255, 1000, 65536, -1, -5, -100, 12345678901234, -42])


def float_value(rng):
    return rng.choice([0.0, 0.5, 1.0, 2.5, 0.1, 0.001, 1e-07, 3.14159, -0.5, -2.0, 100.0, 1e+20, float("inf"),
                       0.25, 12.75, 1e-05, 0.0001, 123456.789])


def str_value(rng):
    return rng.choice(["mnist", "adam", "~/tensorflow_datasets", "a.b", "hello world", "", "x", "v1.0", "path/to/file",
                       "it's", 'say "hi"', "5", "True", "None", "a, b", "(paren)", "[1]", "relu", "mean_squared_error",
                       "a.", ".hidden", "with.dots.inside", "UPPER", "defaults to x", "trailing ", " leading", "call(x).", "f(a, b)"])


def code_value(rng):
    return "```" + rng.choice(["[1, 2]", "(1, 2)", "{'a': 1}", "np.array([1])", "foo(bar=5)", "os.path.join('a', 'b')",
                               "(None)", "lambda x: x", "x.y", "-1", "[]", "1 + 2", "math.pi"]) + "```"


def value(rng, kinds=("none", "int", "float", "bool", "str", "code")):
    k = rng.choice(kinds)
    if k == "none":
        return None
    if k == "int":
        return int_value(rng)
    if k == "float":
        return float_value(rng)
    if k == "bool":
        return rng.choice([True, False])
    if k == "str":
        return str_value(rng)
    return code_value(rng)


def consistent_typ(rng, v, allow_none=True):
    """a declared type consistent with value v (or None = undeclared)"""
    if allow_none and rng.random() < 0.35:
        return None
    if v is None:
        return rng.choice(["Optional[str]", "Optional[int]", "Optional[float]", "Optional[List[str]]"])
    if isinstance(v, bool):
        return rng.choice(["bool", "bool", "Optional[bool]"])
    if isinstance(v, int):
        return rng.choice(["int", "int", "Optional[int]", "Union[int, float]"])
    if isinstance(v, float):
        return rng.choice(["float", "float", "Optional[float]"])
    if isinstance(v, str) and v.startswith("```"):
        return rng.choice(["List[int]", "Tuple[int, int]", "dict", "np.ndarray", "Callable[[int], int]", "object"])
    return rng.choice(["str", "str", "Optional[str]", "Literal['mnist', 'adam']", "Union[str, int]"])


def type_expr(rng, depth=0):
    r = rng.random()
    if depth >= 2 or r < 0.45:
        return rng.choice(SCALAR_TYPES + ["dict", "object", "Any", "np.ndarray", "tf.data.Dataset", "AnyStr"])
    r = rng.random()
    if r < 0.3:
        return "Optional[%s]" % type_expr(rng, depth + 1)
    if r < 0.5:
        return "List[%s]" % type_expr(rng, depth + 1)
    if r < 0.7:
        return "Literal[%s]" % ", ".join(repr(rng.choice(["a", "b", "mnist", "adam", "x y"]))
                                         for _ in range(rng.randint(1, 3)))
    if r < 0.85:
        return "Union[%s]" % ", ".join(type_expr(rng, depth + 1) for _ in range(rng.randint(2, 3)))
    return "Tuple[%s]" % ", ".join(type_expr(rng, depth + 1) for _ in range(rng.randint(1, 3)))


def junk_line(rng, n=30):
    alphabet = "abcdefDEFAULTS to:.,()[]{}`'\" \t\n0123456789-_*"
    return "".join(rng.choice(alphabet) for _ in range(rng.randint(0, n)))


def lengthen(rng, s, min_len=101, max_len=240):
    """the one-line prose s made longer than min_len characters by inserting plain words (no spice) before its terminal
    punctuation; the wording before the insertion point and the terminal are kept"""
    body = s.rstrip(".,")
    term = s[len(body):]
    target = rng.randint(min_len, max_len)
    out = body
    while len(out) + len(term) < target:
        out += (" " if out and not out.endswith(" ") else "") + word(rng)
    return out + term


LONG_TOKEN_KINDS = ["url", "path", "dotted", "snake", "hyphen", "digits"]


def long_token(rng, kind=None, min_len=101, max_len=180):
    """one whitespace-free token longer than min_len characters: a URL, a file-system path, a dotted or underscored
    identifier, a hyphenated compound, a digit string"""
    kind = kind or rng.choice(LONG_TOKEN_KINDS)
    target = rng.randint(min_len, max_len)
    head, sep, tail = {"url": ("https://storage.example.org/", "/", "/index.json"), "path": ("/opt/", "/", "/weights.h5"),
                       "dotted": ("pkg.", ".", ".Klass"), "snake": ("very_", "_", "_name"), "hyphen": ("well-", "-", "-known"),
                       "digits": ("", "", "")}[kind]
    parts = []
    while len(head) + len(sep.join(parts)) + len(tail) < target:
        parts.append("".join(rng.choice("0123456789") for _ in range(8)) if kind == "digits" else
                     (word(rng) + ("%02d" % rng.randint(0, 99) if rng.random() < 0.3 else "")))
    return head + sep.join(parts) + tail


DEGENERATE_STR_KINDS = ["blank", "blank", "blank", "quote-mark", "punct", "punct", "padded"]


def degenerate_str_value(rng, kind=None):
    """a str value with no word in it: only blanks/tabs (a separator, an indent), only quote marks, only punctuation, or
    a one-character token with outer padding.  ASCII, single line."""
    kind = kind or rng.choice(DEGENERATE_STR_KINDS)
    if kind == "blank":
        return rng.choice([" ", " ", "\t", "  ", "    ", "\t\t", " \t", "\t ", "        ",
                           "".join(rng.choice(" \t") for _ in range(rng.randint(1, 6)))])
    if kind == "quote-mark":
        return rng.choice(["'", '"', "''", '""', "' '", '" "', "'\"", "'''", '"""', "`", "``"])
    if kind == "punct":
        return "".join(rng.choice(",;:-_*#?!/|+=~@%&<>^$()[]{}.\\") for _ in range(rng.randint(1, 3)))
    c = rng.choice(["x", "-", ",", ":", "|", "0", "'x'", '"x"'])
    return rng.choice([" ", "  ", "\t"]) * rng.randint(0, 1) + c + rng.choice([" ", "  ", "\t"]) * rng.randint(0, 1) \
        if rng.random() < 0.3 else rng.choice([" ", "  ", "\t"]) + c + rng.choice([" ", "  ", "\t"])


# ---- prose whose tokens END (or begin) in punctuation: the characters a wrapped line can end in
SUSPENDED_HEADS = ["left-", "right-", "pre-", "post-", "row-", "column-", "single-", "double-", "upper-", "lower-",
                   "higher-", "mixed-", "over-", "under-", "short-", "long-", "2-", "3-", "1-,", "2-,", "header-", "read-",
                   "x-", "in-", "non-", "sub-", "multi-"]
SUSPENDED_LINKS = ["or", "and", "to", "then", "and/or"]
SUSPENDED_TAILS = ["right-aligned", "post-padding", "column-wise", "double-quoted", "lower-case", "mixed-rank",
                   "under-sampled", "long-lived", "3-dimensional", "body-rows", "write-only", "y-axis", "out-of-core",
                   "zero-based", "sub-sampled", "multi-label"]
EDGE_TAILS = [",", ";", ")", "!", "?", "/", "...", "-", "--", "'", '"', "]", "}", "%", "*", "+", "=", "&"]
EDGE_HEADS = ["(", "[", "'", '"', "-", "--", "~", "#", "*", "/", "+", "="]
EDGE_KINDS = ["suspended", "suspended", "suspended", "tail", "tail", "head", "lone"]


def edge_tokens(rng, kind=None):
    """a short run of prose tokens of which at least one ends (or begins) in punctuation while still being a token of
    its own: a suspended hyphen with its continuation (`left- or right-aligned`, `1-, 2- or 3-dimensional`), a word with
    a trailing / leading punctuation character (`items;`  `(see`  `rate/`), or a lone punctuation token (`-`, `/`, `&`)"""
    kind = kind or rng.choice(EDGE_KINDS)
    if kind == "suspended":
        heads = rng.sample(SUSPENDED_HEADS, rng.choice([1, 1, 1, 2]))
        out = []
        for h in heads[:-1]:
            out.append(h if h.endswith(",") else h + ",")
        out += [heads[-1].rstrip(","), rng.choice(SUSPENDED_LINKS), rng.choice(SUSPENDED_TAILS)]
        return out
    if kind == "tail":
        return [word(rng) + rng.choice(EDGE_TAILS)]
    if kind == "head":
        return [rng.choice(EDGE_HEADS) + word(rng)]
    return [rng.choice(["-", "--", "/", "&", "+", "=", "*", "|"])]


def edge_prose(rng, min_words=8, max_words=30, density=0.3, terminal=".", kinds=None):
    """one line of prose of plain words in which about `density` of the positions hold an edge_tokens run: whatever the
    width, some wrapped line ends (or starts) in one of them.  No spice, no default announcement, starts with a plain
    word; terminal as in clean_prose"""
    n = rng.randint(min_words, max_words)
    ws = [word(rng)]
    while len(ws) < n:
        if rng.random() < density:
            ws += edge_tokens(rng, rng.choice(kinds) if kinds else None)
        ws.append(word(rng))
    s = " ".join(ws)
    return s + terminal if terminal else s


# ---- shapes that proofs found inside the "no finding" regions of the round-trip classifiers (recorded finding classes of
#      C02 / C03 / C04: prose-exotic-blank, summary-quoted / help-quoted, summary-reads-as-section, type-text-not-docstring-safe)
# the ASCII characters str.splitlines splits at, the line feed apart (US, \x1f, is a blank but not a line boundary)
EXOTIC_BLANKS = ["\x0b", "\x0c", "\r", "\x1c", "\x1d", "\x1e"]


def exotic_blank_prose(rng, max_words=7):
    """clean prose (plain words, full stop) in which one or two inner positions hold a line boundary other than the line
    feed in place of the blank.  Never at either end (outer blanks are another shape)"""
    ws = [word(rng) for _ in range(rng.randint(2, max(2, max_words)))]
    seps = [" "] * (len(ws) - 1)
    for k in rng.sample(range(len(seps)), min(len(seps), rng.choice([1, 1, 1, 2]))):
        seps[k] = rng.choice(EXOTIC_BLANKS)
    return "".join(w + s for w, s in zip(ws, seps + [""])) + "."


def quoted_text(rng):
    """a one-line text that starts and ends with the same quote mark (more than two characters): a quoted word or phrase,
    or a sentence that merely begins and ends with quoted words"""
    q = rng.choice(["'", '"'])
    k = rng.random()
    if k < 0.45:
        return q + " ".join(word(rng) for _ in range(rng.randint(1, 4))) + q
    if k < 0.8:
        return "%s%s%s %s %s%s%s" % (q, word(rng), q, rng.choice(["and", "or", "then", "is not"]), q, word(rng), q)
    return q + clean_prose(rng, max_words=5) + q


def section_summary(rng):
    """a summary that holds a Google / numpydoc section header (what parse_docstring looks for when the docstring holds
    no ReST field token)"""
    w = " ".join(word(rng) for _ in range(rng.randint(1, 3)))
    t = rng.choice(["int", "str", "the result", "x: the thing", "np.ndarray"])
    k = rng.choice(["google-returns", "google-returns", "google-returns-inline", "google-args", "google-raises",
                    "numpydoc-returns", "numpydoc-parameters", "google-bare", "google-kwargs"])
    if k == "google-returns":
        s = "Returns:\n  " + t
    elif k == "google-returns-inline":
        s = "Returns: " + t
    elif k == "google-args":
        s = "Args:\n  %s: %s" % (ident(rng), clean_prose(rng, max_words=4))
    elif k == "google-kwargs":
        s = "Kwargs:\n  %s: %s" % (ident(rng), clean_prose(rng, max_words=4))
    elif k == "google-raises":
        s = "Raises:\n  ValueError"
    elif k == "numpydoc-returns":
        s = "Returns\n-------\n" + t
    elif k == "numpydoc-parameters":
        s = "Parameters\n----------\n%s : int\n  %s" % (ident(rng), clean_prose(rng, max_words=4))
    else:
        s = "Returns:"
    return (w.capitalize() + ".\n\n" + s) if rng.random() < 0.4 else s


# ---- Literal[...] types with degenerate members (round 5: shapes the choice handling of the emitters / parsers can lose)
LITERAL_PLAIN = ["np", "tf", "adam", "sgd", "mnist", "gzip", "bz2", "unix", "dos", "csv", "tsv", "mean", "sum"]
# kinds drawn by default; "squote" (a member that contains a single quote mark) is offered but NOT drawn by default: on the
# unchanged tree parse.argparse_ast re-spells Literal["it's", 'b'] as Literal['it's', 'b'] (a finding of its own)
DEGENERATE_LITERAL_KINDS = ["empty", "empty", "empty", "blank", "duplicate", "single", "dquote", "digits", "keyword-text",
                            "spaced", "plain"]


def degenerate_literal_members(rng, kind=None):
    """(members, kind): the str members of a Literal[...] type of which one is degenerate - the empty string, a blank
    string, a repeated member, the only member, a member holding double quote marks, text that reads as a number or as a
    keyword constant, a member with an inner blank or comma.  ASCII, printable, no backslash."""
    kind = kind or rng.choice(DEGENERATE_LITERAL_KINDS)
    plain = rng.sample(LITERAL_PLAIN, rng.randint(1, 3))
    if kind == "plain":
        return (plain if len(plain) > 1 else plain + [rng.choice([m for m in LITERAL_PLAIN if m not in plain])]), kind
    if kind == "single":
        return [rng.choice(plain + ["", " ", "x"])], kind
    if kind == "duplicate":
        ms = list(plain)
        ms.insert(rng.randint(0, len(ms)), rng.choice(plain))
        return ms, kind
    odd = {"empty": [""], "blank": [" ", "  ", "   "], "dquote": ['say "hi"', '"', 'a"b', '""'],
           "squote": ["it's", "'", "'q'"], "digits": ["5", "0", "-1", "2.5", "007"],
           "keyword-text": ["None", "True", "False"], "spaced": ["a b", "a,b", "x, y", "a b c"]}[kind]
    ms = list(plain)
    ms.insert(rng.randint(0, len(ms)), rng.choice(odd))
    return ms, kind


def literal_typ(members):
    """the type text ast.unparse prints for Literal[<the str members>]"""
    return "Literal[%s]" % ", ".join(repr(m) for m in members)


# ---- prose that holds a word followed by a colon that reads like a section header of some docstring style
# headers of the Google style guide, of numpydoc, and common hand-written ones; those that are section tokens of
# docstring_utils.TOKENS on the unchanged tree are "Args:", "Kwargs:", "Raises:", "Returns:" (google) - the rest are plain prose
HEADER_WORDS = ["Note:", "Notes:", "Yields:", "Example:", "Examples:", "Raises:", "See Also:", "See also:", "Attributes:",
                "Warning:", "Warns:", "Todo:", "References:", "Usage:", "Args:", "Returns:", "Kwargs:", "Arguments:",
                "Parameters:", "Methods:", "Return:", "Yield:", "Keyword Args:", "Other Parameters:", "Hint:", "Tip:"]
# the same words without the colon (a numpydoc header is the bare word over a dashed line; in running prose it is a word)
HEADER_BARE = ["Note", "Notes", "Yields", "Examples", "Raises", "See Also", "Attributes", "Warnings", "References", "Returns",
               "Parameters"]


def header_word_prose(rng, words=None, max_words=6, terminal="."):
    """one line of clean prose (plain words, terminal punctuation) in which a section-header look-alike stands as a word of
    the sentence: after a first sentence (`Number of epochs. Note: must be positive.`), leading (`Example: the name.`) or
    inline (`the split, see Examples: train`).  Never ends in the colon, never at an end with blanks."""
    w = rng.choice(words or HEADER_WORDS)
    a = " ".join(word(rng) for _ in range(rng.randint(1, max_words)))
    b = " ".join(word(rng) for _ in range(rng.randint(1, max_words)))
    k = rng.random()
    if k < 0.5:
        s = "%s. %s %s" % (a[0].upper() + a[1:], w, b)
    elif k < 0.75:
        s = "%s %s" % (w, b)
    else:
        s = "%s, %s %s %s" % (a, rng.choice(["see", "cf.", "as in", "and"]), w, b)
    return s + terminal if terminal else s


# ReST field look-alikes: field names of Sphinx / epydoc that are NOT field tokens of docstring_utils.TOKENS.rest on the
# unchanged tree (":param", ":cvar", ":ivar", ":var", ":type", ":return", ":rtype"), so in running prose they are plain words
REST_FIELD_LOOKALIKES = [":raises ValueError:", ":raises:", ":raise E:", ":except E:", ":keyword k:", ":key k:", ":kwarg k:",
                         ":arg x:", ":argument x:", ":meta private:", ":yields:", ":yield:", ":note:", ":example:",
                         ":seealso:", ":attr:`x`", ":class:`X`", ":func:`f`"]
