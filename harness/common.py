"""Shared plumbing: paths, s-expressions, the extracted-model driver, implementation import."""
import json
import os
import subprocess
import sys
import time

VERIF = os.path.dirname(os.path.dirname(os.path.abspath(__file__)))
REPO = os.environ.get("VERIF_REPO", "/repo")
COQ = os.path.join(VERIF, "coq")
BUILD = os.path.join(COQ, "extract", "build")
DRIVER = os.environ.get("VERIF_DRIVER") or os.path.join(BUILD, "driver")
VENV_PY = "/venv/bin/python"
DEFAULT_SEED = 20260929


# ---------------------------------------------------------------- s-expressions
class Sym(str):
    """bare atom"""


def hx(s):
    return "h" + s.encode("latin-1").hex()


def unhx(a):
    assert a.startswith("h"), a
    return bytes.fromhex(a[1:]).decode("latin-1")


def dumps(e):
    if isinstance(e, (list, tuple)):
        return "(" + " ".join(dumps(x) for x in e) + ")"
    if isinstance(e, Sym):
        return str(e)
    if isinstance(e, bool):
        return "true" if e else "false"
    if isinstance(e, int):
        return str(e)
    if isinstance(e, str):
        return hx(e)
    raise TypeError(type(e))


def loads(s):
    stack, cur = [], []
    tok = ""
    for c in s:
        if c in "() \t\n":
            if tok:
                cur.append(tok)
                tok = ""
            if c == "(":
                stack.append(cur)
                cur = []
            elif c == ")":
                up = stack.pop()
                up.append(cur)
                cur = up
        else:
            tok += c
    if tok:
        cur.append(tok)
    assert not stack and len(cur) == 1, s[:200]
    return cur[0]


def opt(x, f=lambda v: v):
    return Sym("none") if x is None else [Sym("some"), f(x)]


def is_ascii_text(s):
    return all((32 <= ord(c) < 127) or c in "\n\t" for c in s)


# ---------------------------------------------------------------- python values <-> wire
def enc_pyval(v):
    """Python scalar -> wire.  Floats travel as repr()."""
    if v is None:
        return Sym("None")
    if isinstance(v, bool):
        return [Sym("bool"), v]
    if isinstance(v, int):
        return [Sym("int"), v]
    if isinstance(v, float):
        return [Sym("float"), repr(v)]
    if isinstance(v, str):
        return [Sym("str"), v]
    raise TypeError("not a modelled scalar: %r" % (v,))


def dec_pyval(e):
    if e == "None":
        return None
    t, x = e
    if t == "bool":
        return x == "true"
    if t == "int":
        return int(x)
    if t == "float":
        return float(unhx(x))
    if t == "str":
        return unhx(x)
    raise ValueError(e)


def canon_pyval_sexp(e):
    """canonical text of a wire pyval, floats normalised through repr(float())"""
    if isinstance(e, list) and len(e) == 2 and e[0] == "float":
        try:
            return dumps([Sym("float"), repr(float(unhx(e[1])))])
        except ValueError:
            return dumps([Sym("float"), Sym(e[1])])
    return redump(e)


def redump(e):
    if isinstance(e, list):
        return "(" + " ".join(redump(x) for x in e) + ")"
    return e


def canon(e):
    """canonicalise a parsed wire term: float payloads normalised, everything else verbatim"""
    if isinstance(e, list):
        if len(e) == 2 and e[0] == "float" and isinstance(e[1], str):
            return canon_pyval_sexp(e)
        return "(" + " ".join(canon(x) for x in e) + ")"
    return e


EXC_KINDS = {
    "AttributeError", "IndexError", "ValueError", "SyntaxError", "TypeError", "AssertionError",
    "NotImplementedError", "KeyError", "StopIteration", "IOError",
}


def exc_kind(e):
    n = type(e).__name__
    if isinstance(e, SyntaxError):
        return "SyntaxError"
    if isinstance(e, OSError):
        return "IOError"
    for k in type(e).__mro__:
        if k.__name__ in EXC_KINDS:
            return k.__name__
    return n


def outcome(thunk, enc):
    """run thunk; wire-encode result or exception kind"""
    try:
        r = thunk()
    except Exception as e:  # noqa
        return [Sym("err"), Sym(exc_kind(e))]
    return [Sym("ok"), enc(r)]


# ---------------------------------------------------------------- model driver
class ModelError(Exception):
    pass


def run_model(requests, timeout=1200):
    """requests: list of wire strings; returns list of response strings (same order)."""
    if not requests:
        return []
    if not os.path.exists(DRIVER):
        raise ModelError("driver not built: " + DRIVER)
    data = "\n".join(requests) + "\n"
    nshards = min(16, max(1, len(requests) // 200))
    if nshards == 1:
        return _run_shard(data, timeout)
    size = (len(requests) + nshards - 1) // nshards
    shards = [requests[i:i + size] for i in range(0, len(requests), size)]
    procs = []
    for sh in shards:
        p = subprocess.Popen(
            ["bash", "-c", "ulimit -s unlimited 2>/dev/null; exec " + DRIVER],
            stdin=subprocess.PIPE, stdout=subprocess.PIPE, stderr=subprocess.PIPE)
        procs.append((p, sh))
    # feed via threads to avoid pipe deadlock
    import threading
    outs = [None] * len(procs)

    def work(i):
        p, sh = procs[i]
        o, e = p.communicate(("\n".join(sh) + "\n").encode("latin-1"), timeout=timeout)
        if p.returncode != 0:
            outs[i] = ModelError("driver exit %s: %s" % (p.returncode, e.decode("latin-1")[-500:]))
        else:
            outs[i] = o.decode("latin-1").split("\n")[:-1]

    ths = [threading.Thread(target=work, args=(i,)) for i in range(len(procs))]
    for t in ths:
        t.start()
    for t in ths:
        t.join()
    res = []
    for (p, sh), o in zip(procs, outs):
        if isinstance(o, Exception):
            raise o
        if len(o) != len(sh):
            raise ModelError("driver returned %d lines for %d requests" % (len(o), len(sh)))
        res.extend(o)
    return res


def _run_shard(data, timeout):
    p = subprocess.run(
        ["bash", "-c", "ulimit -s unlimited 2>/dev/null; exec " + DRIVER],
        input=data.encode("latin-1"), stdout=subprocess.PIPE, stderr=subprocess.PIPE, timeout=timeout)
    if p.returncode != 0:
        raise ModelError("driver exit %s: %s" % (p.returncode, p.stderr.decode("latin-1")[-500:]))
    return p.stdout.decode("latin-1").split("\n")[:-1]


# ---------------------------------------------------------------- implementation import
_IMPL = {}


def impl():
    """import doctrans from REPO (with the `meta` double-import preamble) and return a namespace"""
    if _IMPL:
        return _IMPL["ns"]
    if REPO not in sys.path:
        sys.path.insert(0, REPO)
    try:
        import meta  # noqa: F401  first import raises on 3.12, second succeeds
    except Exception:
        pass
    import types
    ns = types.SimpleNamespace()
    import doctrans  # noqa
    assert os.path.realpath(os.path.dirname(doctrans.__file__)).startswith(os.path.realpath(REPO)), \
        "doctrans imported from %s, not %s" % (doctrans.__file__, REPO)
    import doctrans.pure_utils as pure_utils
    import doctrans.defaults_utils as defaults_utils
    import doctrans.ast_utils as ast_utils
    import doctrans.docstring_utils as docstring_utils
    import doctrans.emitter_utils as emitter_utils
    import doctrans.source_transformer as source_transformer
    import doctrans.emit as emit
    import doctrans.docstring_parsers as docstring_parsers
    import doctrans.parser_utils as parser_utils
    import doctrans.parse as parse
    ns.pure_utils, ns.defaults_utils, ns.ast_utils = pure_utils, defaults_utils, ast_utils
    ns.docstring_utils, ns.emitter_utils, ns.source_transformer = docstring_utils, emitter_utils, source_transformer
    ns.emit, ns.docstring_parsers, ns.parser_utils, ns.parse = emit, docstring_parsers, parser_utils, parse
    try:
        import doctrans.conformance as conformance
        import doctrans.sync_properties as sync_properties
        import doctrans.gen as gen
        import doctrans.__main__ as main_mod
        ns.conformance, ns.sync_properties, ns.gen, ns.main_mod = conformance, sync_properties, gen, main_mod
    except Exception as e:  # noqa
        ns.import_error = e
    _IMPL["ns"] = ns
    return ns


def now():
    return time.time()


def write_json(path, obj, sort_keys=True):
    """replay files are written with sort_keys=False: the order of the parameters of an IR is part of the input"""
    os.makedirs(os.path.dirname(path), exist_ok=True)
    tmp = path + ".tmp.%d" % os.getpid()
    with open(tmp, "w") as f:
        json.dump(obj, f, indent=1, sort_keys=sort_keys, default=str)
        f.write("\n")
    os.replace(tmp, path)
