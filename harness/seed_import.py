#!/usr/bin/env python3
"""Confirm and import seeded changes produced by an independent sub-agent:
  python3 harness/seed_import.py <PROPERTY_ID> <dir with patch_i.diff, demo_i.py, notes.md>
For each change: in a fresh scratch worktree of /repo (removed afterwards) check that the baseline test suite still
passes with the patch, that the demonstration exits 0 without the patch and non-zero with it; keep confirmed ones as
/verif/seeded/<ID>-<i>/{patch.diff,demo.py,meta.json}."""
import glob
import json
import os
import re
import shutil
import subprocess
import sys
import tempfile

HERE = os.path.dirname(os.path.abspath(__file__))
VERIF = os.path.dirname(HERE)


def sh(cmd, **kw):
    return subprocess.run(cmd, stdout=subprocess.PIPE, stderr=subprocess.STDOUT, **kw)


def main():
    pid, src = sys.argv[1], sys.argv[2]
    offset = int(sys.argv[3]) if len(sys.argv) > 3 else 0
    notes = open(os.path.join(src, "notes.md")).read() if os.path.exists(os.path.join(src, "notes.md")) else ""
    for patch in sorted(glob.glob(os.path.join(src, "patch_*.diff"))):
        i = re.search(r"patch_(\d+)\.diff", patch).group(1)
        demo = os.path.join(src, "demo_%s.py" % i)
        wt = tempfile.mkdtemp(prefix="doctrans-seedcheck.")
        os.rmdir(wt)
        ran = []
        try:
            assert sh(["git", "-C", "/repo", "worktree", "add", "-q", wt, "HEAD"]).returncode == 0
            env = dict(os.environ, PYTHONPATH=wt, PYTHONHASHSEED="0")
            r0 = sh(["/venv/bin/python", demo], env=env, cwd=wt, timeout=600)
            ran.append("demo without patch: exit %d" % r0.returncode)
            ap = sh(["git", "-C", wt, "apply", patch])
            if ap.returncode != 0:
                print(pid, i, "patch does not apply to current /repo HEAD:", ap.stdout.decode()[-200:])
                continue
            rb = sh(["python3", os.path.join(HERE, "baseline_check.py"), wt])
            ran.append("baseline with patch: " + rb.stdout.decode().strip().split("\n")[0])
            r1 = sh(["/venv/bin/python", demo], env=env, cwd=wt, timeout=600)
            ran.append("demo with patch: exit %d" % r1.returncode)
            ok = r0.returncode == 0 and rb.returncode == 0 and r1.returncode != 0
            print(pid, i, "CONFIRMED" if ok else "REJECTED", ran)
            if ok:
                d = os.path.join(VERIF, "seeded", "%s-%d" % (pid, int(i) + offset))
                os.makedirs(d, exist_ok=True)
                shutil.copy(patch, os.path.join(d, "patch.diff"))
                shutil.copy(demo, os.path.join(d, "demo.py"))
                m = re.search(r"(?ms)^#+[^\n]*\b%s\b.*?(?=^#+ |\Z)" % i, notes)
                json.dump({"property": pid, "source": "independent sub-agent given only the property text and a scratch worktree",
                           "what_it_needs_to_manifest": (m.group(0)[:1500] if m else notes[:1500]),
                           "what_i_ran": ran, "demo_output_with_patch": r1.stdout.decode()[-600:]},
                          open(os.path.join(d, "meta.json"), "w"), indent=1)
        finally:
            sh(["git", "-C", "/repo", "worktree", "remove", "--force", wt])
            shutil.rmtree(wt, ignore_errors=True)


if __name__ == "__main__":
    main()
