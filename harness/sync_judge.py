"""Judges for the sync properties on the results of sync_lab.run_scenario."""
import ast
import os

import gen_module as GM
import iface
import sync_lab as L
from common import impl


def _parse_or_none(b):
    try:
        return ast.parse(b.decode("utf-8"))
    except SyntaxError:
        return None


def located(tree, name):
    """independent resolution of a dotted name to a ClassDef/FunctionDef"""
    n = GM.resolve(name.split("."), tree)
    return n if isinstance(n, (ast.ClassDef, ast.FunctionDef)) else None


def judge_c09(res):
    """after the first run every named target exists, holds the definition at its location and that definition
    describes the truth's interface.  Returns list of failures dict(target, what, facts)."""
    scn = res["scn"]
    out = _truth_read(res, res["proj"]["ir"], res["proj"]["gold_ir"], 0, None)
    out += _agree(res, res["runs"][0], res["snaps"][1], res["proj"]["gold_ir"], 0, None)
    ed = res.get("edit")
    if ed is not None and ed["gold_ir"] is not None and res["runs"][0]["exception"] is None:
        # the truth was edited after the regular runs: one more sync must make every target agree with the NEW truth
        out += _truth_read(res, res["proj"]["stale"], ed["gold_ir"], len(res["runs"]), "edit")
        out += _agree(res, ed["run"], ed["after"], ed["gold_ir"], len(res["runs"]), "edit")
    return out


def _truth_read(res, written_from, gold, run_index, phase):
    """the interface sync reads from the truth file is the one the truth definition was written from (parameter names
    and order, types, prose, defaults): the reference the targets are judged against is not taken on trust from the
    reader under test"""
    scn = res["scn"]
    if gold is None or written_from is None:
        return []
    d = iface.same_interface(written_from, gold, check_returns=not scn.get("with_returns"))
    if not d:
        return []
    return [{"target": "*", "what": "the truth is not read as it was written%s: %s" % (
        " (after the truth was edited)" if phase else "", "; ".join(d[:3])), "facts": facts_of(scn, None, run_index),
        "kind": "truth-misread", "phase": phase}]


def _agree(res, run, snap, gold, run_index, phase):
    scn, out = res["scn"], []
    if run["exception"] is not None:
        return [{"target": "*", "what": "sync raised %s" % run["exception"], "facts": facts_of(scn, None, run_index), "kind": "raised",
                 "phase": phase}]
    for tk in scn["targets"]:
        if scn["targets"][tk].get("alias_truth"):
            continue     # this kind was pointed at the truth file itself: nothing to conform, it must only stay untouched (C10)
        k = L.kind_of(tk)
        fname = res["paths"][tk]
        name = scn["names"][k]
        fx = facts_of(scn, tk, run_index)

        def fail(kind, what):
            out.append({"target": tk, "what": what + (" (after the truth was edited)" if phase else ""), "facts": fx, "kind": kind,
                        "phase": phase})
        if fname not in snap:
            fail("missing-file", "target file does not exist after sync")
            continue
        tree = _parse_or_none(snap[fname])
        if tree is None:
            fail("no-parse", "target file does not parse after sync")
            continue
        node = located(tree, name)
        if node is None:
            fail("not-found", "definition %s not found at its location after sync" % name)
            continue
        want = ast.ClassDef if k == "class" else ast.FunctionDef
        if not isinstance(node, want):
            fail("wrong-type", "definition at %s is a %s" % (name, type(node).__name__))
            continue
        try:
            got = L.parse_def(k, node)
        except Exception as e:  # noqa
            fail("parse-raised", "parsing the synchronised definition raised %s" % type(e).__name__)
            continue
        d = iface.same_interface(gold, got, check_returns=not scn.get("with_returns"))
        if d:
            fail("interface", "interface differs from the truth: " + "; ".join(d[:3]))
    return out


def _steps(res):
    """(run index, run, snapshot before, snapshot after, is a repetition with unchanged arguments and truth, phase)"""
    st = [(i, run, res["snaps"][i], res["snaps"][i + 1], i >= 1, None) for i, run in enumerate(res["runs"])]
    ed = res.get("edit")
    if ed is not None:
        st.append((len(res["runs"]), ed["run"], ed["before"], ed["after"], False, "edit"))
    for j, a in enumerate(res.get("alt") or []):
        # the runs in which another KIND is named as truth: whether they may change anything is history_settled's business
        st.append((len(res["runs"]) + (1 if ed is not None else 0) + j, a["run"], a["before"], a["after"], False, "alt"))
    return st


def files_of_kinds(res):
    """[(key, kind, file)] of every file named on the command line: the first file of each given kind and the further ones"""
    scn = res["scn"]
    keys = [k for k in L.KINDS if k in scn["given"]] + [tk for tk in sorted(scn["targets"]) if "#" in tk]
    return [(tk, L.kind_of(tk), res["paths"][tk]) for tk in keys]


def history_settled(res):
    """after the first run every file named holds the definition sync was to put there, as far as the harness can tell
    WITHOUT the reader under test: no run raised; in every file the named definition is at its location (independent
    resolver); a definition that was stale is no longer the one that was there.  Then every file describes the truth of the
    first run (that is C09), and a later run that names another kind as truth has no changed truth before it: it must change
    nothing.  (Where C09 fails - the recorded findings - a stale definition survives and naming it as truth IS a change.)"""
    scn = res["scn"]
    if any(r["exception"] is not None for r in res["runs"]):
        return False
    snap0, snap1 = res["snaps"][0], res["snaps"][1]
    for tk, k, f in files_of_kinds(res):
        tree = _parse_or_none(snap1[f]) if f in snap1 else None
        node = located(tree, scn["names"][k]) if tree is not None else None
        if node is None:
            return False
        t = scn["targets"].get(tk)
        if t is not None and t["pre"] in ("stale", "stale-tail"):
            old = _parse_or_none(snap0[f]) if f in snap0 else None
            onode = located(old, scn["names"][k]) if old is not None else None
            # (no definition of that name anywhere in the file is the stale one still: where an assignment to the name was
            # replaced instead - recorded finding same-named-binding-replaced - two definitions carry the name afterwards, and
            # the one sync reads as the truth is the first)
            # (compared with the docstrings in their cleandoc form: a rewrite of the whole module re-indents them)
            def norm(n):
                return ast.dump(_clean_docstrings(ast.Module(body=[n], type_ignores=[])))
            if onode is not None and norm(onode) in {norm(n) for n in ast.walk(tree)
                                                     if isinstance(n, (ast.ClassDef, ast.FunctionDef)) and n.name == onode.name}:
                return False
    return True


def judge_c10(res):
    """second (and later) runs change no byte; truth file never changes; per-run flags are true exactly for files
    whose bytes changed in that run; printed lines agree."""
    scn, out = res["scn"], []
    alt = res.get("alt") or []
    settled = bool(alt) and history_settled(res)
    n_before_alt = len(_steps(res)) - len(alt)
    changed_in_alt = set()
    for i, run, before, after, repeat, phase in _steps(res):
        fx = facts_of(scn, None, run_index=i)
        n0 = len(out)
        truth_kind = alt[i - n_before_alt]["truth"] if phase == "alt" else scn["truth"]
        truth_file = res["paths"][truth_kind]
        if before.get(truth_file) != after.get(truth_file):
            out.append({"target": truth_kind, "what": "truth file modified by run %d" % i, "facts": fx, "kind": "truth-modified"})
        extra = set(after) - set(before) - set(res["paths"].values())
        if extra:
            out.append({"target": "*", "what": "unexpected files created: %s" % sorted(extra), "facts": fx, "kind": "extra-files"})
        if repeat and res["runs"][0]["exception"] is None:
            for f in sorted(set(before) | set(after)):
                if before.get(f) != after.get(f):
                    k = next((kk for kk in res["paths"] if res["paths"][kk] == f), None)
                    out.append({"target": k or f, "what": "run %d changed %s again (sync is not idempotent)" % (i, f),
                                "facts": facts_of(scn, k, run_index=i), "kind": "again1" if i == 1 else "again2+"})
        if phase == "alt" and settled:
            # no truth was edited since the first run, only the kind named as truth changed: nothing may change, nothing raise
            hist = "%s, then %s" % (scn["truth"], ", ".join(a["truth"] for a in alt[:i - n_before_alt + 1]))
            if scn.get("alternate_given"):
                # the set of kinds named varies as well: say which were named in each run
                hist = "%s; kinds given per run: all three in the regular runs, then %s" % (
                    hist, " | ".join("+".join(a.get("given") or scn["given"]) for a in alt[:i - n_before_alt + 1]))
            if run["exception"] is not None:
                out.append({"target": "*", "what": "run %d (truth kinds so far: %s) raised %s although no file was edited since the "
                                                   "first run" % (i, hist, run["exception"]), "facts": fx, "kind": "raised"})
            for f in sorted(set(before) | set(after)):
                if before.get(f) != after.get(f):
                    k = next((kk for kk in res["paths"] if res["paths"][kk] == f), None)
                    # the first time a file changes in this phase it is a change as the second run's (a file that was the truth
                    # so far is formatted when it is first handled as a target), any further change is one of the later runs'
                    out.append({"target": k or f, "what": "run %d changed %s although no file was edited since the first run, only the "
                                                          "kind named as truth / the set of kinds given changed (%s)" % (i, f, hist),
                                "facts": facts_of(scn, k, run_index=i), "kind": "again2+" if f in changed_in_alt else "again1"})
                    changed_in_alt.add(f)
        if run["exception"] is None and run["result"] is not None:
            for f, flag in run["result"]:
                changed = before.get(f) != after.get(f)
                if bool(flag) != changed:
                    k = next((kk for kk in res["paths"] if res["paths"][kk] == f), None)
                    out.append({"target": k or f, "what": "run %d reported %s for %s but bytes %s" % (
                        i, "changed" if flag else "unchanged", f, "changed" if changed else "did not change"),
                        "facts": facts_of(scn, k, run_index=i), "kind": "flag-true-bytes-same" if flag else "flag-false-bytes-changed"})
            for line in run["stdout"].splitlines():
                if "\t" in line:
                    word, p = line.split("\t", 1)
                    f = os.path.basename(p)
                    changed = before.get(f) != after.get(f)
                    if (word == "modified") != changed:
                        k = next((kk for kk in res["paths"] if res["paths"][kk] == f), None)
                        out.append({"target": k or f, "what": "run %d printed %r for %s but bytes %s" % (
                            i, word, f, "changed" if changed else "did not change"), "facts": facts_of(scn, k, run_index=i),
                            "kind": "print-modified-bytes-same" if word == "modified" else "print-unchanged-bytes-changed"})
        for f in out[n0:]:
            f["phase"] = phase
    return out


def _masked_dump(tree, name):
    """dumps of every top-level statement and of every sibling in the enclosing class, with the named definition
    replaced by a marker"""
    parts = name.split(".")
    out = []

    def dump_body(body, depth_parts):
        for s in body:
            nm = getattr(s, "name", None)
            if depth_parts and nm == depth_parts[0] and isinstance(s, (ast.ClassDef, ast.FunctionDef)):
                if len(depth_parts) == 1:
                    out.append("<<NAMED DEFINITION>>")
                elif isinstance(s, ast.ClassDef):
                    out.append("class-open %s %s" % (s.name, [ast.dump(b) for b in s.bases]))
                    dump_body(s.body, depth_parts[1:])
                    out.append("class-close")
                else:
                    out.append(ast.dump(s))
            else:
                out.append(ast.dump(s))
    dump_body(tree.body, parts)
    return out


def _clean_docstrings(tree):
    """the tree with every docstring constant replaced by its inspect.cleandoc form (what formatting may re-indent)"""
    import copy
    import inspect
    tree = copy.deepcopy(tree)
    for n in ast.walk(tree):
        if isinstance(n, (ast.Module, ast.ClassDef, ast.FunctionDef, ast.AsyncFunctionDef)) and n.body and \
                isinstance(n.body[0], ast.Expr) and isinstance(n.body[0].value, ast.Constant) and isinstance(n.body[0].value.value, str):
            # (a tab INSIDE a line is content, not indentation: cleandoc would expand it, so it is kept behind a marker)
            lines = [l.rstrip() for l in n.body[0].value.value.split("\n")]
            lines = [l[:len(l) - len(l.lstrip())] + l.lstrip().replace("\t", "\x00TAB\x00") for l in lines]
            n.body[0].value.value = inspect.cleandoc("\n".join(lines)).strip("\n")
    return tree


def binds(stmt, short):
    """stmt is an assignment (not a definition) whose target is the plain name `short`"""
    if isinstance(stmt, ast.Assign):
        return any(isinstance(t, ast.Name) and t.id == short for t in stmt.targets)
    if isinstance(stmt, ast.AnnAssign):
        return isinstance(stmt.target, ast.Name) and stmt.target.id == short
    return False


def _strip_rebindings(tree, name):
    """the tree without assignments to the target's own (short) name"""
    import copy
    short = name.split(".")[-1]
    tree = copy.deepcopy(tree)
    for n in ast.walk(tree):
        if isinstance(n, (ast.Module, ast.ClassDef)):
            n.body = [s for s in n.body if not binds(s, short)] or [ast.Pass()]
    return tree


# compound statements that open no scope and carry no `name` (an except handler carries one): a definition nested in
# them is, for annotate_ancestry, at the location of a statement of the surrounding scope
NON_SCOPE_STMTS = tuple(t for t in (ast.If, ast.For, ast.AsyncFor, ast.While, ast.With, ast.AsyncWith, ast.Try,
                                    getattr(ast, "TryStar", None), getattr(ast, "Match", None)) if t is not None)


def non_scope_bodies(stmt):
    """the statement lists of such a statement, in visit order (the handlers of a try are not among them)"""
    if getattr(ast, "Match", None) is not None and isinstance(stmt, ast.Match):
        return [c.body for c in stmt.cases]
    return [getattr(stmt, f) for f in ("body", "orelse", "finalbody") if getattr(stmt, f, None)]


def _strip_standins(tree, name):
    """the tree with every class definition of the target's own (short) name that is nested in statements opening no
    scope replaced by a marker (definitions that are statements of a scope themselves, or sit in an except handler, stay)"""
    import copy
    short = name.split(".")[-1]
    tree = copy.deepcopy(tree)

    def strip(stmt):
        for body in non_scope_bodies(stmt):
            for i, s in enumerate(body):
                if isinstance(s, ast.ClassDef) and s.name == short:
                    body[i] = ast.Expr(value=ast.Constant(value="<<SAME-NAMED STAND-IN>>"))
                elif isinstance(s, NON_SCOPE_STMTS):
                    strip(s)
    for n in ast.walk(tree):
        if isinstance(n, (ast.Module, ast.ClassDef)):
            for s in n.body:
                if isinstance(s, NON_SCOPE_STMTS):
                    strip(s)
    return tree


def _others(tree, name):
    return [x for x in _masked_dump(tree, name) if x != "<<NAMED DEFINITION>>"]


def _explain(old, new, name):
    """the ways in which the other statements differ, each a failure kind of its own: docstring indentation only
    (of the module / of other definitions), assignments to the target's own name lost, a same-named class nested in a
    statement that opens no scope overwritten, or anything else"""
    def doc_kind(o, n):
        a, b = _others(o, name), _others(n, name)
        only_module = (len(a) == len(b) and a[1:] == b[1:] and ast.get_docstring(o) is not None and ast.get_docstring(n) is not None)
        return "module-docstring-only" if only_module else "docstrings-only"
    if _others(_clean_docstrings(old), name) == _others(_clean_docstrings(new), name):
        return [doc_kind(old, new)]
    so, sn = _strip_rebindings(old, name), _strip_rebindings(new, name)
    if _others(so, name) == _others(sn, name):
        return ["rebinding-replaced"]
    if _others(_clean_docstrings(so), name) == _others(_clean_docstrings(sn), name):
        return [doc_kind(so, sn), "rebinding-replaced"]
    to, tn = _strip_standins(old, name), _strip_standins(new, name)
    if _others(to, name) == _others(tn, name):
        return ["stand-in-replaced"]
    if _others(_clean_docstrings(to), name) == _others(_clean_docstrings(tn), name):
        return [doc_kind(to, tn), "stand-in-replaced"]
    return ["statements"]


def judge_c11(res):
    """every run that changes a target file preserves all other statements/siblings in order, and the file parses"""
    scn, out = res["scn"], judge_bodies(res)
    for i, run, before, after, repeat, phase in _steps(res):
        n0 = len(out)
        # in a run that names another kind as truth every file named is a target but that run's truth (its being modified is
        # C10's business), the file that held the truth so far included
        keys = list(scn["targets"]) if phase != "alt" else [tk for tk, _, _ in files_of_kinds(res)]
        for tk in keys:
            k = L.kind_of(tk)
            f = res["paths"][tk]
            if before.get(f) == after.get(f) or f not in after:
                continue
            fx = facts_of(scn, tk, run_index=i)
            new = _parse_or_none(after[f])
            if new is None:
                out.append({"target": tk, "what": "rewritten file does not parse (run %d)" % i, "facts": fx, "kind": "no-parse"})
                continue
            if f not in before or not before[f].strip():
                continue
            old = _parse_or_none(before[f])
            if old is None:
                continue
            name = scn["names"][k]
            m = impl()
            # the module docstring is re-indented on read by design (ast_parse); compare with the same normalisation
            a = [x for x in _masked_dump(old, name) if x != "<<NAMED DEFINITION>>"]
            b = [x for x in _masked_dump(new, name) if x != "<<NAMED DEFINITION>>"]
            if a != b:
                # find the first difference
                j = next((j for j, (x, y) in enumerate(zip(a, b)) if x != y), min(len(a), len(b)))
                what = "other statements not preserved (run %d): %d vs %d items, first difference at %d: %s | %s" % (
                    i, len(a), len(b), j, (a[j][:80] if j < len(a) else "-"), (b[j][:80] if j < len(b) else "-"))
                for kind in _explain(old, new, name):
                    out.append({"target": tk, "what": what, "facts": fx, "kind": kind})
        for f in out[n0:]:
            f["phase"] = phase
    return out


def judge_bodies(res):
    """statements of the truth function's body survive in a function target of the same name and type"""
    scn, out = res["scn"], []
    if scn.get("body") is None or scn["truth"] != "function" or res["runs"][0]["exception"] is not None:
        return out
    snap = res["snaps"][1]
    ttree = _parse_or_none(snap[res["paths"]["function"]])
    tnode = located(ttree, scn["names"]["function"]) if ttree else None
    if tnode is None:
        return out
    tbody = [ast.dump(x) for x in tnode.body[1:]] if ast.get_docstring(tnode) is not None else [ast.dump(x) for x in tnode.body]
    # the truth itself must keep its body
    before = _parse_or_none(res["snaps"][0][res["paths"]["function"]])
    bnode = located(before, scn["names"]["function"]) if before else None
    if bnode is not None:
        bbody = [ast.dump(x) for x in bnode.body[1:]] if ast.get_docstring(bnode) is not None else [ast.dump(x) for x in bnode.body]
        if bbody != tbody:
            out.append({"target": "function", "what": "body of the truth function changed", "facts": facts_of(scn, None), "kind": "body"})
    for tk in scn["targets"]:
        if L.kind_of(tk) != "function" or "#" not in tk:
            continue
        if scn["targets"][tk]["pre"] not in ("missing", "empty", "absent"):
            continue     # a definition that was already there keeps its own statements
        tr = _parse_or_none(snap.get(res["paths"][tk], b""))
        n2 = located(tr, scn["names"]["function"]) if tr else None
        if n2 is None and tr is not None:
            # a method target written at module level (a location failure, C09's business): the body is judged where it is
            n2 = located(tr, scn["names"]["function"].split(".")[-1])
        if n2 is None:
            continue
        b2 = [ast.dump(x) for x in (n2.body[1:] if ast.get_docstring(n2) is not None else n2.body)]
        if b2 != tbody:
            out.append({"target": tk, "what": "statements of the synchronised function's body were not carried verbatim: %s vs %s" % (
                [x[:60] for x in tbody][:3], [x[:60] for x in b2][:3]), "facts": facts_of(scn, tk), "kind": "body"})
    return out


def facts_of(scn, k, run_index=0):
    """the scenario descriptor the Coq classifier works on"""
    t = scn["targets"].get(k) if k else None
    return {"truth": scn["truth"], "kind": k, "pre": t["pre"] if t else None,
            "method": bool(k and L.kind_of(k) == "function" and "." in scn["names"]["function"]),
            "truth_is_method": bool(scn["truth"] == "function" and "." in scn["names"]["function"]),
            "n_sur": t["n_sur"] if t else 0, "members": t["members"] if t else 0,
            "position": t["position"] if t else None, "trailing_newline": t["trailing_newline"] if t else True,
            "given": len(scn["given"]), "via": scn["via"], "run": run_index}
