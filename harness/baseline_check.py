#!/usr/bin/env python3
"""Run the repository's pinned test suite and compare with /root/.vp/BASELINE.json stable_pass.
usage: baseline_check.py [repo_dir]"""
import json, os, subprocess, sys, tempfile
import xml.etree.ElementTree as ET

repo = sys.argv[1] if len(sys.argv) > 1 else "/repo"
base = json.load(open("/root/.vp/BASELINE.json"))
with tempfile.TemporaryDirectory() as td:
    x = os.path.join(td, "r.xml")
    env = dict(os.environ)
    env.pop("DOCTRANS_VERIF", None); env.pop("DOCTRANS_LINE_LENGTH", None); env.pop("PYTHONPATH", None)
    subprocess.run(["/venv/bin/python", "-m", "pytest", "-ra", "-q", "-p", "no:cacheprovider", "--timeout=900",
                    "--continue-on-collection-errors", "--junitxml=" + x], cwd=repo, env=env,
                   stdout=subprocess.DEVNULL, stderr=subprocess.DEVNULL)
    passed = set()
    for tc in ET.parse(x).getroot().iter("testcase"):
        if not any(ch.tag in ("failure", "error", "skipped") for ch in tc):
            passed.add("%s::%s" % (tc.get("classname"), tc.get("name")))
want = set(base["stable_pass"])
missing = sorted(want - passed)
print("stable_pass=%d passed_now=%d missing=%d new_passes=%d" % (len(want), len(passed), len(missing), len(passed - want)))
for m in missing[:20]:
    print("  MISSING", m)
sys.exit(1 if missing else 0)
