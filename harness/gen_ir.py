"""Generator of interface descriptions (IRs) in the supported domain of properties C01-C08, with strata tags."""
from collections import OrderedDict

import gen_text as G

TYPE_SHAPES = ["absent", "scalar", "optional", "list", "literal", "union", "tuple", "dotted", "nested"]


def typ_of_shape(rng, shape):
    sc = rng.choice(G.SCALAR_TYPES)
    if shape == "absent":
        return None
    if shape == "scalar":
        return sc
    if shape == "optional":
        return "Optional[%s]" % sc
    if shape == "list":
        return "List[%s]" % sc
    if shape == "literal":
        return "Literal[%s]" % ", ".join(repr(x) for x in rng.sample(["np", "tf", "adam", "sgd", "mnist"], rng.randint(1, 3)))
    if shape == "union":
        a, b = rng.sample(G.SCALAR_TYPES, 2)
        return "Union[%s, %s]" % (a, b)
    if shape == "tuple":
        return "Tuple[%s, %s]" % (sc, rng.choice(G.SCALAR_TYPES))
    if shape == "dotted":
        return rng.choice(["np.ndarray", "tf.data.Dataset", "typing.Any", "torch.optim.Optimizer"])
    return rng.choice(["Optional[List[str]]", "List[Optional[int]]", "Optional[Union[int, str]]",
                       "Optional[Literal['a', 'b']]", "Dict[str, int]", "Callable[[int], str]"])


def consistent_default(rng, typ, kinds=None):
    """a default of a kind consistent with typ; ('absent', None) allowed"""
    kinds = kinds or ["absent", "none", "value", "value", "code"]
    k = rng.choice(kinds)
    if k == "absent":
        return "absent", None
    if k == "none":
        return "none", None
    if k == "code":
        return "code", G.code_value(rng)
    t = typ or rng.choice(G.SCALAR_TYPES)
    if "str" in t or "Literal" in t:
        if "Literal" in t:
            import ast as _ast
            try:
                choices = [e.value for e in _ast.parse(t[t.index("Literal"):]).body[0].value.slice.elts]
            except Exception:  # noqa
                try:
                    choices = [_ast.parse(t[t.index("Literal"):]).body[0].value.slice.value]
                except Exception:  # noqa
                    choices = ["np"]
            return "str", rng.choice(choices)
        return "str", rng.choice(["mnist", "adam", "~/tensorflow_datasets", "hello world", "x", "relu", "a.b", "v1"])
    if "int" in t:
        return "int", G.int_value(rng)
    if "float" in t:
        return "float", G.float_value(rng)
    if "bool" in t:
        return "bool", rng.choice([True, False])
    return "code", G.code_value(rng)


def prose_of_shape(rng, shape):
    if shape == "absent":
        return None
    if shape == "clean":
        return G.clean_prose(rng)
    if shape == "comma":
        return G.clean_prose(rng, terminal=",")
    if shape == "noterm":
        return G.clean_prose(rng, terminal="")
    if shape == "announced":
        # prose that already carries a default sentence (as parse leaves it with emit_default_doc=True)
        return G.clean_prose(rng, terminal=rng.choice([".", ","])) + rng.choice([" Defaults to ", " defaults to "]) + \
            rng.choice(["7", "0.5", "mnist", "True", "None"])
    if shape == "optlead":
        # prose that opens with the word the parsers read as a type hint (_set_name_and_type)
        return rng.choice(["Optional ", "(Optional) ", "Optional, ", "Optionally "]) + G.clean_prose(rng)
    return G.prose(rng, spice=0.35)


def gen_param(rng, tags):
    shape = rng.choice(TYPE_SHAPES)
    typ = typ_of_shape(rng, shape)
    pshape = rng.choice(["clean", "clean", "clean", "clean", "comma", "noterm", "spicy", "absent", "announced", "optlead"])
    doc = prose_of_shape(rng, pshape)
    dk, dv = consistent_default(rng, typ)
    p = {}
    if doc is not None:
        p["doc"] = doc
    if typ is not None:
        p["typ"] = typ
    if dk != "absent":
        p["default"] = "```(None)```" if dk == "none" and rng.random() < 0.5 else dv
    tags += ["typ:" + shape, "prose:" + pshape, "default:" + dk]
    return p


def gen_ir(rng, nparams=None, returns=None, kwargs=None, clean=False):
    """returns (ir dict, tags).  clean=True restricts to the shape the proved regions cover:
    every parameter typed, clean prose, type-consistent non-code defaults."""
    tags = []
    n = rng.choice([0, 1, 1, 2, 2, 3, 5]) if nparams is None else nparams
    tags.append("params:%d" % n)
    used = set()
    params = OrderedDict()
    for _ in range(n):
        name = G.ident(rng)
        while name in used:
            name = G.ident(rng)
        used.add(name)
        if clean:
            shape = rng.choice(["scalar", "optional", "list", "literal", "union"])
            typ = typ_of_shape(rng, shape)
            dk, dv = consistent_default(rng, typ, ["absent", "value", "value", "none"] if shape == "optional" else ["absent", "value", "value"])
            p = {"doc": G.clean_prose(rng), "typ": typ}
            if dk != "absent":
                p["default"] = dv
            tags += ["typ:" + shape, "prose:clean", "default:" + dk]
        else:
            p = gen_param(rng, tags)
        params[name] = p
    if kwargs is None:
        kwargs = rng.random() < 0.15
    if kwargs:
        kn = rng.choice(["kwargs", "data_loader_kwargs", "model_kwargs"])
        params[kn] = {"doc": G.clean_prose(rng), "typ": "Optional[dict]", "default": "```(None)```"}
        tags.append("kwargs")
    if returns is None:
        returns = rng.choice(["none", "none", "typ", "doc", "both", "default"])
    ret = None
    if returns != "none":
        r = {}
        if returns in ("typ", "both", "default"):
            r["typ"] = typ_of_shape(rng, rng.choice(["scalar", "union", "tuple", "dotted", "list"]))
        if returns in ("doc", "both", "default"):
            r["doc"] = G.clean_prose(rng) if clean else prose_of_shape(rng, rng.choice(["clean", "clean", "noterm", "spicy"]))
        if returns == "default":
            r["default"] = rng.choice(["```(np.empty(0), np.empty(0))```", "```x```", "```5```", "```None```", "```[1, 2]```"])
        ret = OrderedDict((("return_type", r),))
    tags.append("returns:" + returns)
    nlines = rng.choice([1, 1, 1, 2, 3])
    doc = "\n".join(G.clean_prose(rng, max_words=7, terminal=rng.choice([".", ""])) for _ in range(nlines))
    tags.append("summary-lines:%d" % nlines)
    ir = {"name": None, "type": "static", "doc": doc, "params": params, "returns": ret}
    return ir, tags
