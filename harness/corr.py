"""Correspondence: run the same cases through the extracted Coq model and the implementation, diff."""
import collections

from common import loads, canon, run_model, ModelError


def run_family(fam, cases, label=None):
    """returns dict(total, agree, unmodelled, mismatches[list of dict], tags histogram)"""
    reqs = [fam.request(c) for c in cases]
    res = {"family": label or fam.NAME, "total": len(cases), "agree": 0, "unmodelled": 0, "mismatches": [],
           "nontrivial_distinct": 0, "histogram": {}, "model_error": None}
    try:
        outs = run_model(reqs)
    except ModelError as e:
        res["model_error"] = str(e)
        return res
    hist = collections.Counter()
    seen = set()
    for c, req, mo in zip(cases, reqs, outs):
        for t in c.get("tags", []):
            hist[c["fn"] + ":" + t] += 1
        try:
            io = fam.run_impl(c)
        except Exception as e:  # harness-level failure: the implementation could not even be called
            io = "(harness-exception %s)" % type(e).__name__
        m = canon(loads(mo))
        i = canon(loads(io)) if not io.startswith("(harness-exception") else io
        if m == "(err Unmodelled)":
            res["unmodelled"] += 1
            hist["unmodelled:" + c["fn"]] += 1
            continue
        if m == "bad-request":
            res["mismatches"].append({"case": c, "model": m, "impl": i, "request": req})
            continue
        if m == i:
            res["agree"] += 1
            if req not in seen and getattr(fam, "nontrivial", lambda c: True)(c):
                seen.add(req)
        else:
            res["mismatches"].append({"case": c, "model": m, "impl": i, "request": req})
    res["nontrivial_distinct"] = len(seen)
    res["histogram"] = dict(hist)
    res["extraction_crosscheck"] = xcheck_extraction(res["family"], list(zip(reqs, outs)))
    if res["extraction_crosscheck"].get("ok") is False:
        res["model_error"] = "extracted driver and vm_compute disagree: " + str(res["extraction_crosscheck"].get("detail"))
    return res


def xcheck_extraction(label, pairs, k=20):
    """re-evaluate a sample of the requests inside Coq with vm_compute and require the same responses as the
    extracted OCaml driver gave (guards the extraction path)"""
    import os
    import subprocess
    from common import COQ, BUILD
    safe = [(r, o) for r, o in pairs if len(r) < 1500 and len(o) < 1500 and '"' not in r and '"' not in o]
    if not safe:
        return {"n": 0, "ok": None}
    step = max(1, len(safe) // k)
    sample = safe[::step][:k]
    lit = lambda s: 'L "%s"' % s  # noqa: E731  (requests/responses are parentheses, spaces, [A-Za-z0-9_.+-] only)
    src = ["From Coq Require Import List. Import ListNotations.", "From Coq Require String. Import String.StringSyntax.",
           "From DT Require Import PyStr AllRun.",
           "Fixpoint all2 (a b : list str) : bool := match a, b with [], [] => true | x :: a', y :: b' => andb (str_eqb x y) (all2 a' b') | _, _ => false end.",
           "Definition reqs : list str := [%s]." % "; ".join(lit(r) for r, _ in sample),
           "Definition outs : list str := [%s]." % "; ".join(lit(o) for _, o in sample),
           "Goal all2 (map handle_all reqs) outs = true. Proof. vm_compute. reflexivity. Qed."]
    path = os.path.join(BUILD, "xcheck_%s_%d.v" % ("".join(c for c in label if c.isalnum()), os.getpid()))
    try:
        with open(path, "w") as f:
            f.write("\n".join(src) + "\n")
        p = subprocess.run(["timeout", "300", "coqc", "-Q", COQ, "DT", path], cwd=BUILD, stdout=subprocess.PIPE, stderr=subprocess.STDOUT)
        ok = p.returncode == 0
        return {"n": len(sample), "ok": ok, "detail": None if ok else p.stdout.decode()[-400:]}
    finally:
        for ext in (".v", ".vo", ".vok", ".vos", ".glob"):
            try:
                os.remove(path[:-2] + ext)
            except OSError:
                pass
        try:
            os.remove(os.path.join(BUILD, "." + os.path.basename(path)[:-2] + ".aux"))
        except OSError:
            pass
