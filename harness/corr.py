"""Correspondence: run the same cases through the extracted Coq model and the implementation, diff."""
import collections

from common import loads, canon, run_model, ModelError


def run_family(fam, cases, label=None):
    """returns dict(total, agree, unmodelled, mismatches[list of dict], tags histogram)"""
    reqs = [fam.request(c) for c in cases]
    res = {"family": label or fam.NAME, "total": len(cases), "agree": 0, "unmodelled": 0, "mismatches": [],
           "nontrivial_distinct": 0, "histogram": {}, "model_error": None}
    try:
        outs = run_model(reqs)
    except ModelError as e:
        res["model_error"] = str(e)
        return res
    hist = collections.Counter()
    seen = set()
    for c, req, mo in zip(cases, reqs, outs):
        for t in c.get("tags", []):
            hist[c["fn"] + ":" + t] += 1
        try:
            io = fam.run_impl(c)
        except Exception as e:  # harness-level failure: the implementation could not even be called
            io = "(harness-exception %s)" % type(e).__name__
        m = canon(loads(mo))
        i = canon(loads(io)) if not io.startswith("(harness-exception") else io
        if m == "(err Unmodelled)":
            res["unmodelled"] += 1
            hist["unmodelled:" + c["fn"]] += 1
            continue
        if m == "bad-request":
            res["mismatches"].append({"case": c, "model": m, "impl": i, "request": req})
            continue
        if m == i:
            res["agree"] += 1
            if req not in seen and getattr(fam, "nontrivial", lambda c: True)(c):
                seen.add(req)
        else:
            res["mismatches"].append({"case": c, "model": m, "impl": i, "request": req})
    res["nontrivial_distinct"] = len(seen)
    res["histogram"] = dict(hist)
    return res
