#!/usr/bin/env python3
"""MANIFEST.setup_cmd: build the Coq development, the extraction and the OCaml driver from files on disk."""
import os, sys
sys.path.insert(0, os.path.dirname(os.path.abspath(__file__)))
import build
st = build.build_all(log=os.path.join(build.COQ, "make.log"))
print(st)
# a proof that does not compile is reported by the check of the property whose cone contains it, not here
sys.exit(0 if st["driver_ok"] else 1)
