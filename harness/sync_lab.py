"""Scenario laboratory for `sync` (properties C09, C10, C11, C20): builds a project on disk, runs
doctrans.conformance.ground_truth (API, in-process, instrumented) or `python -m doctrans sync` (CLI, subprocess),
snapshots the directory between runs, and records what every conversion layer answered in each _conform_filename
call so that the Coq control-logic model (coq/model/Sync.v) can be replayed on the same answers."""
import ast
import contextlib
import copy
import io
import os
import shutil
import subprocess
import sys
import tempfile
from argparse import Namespace
from collections import OrderedDict

from common import impl, REPO, VENV_PY, exc_kind
import gen_text as G

KINDS = ["argparse_function", "class", "function"]
PLURAL = {"argparse_function": "argparse_functions", "class": "classes", "function": "functions"}
PRE_STATES = ["missing", "empty", "absent", "stale", "agreeing"]


# ------------------------------------------------------------------ IRs in the conversion-safe family
def safe_ir(rng, nparams=None):
    """typed scalar / Optional / Literal parameters with explicit type-consistent defaults, clean prose,
    no return entry: every pair of kinds converts these without loss on the unchanged tree"""
    params = OrderedDict()
    used = set()
    for i in range(nparams if nparams is not None else rng.randint(1, 4)):
        n = G.ident(rng)
        while n in used:
            n = G.ident(rng)
        used.add(n)
        t = rng.choice(["str", "int", "float", "bool"])
        v = {"str": rng.choice(["mnist", "adam", "x y", "relu"]), "int": rng.choice([5, 0, -3, 100]),
             "float": rng.choice([0.5, 2.0, 0.001]), "bool": rng.choice([True, False])}[t]
        typ = t
        r = rng.random()
        if r < 0.2:
            typ = "Optional[%s]" % t
        elif r < 0.35 and t == "str":
            typ = "Literal['mnist', 'adam', 'x y', 'relu']"
        params[n] = {"doc": G.clean_prose(rng), "typ": typ, "default": v}
    return {"name": None, "type": "static", "doc": G.clean_prose(rng), "params": params, "returns": None}


def mutate_ir(rng, ir):
    """a different interface (for stale definitions)"""
    ir = copy.deepcopy(ir)
    names = list(ir["params"])
    r = rng.random()
    if r < 0.4 and names:
        n = rng.choice(names)
        ir["params"][n]["doc"] = G.clean_prose(rng) + " Changed."
    elif r < 0.7:
        ir["params"]["extra_%d" % rng.randint(0, 99)] = {"doc": "Extra one.", "typ": "int", "default": 7}
    elif len(names) > 1:
        del ir["params"][rng.choice(names)]
    else:
        ir["doc"] = ir["doc"] + " Changed."
    return ir


# ------------------------------------------------------------------ emitting definitions with the real emitters
def emit_def(kind, ir, name, function_type="static"):
    m = impl()
    ir = copy.deepcopy(ir)
    if kind == "class":
        return m.emit.class_(ir, class_name=name)
    if kind == "function":
        return m.emit.function(ir, function_name=name, function_type=function_type)
    return m.emit.argparse_function(ir, function_name=name)


def parse_def(kind, node):
    m = impl()
    if kind == "class":
        return m.parse.class_(node)
    if kind == "function":
        return m.parse.function(node)
    return m.parse.argparse_ast(node)


def def_source(kind, ir, name, function_type="static"):
    return ast.unparse(emit_def(kind, ir, name, function_type))


# ------------------------------------------------------------------ surroundings
HELPERS = [
    "import os", "from typing import Optional, Literal", "X = 3", "y: int = 5",
    "def helper(a, b=5):\n    return a", "def other(dataset_name, K=1):\n    '''Doc.'''\n    return K",
    "class Other(object):\n    def train(self, x):\n        return x\n\n    def run(self):\n        pass",
    "class Outer:\n    class Inner:\n        z = 1\n\n    def method(self):\n        return 1",
    "if __name__ == '__main__':\n    print(1)", "CONST = {'a': 1}", "def set_cli_args_helper(p):\n    return p",
]


def surroundings(rng, n=None):
    n = rng.randint(0, 4) if n is None else n
    return [rng.choice(HELPERS) for _ in range(n)]


def indent_block(src, n=4):
    pad = " " * n
    return "\n".join((pad + l if l.strip() else l) for l in src.split("\n"))


def assemble_target(rng, kind, name, def_src, sur, position, trailing_newline, class_members=None):
    """module text with `def_src` (None = absent) placed among `sur`.  For method targets name = 'C.meth':
    the definition lives inside `class C` together with `class_members`."""
    chunks = list(sur)
    if "." in name:
        cls = name.split(".")[0]
        members = list(class_members or [])
        if def_src is not None:
            idx = {"before": 0, "after": len(members)}.get(position, len(members) // 2)
            members.insert(idx, def_src)
        if not members:
            members = ["pass"]
        body = "\n\n".join(indent_block(mm) for mm in members)
        cls_src = "class %s(object):\n%s" % (cls, body)
        idx = {"before": 0, "after": len(chunks)}.get(position, len(chunks) // 2)
        chunks.insert(idx, cls_src)
    elif def_src is not None:
        idx = {"before": 0, "after": len(chunks)}.get(position, len(chunks) // 2)
        chunks.insert(idx, def_src)
    text = "\n\n\n".join(chunks)
    if text and trailing_newline:
        text += "\n"
    return text


# ------------------------------------------------------------------ scenarios
def gen_scenario(rng, via="api", runs=2, allow_known=True):
    truth = rng.choice(KINDS)
    given = set(KINDS) if rng.random() < 0.6 else {truth, rng.choice([k for k in KINDS if k != truth])}
    meth = rng.random() < (0.45 if allow_known else 0.0)
    names = {"class": rng.choice(["ConfigClass", "Config", "TrainConfig"]),
             "argparse_function": rng.choice(["set_cli_args", "build_parser_args"]),
             "function": ("C.%s" % rng.choice(["train", "function_name"])) if meth else rng.choice(["train", "fit"])}
    targets = {}
    for k in KINDS:
        if k == truth or k not in given:
            continue
        pre = rng.choice(PRE_STATES)
        targets[k] = {"pre": pre, "n_sur": rng.randint(0, 4), "position": rng.choice(["before", "between", "after"]),
                      "trailing_newline": rng.random() < 0.7, "sur_seed": rng.randint(0, 10 ** 9),
                      "members": rng.randint(0, 2)}
    return {"truth": truth, "given": sorted(given), "names": names, "targets": targets, "ir_seed": rng.randint(0, 10 ** 9),
            "via": via, "runs": runs, "truth_sur": rng.randint(0, 2), "truth_sur_seed": rng.randint(0, 10 ** 9)}


def build_project(scn, root):
    """writes the files; returns dict(paths, gold_ir, expected defs)"""
    import random
    rng = random.Random(scn["ir_seed"])
    ir = safe_ir(rng)
    stale = mutate_ir(rng, ir)
    paths = {k: os.path.join(root, k + ".py") for k in KINDS}
    truth, names = scn["truth"], scn["names"]
    ftype = "self" if "." in names["function"] else "static"
    # truth file
    tname = names[truth].split(".")[-1]
    tsrc = def_source(truth, ir, tname, ftype)
    trng = random.Random(scn["truth_sur_seed"])
    ttext = assemble_target(trng, truth, names[truth], tsrc, surroundings(trng, scn["truth_sur"]), "after", True,
                            class_members=[])
    with open(paths[truth], "w") as f:
        f.write(ttext)
    # the truth as doctrans reads it
    m = impl()
    tree = m.source_transformer.ast_parse(ttext, filename=paths[truth])
    gold_node = m.ast_utils.find_in_ast(names[truth].split("."), tree)
    gold_ir = None
    try:
        gold_ir = {"class": lambda n: m.parse.class_(n, class_name=tname),
                   "function": lambda n: m.parse.function(n, function_name=tname, function_type=m.ast_utils.get_function_type(n)),
                   "argparse_function": lambda n: m.parse.argparse_ast(n, function_name=tname,
                                                                      function_type=m.ast_utils.get_function_type(n))}[truth](gold_node)
    except Exception:  # noqa
        gold_ir = None
    for k, t in scn["targets"].items():
        srng = random.Random(t["sur_seed"])
        sur = surroundings(srng, t["n_sur"])
        members = [srng.choice(["def run(self):\n    pass", "z: int = 1", "def train_helper(self, a):\n    return a"])
                   for _ in range(t["members"])]
        name = names[k]
        short = name.split(".")[-1]
        pre = t["pre"]
        if pre == "missing":
            continue
        if pre == "empty":
            text = ""
        else:
            if pre == "absent":
                dsrc = None
            elif pre == "stale":
                dsrc = def_source(k, stale, short, ftype if k == "function" else "static")
            else:
                dsrc = def_source(k, gold_ir if gold_ir is not None else ir, short, ftype if k == "function" else "static")
            text = assemble_target(srng, k, name, dsrc, sur, t["position"], t["trailing_newline"], members)
        with open(paths[k], "w") as f:
            f.write(text)
    return {"paths": paths, "ir": ir, "stale": stale, "gold_ir": gold_ir, "ftype": ftype}


def snapshot(root):
    out = {}
    for dp, _, fs in os.walk(root):
        for fn in fs:
            p = os.path.join(dp, fn)
            with open(p, "rb") as f:
                out[os.path.relpath(p, root)] = f.read()
    return out


def namespace_for(scn, paths):
    kw = {"truth": scn["truth"]}
    for k in KINDS:
        if k in scn["given"]:
            kw[PLURAL[k]] = [paths[k]]
            kw[k + "_names"] = [scn["names"][k]]
        else:
            kw[PLURAL[k]] = None
            kw[k + "_names"] = None
    return Namespace(**kw)


def cli_argv(scn, paths):
    argv = ["sync", "--truth", scn["truth"]]
    opt = {"argparse_function": ("--argparse-function", "--argparse-function-name"), "class": ("--class", "--class-name"),
           "function": ("--function", "--function-name")}
    for k in KINDS:
        if k in scn["given"]:
            argv += [opt[k][0], paths[k], opt[k][1], scn["names"][k]]
    return argv


# ------------------------------------------------------------------ instrumented run (API)
class Recorder:
    """wraps the layers used by conformance._conform_filename and records their answers per call"""

    def __init__(self):
        self.calls = []
        self.cur = None

    @contextlib.contextmanager
    def installed(self, fault=None):
        m = impl()
        c = m.conformance
        orig = {"conform": c._conform_filename, "find": c.find_in_ast, "cmp": c.cmp_ast, "ast_parse": c.ast_parse,
                "RAQ": c.RewriteAtQuery, "file": m.emit.file}
        rec = self

        def conform(filename, search, emit_func, replacement_node_ir, type_wanted):
            real = os.path.realpath(os.path.expanduser(filename))
            old = None
            if os.path.isfile(real):
                with open(real) as f:
                    old = f.read()
            rec.cur = {"file": real, "search": list(search), "kind": {"argparse_function": "argparse_function", "class_": "class",
                                                                        "function": "function"}[emit_func.__name__],
                       "old": old, "emit": None, "parse": None, "found": False, "type_ok": True, "cmp": False, "replaced": False,
                       "render": None, "write_mode": None, "result": None, "stdout": None}

            def wrapped_emit(*a, **kw):
                try:
                    r = emit_func(*a, **kw)
                except Exception as e:  # noqa
                    rec.cur["emit"] = ("err", exc_kind(e))
                    raise
                rec.cur["emit"] = ("ok",)
                rec.cur["type_ok"] = type(r) == type_wanted
                return r
            wrapped_emit.__name__ = emit_func.__name__
            buf = io.StringIO()
            try:
                with contextlib.redirect_stdout(buf):
                    res = orig["conform"](filename=filename, search=search, emit_func=wrapped_emit,
                                          replacement_node_ir=replacement_node_ir, type_wanted=type_wanted)
                rec.cur["result"] = ("ok", res[1])
                return res
            except Exception as e:  # noqa
                rec.cur["result"] = ("err", exc_kind(e))
                raise
            finally:
                rec.cur["stdout"] = buf.getvalue()
                sys.stdout.write(buf.getvalue())
                new = None
                if os.path.isfile(real):
                    with open(real) as f:
                        new = f.read()
                rec.cur["new"] = new
                rec.cur["tmp_left"] = os.path.exists(real + ".doctrans-tmp")
                rec.calls.append(rec.cur)
                rec.cur = None

        def find(search, node):
            r = orig["find"](search, node)
            if rec.cur is not None:
                rec.cur["found"] = r is not None
            return r

        depth = [0]

        def cmp(a, b):
            depth[0] += 1
            try:
                r = orig["cmp"](a, b)
            finally:
                depth[0] -= 1
            if rec.cur is not None and depth[0] == 0:
                rec.cur["cmp"] = bool(r)
            return r

        def ast_parse(src, **kw):
            try:
                r = orig["ast_parse"](src, **kw)
            except Exception as e:  # noqa
                if rec.cur is not None:
                    rec.cur["parse"] = ("err", exc_kind(e))
                raise
            if rec.cur is not None:
                rec.cur["parse"] = ("ok",)
            return r

        class RAQ(orig["RAQ"]):
            def visit(self, node):
                r = super().visit(node)
                if rec.cur is not None and isinstance(node, ast.Module):
                    rec.cur["replaced"] = bool(self.replaced)
                return r

        def file(node, filename, mode="a", skip_black=False):
            # render exactly as emit.file does, to learn the rendered text or the rendering error
            if rec.cur is not None:
                rec.cur["write_mode"] = mode
                try:
                    n2 = node
                    if isinstance(node, (ast.ClassDef, ast.FunctionDef)):
                        n2 = ast.Module(body=[node], type_ignores=[])
                    src = m.source_transformer.to_code(n2)
                    if not skip_black:
                        from black import Mode, format_str
                        src = format_str(src, mode=Mode(target_versions=set(), line_length=119, is_pyi=False,
                                                        string_normalization=False))
                    rec.cur["render"] = ("ok", src)
                except Exception as e:  # noqa
                    rec.cur["render"] = ("err", exc_kind(e))
            if fault is not None:
                fault.arm(filename)
            try:
                return orig["file"](node, filename, mode=mode, skip_black=skip_black)
            finally:
                if fault is not None:
                    fault.disarm()

        c._conform_filename, c.find_in_ast, c.cmp_ast, c.ast_parse, c.RewriteAtQuery = conform, find, cmp, ast_parse, RAQ
        m.emit.file = file
        try:
            yield self
        finally:
            c._conform_filename, c.find_in_ast, c.cmp_ast = orig["conform"], orig["find"], orig["cmp"]
            c.ast_parse, c.RewriteAtQuery = orig["ast_parse"], orig["RAQ"]
            m.emit.file = orig["file"]


def run_api(scn, paths, recorder=None, fault=None):
    """one ground_truth call; returns dict(result | exception, stdout)"""
    m = impl()
    ns = namespace_for(scn, paths)
    buf = io.StringIO()
    out = {"calls": None}
    ctx = recorder.installed(fault) if recorder is not None else contextlib.nullcontext()
    try:
        with ctx, contextlib.redirect_stdout(buf):
            r = m.conformance.ground_truth(ns, paths[scn["truth"]])
        out["result"] = [(os.path.basename(k), bool(v)) for k, v in r.items()]
        out["exception"] = None
    except Exception as e:  # noqa
        out["result"] = None
        out["exception"] = exc_kind(e)
        out["exception_text"] = "%s: %s" % (type(e).__name__, e)
    out["stdout"] = buf.getvalue()
    return out


def run_cli(argv, cwd=None, timeout=120, extra_env=None):
    env = dict(os.environ, PYTHONPATH=REPO, PYTHONHASHSEED="0")
    env.pop("DOCTRANS_LINE_LENGTH", None)
    if extra_env:
        env.update(extra_env)
    p = subprocess.run([VENV_PY, "-m", "doctrans"] + argv, cwd=cwd, env=env, stdout=subprocess.PIPE, stderr=subprocess.PIPE,
                       timeout=timeout)
    return {"rc": p.returncode, "stdout": p.stdout.decode("utf-8", "replace"), "stderr": p.stderr.decode("utf-8", "replace")}


def run_scenario(scn, record=True):
    """build, run `runs` times, snapshot between runs.  Returns everything the judges need."""
    root = tempfile.mkdtemp(prefix="doctrans-verif-sync.")
    try:
        proj = build_project(scn, root)
        paths = proj["paths"]
        snaps = [snapshot(root)]
        runs = []
        rec_calls = []
        for i in range(scn["runs"]):
            if scn["via"] == "cli":
                r = run_cli(cli_argv(scn, paths))
                run = {"exception": None if r["rc"] == 0 else ("exit-%d" % r["rc"]), "stdout": r["stdout"], "stderr": r["stderr"][-600:],
                       "result": None}
            else:
                rec = Recorder() if record else None
                run = run_api(scn, paths, rec)
                if rec is not None:
                    rec_calls.append(rec.calls)
            runs.append(run)
            snaps.append(snapshot(root))
        return {"scn": scn, "proj": {k: v for k, v in proj.items() if k != "paths"}, "paths": {k: os.path.basename(v) for k, v in paths.items()},
                "root": root, "snaps": snaps, "runs": runs, "calls": rec_calls}
    finally:
        shutil.rmtree(root, ignore_errors=True)


# ------------------------------------------------------------------ fault injection inside emit.file
class Fault:
    """I/O fault at one point of one emit.file call: kind in {'fail-read-old', 'fail-open-tmp', ('fail-write-tmp', k),
    'fail-replace'}, applied to the call whose target basename is `target` (first such call only)."""

    def __init__(self, kind, target):
        self.kind, self.target, self.fired, self.armed = kind, target, False, False
        self.filename = None

    def wire(self):
        from common import Sym
        if isinstance(self.kind, tuple):
            return [Sym(self.kind[0]), self.kind[1]]
        return Sym(self.kind)

    def arm(self, filename):
        if self.fired or os.path.basename(filename) != self.target:
            return
        m = impl()
        self.armed, self.filename = True, filename
        fault = self
        real_open = open
        tmp = filename + ".doctrans-tmp"

        class W:
            def __init__(self, f, k):
                self.f, self.k = f, k

            def write(self, s):
                self.f.write(s[:self.k])
                self.f.flush()
                fault.fired = True
                raise OSError("injected: write failed after %d characters" % self.k)

            def __enter__(self):
                return self

            def __exit__(self, *a):
                self.f.close()
                return False

        def fake_open(p, mode="r", *a, **kw):
            if fault.kind == "fail-read-old" and p == filename and "r" in mode:
                fault.fired = True
                raise OSError("injected: read failed")
            if fault.kind == "fail-open-tmp" and p == tmp:
                fault.fired = True
                raise OSError("injected: open failed")
            if isinstance(fault.kind, tuple) and p == tmp:
                return W(real_open(p, mode, *a, **kw), fault.kind[1])
            return real_open(p, mode, *a, **kw)

        def fake_replace(a, b):
            if fault.kind == "fail-replace":
                fault.fired = True
                raise OSError("injected: replace failed")
            return os.replace(a, b)

        m.emit.open = fake_open
        self._real_replace = m.emit.replace
        m.emit.replace = fake_replace

    def disarm(self):
        if not self.armed:
            return
        m = impl()
        if "open" in vars(m.emit):
            del m.emit.open
        m.emit.replace = self._real_replace
        self.armed = False
