"""Scenario laboratory for `sync` (properties C09, C10, C11, C20): builds a project on disk, runs
doctrans.conformance.ground_truth (API, in-process, instrumented) or `python -m doctrans sync` (CLI, subprocess),
snapshots the directory between runs, and records what every conversion layer answered in each _conform_filename
call so that the Coq control-logic model (coq/model/Sync.v) can be replayed on the same answers."""
import ast
import contextlib
import copy
import io
import os
import shutil
import subprocess
import sys
import tempfile
from argparse import Namespace
from collections import OrderedDict

from common import impl, REPO, VENV_PY, exc_kind
import gen_text as G

KINDS = ["argparse_function", "class", "function"]


def kind_of(tk):
    """target key -> kind ('function#2' is a second file of kind function)"""
    return tk.split("#")[0]


def file_of(tk, scn=None):
    """base name of the file of target key `tk`: the scenario's own file names when it has some"""
    return ((scn or {}).get("files") or {}).get(tk) or (tk.replace("#", "_") + ".py")


# file names as projects have them (per kind): how they sort relative to each other varies
FILE_NAMES = {"class": ["config.py", "model_config.py", "base_config.py", "settings.py", "Config.py"],
              "function": ["train.py", "api.py", "a_train.py", "zz_api.py", "fit_model.py"],
              "argparse_function": ["cli.py", "parser_args.py", "args.py", "main_cli.py", "build_cli.py"]}
PLURAL = {"argparse_function": "argparse_functions", "class": "classes", "function": "functions"}
PRE_STATES = ["missing", "empty", "absent", "stale", "agreeing"]
# further pre-states: "stale-tail" (class only: the agreeing definition minus its last statement, or plus one more
# attribute: the docstring is already right), "hardlink" (the target is a hard link of the truth file)
EXTRA_PRE_STATES = ["stale-tail", "hardlink"]


# ------------------------------------------------------------------ IRs in the conversion-safe family
def safe_ir(rng, nparams=None, with_returns=False, wide=None, returns_form=None):
    """typed scalar / Optional / Literal parameters with explicit type-consistent defaults, clean prose,
    no return entry: every pair of kinds converts these without loss on the unchanged tree"""
    params = OrderedDict()
    used = set()
    for i in range(nparams if nparams is not None else rng.randint(1, 4)):
        n = G.ident(rng)
        while n in used:
            n = G.ident(rng)
        used.add(n)
        t = rng.choice(["str", "int", "float", "bool"])
        v = {"str": rng.choice(["mnist", "adam", "x y", "relu"]), "int": rng.choice([5, 0, -3, 100]),
             "float": rng.choice([0.5, 2.0, 0.001]), "bool": rng.choice([True, False])}[t]
        typ = t
        r = rng.random()
        if r < 0.2:
            typ = "Optional[%s]" % t
        elif r < 0.35 and t == "str":
            typ = "Literal['mnist', 'adam', 'x y', 'relu']"
        params[n] = {"doc": G.clean_prose(rng), "typ": typ, "default": v}
    if wide:
        # a last parameter whose documentation line ends near the formatting widths (100 for doctrans' own wrapping,
        # 119 for black in emit.file): one long token (a path) of the drawn width
        n = "wide_%d" % wide
        params[n] = {"doc": "/" + "/".join("seg%02d" % i for i in range(40))[:max(1, wide - 1)], "typ": "str", "default": "relu"}
    ret = None
    if with_returns:
        ret = OrderedDict((("return_type", {"doc": G.clean_prose(rng), "typ": rng.choice(["int", "str"]),
                                            "default": rng.choice(["```5```", "```x```"])}),))
    if with_returns and returns_form == "none-documented":
        # annotated `-> None` with a documented `:returns:` (what the procedure leaves behind): no default, nothing returned
        ret = OrderedDict((("return_type", {"doc": ret["return_type"]["doc"], "typ": "None"}),))
    return {"name": None, "type": "static", "doc": G.clean_prose(rng), "params": params, "returns": ret}


def mutate_ir(rng, ir):
    """a different interface (for stale definitions)"""
    ir = copy.deepcopy(ir)
    names = list(ir["params"])
    r = rng.random()
    if r < 0.4 and names:
        n = rng.choice(names)
        ir["params"][n]["doc"] = G.clean_prose(rng) + " Changed."
    elif r < 0.7:
        ir["params"]["extra_%d" % rng.randint(0, 99)] = {"doc": "Extra one.", "typ": "int", "default": 7}
    elif len(names) > 1:
        del ir["params"][rng.choice(names)]
    else:
        ir["doc"] = ir["doc"] + " Changed."
    return ir


# prose with characters that are special to some layer the text passes through (`%` for the help text of argparse,
# braces for str.format, backslashes for string literals, a tab inside a line for whatever re-indents docstrings): the phrase
# goes before the final full stop of the description of one parameter (all of them carry defaults) or of the summary
PROSE_SPECIAL = OrderedDict((
    ("percent", "e.g., 20% of it"),
    ("percent-twice", "between 5% and 95%"),
    ("braces", "fills the {name} and {0} placeholders"),
    ("backslash", "a path such as C:\\data\\new"),
))
# (not drawn: a tab inside the prose.  The unchanged tree expands it to spaces when it reads a docstring - the interface read
# from the truth is then not the one that was written - and, in the summary, differently per kind, so that a history with
# alternating truth kinds keeps rewriting the class: reported as a finding, kept out of the generator)


def apply_prose_special(ir, spec):
    """spec: None | {"token": key of PROSE_SPECIAL, "where": "param" | "summary", "index": which parameter}"""
    if not spec:
        return ir
    phrase = PROSE_SPECIAL[spec["token"]]

    def add(doc):
        doc = doc or ""
        return (doc[:-1] + ", " + phrase + ".") if doc.endswith(".") else (doc + " " + phrase)
    # (not the parameter whose description is one token of the formatting width: a longer text there is re-wrapped)
    names = [n for n in ir["params"] if not n.startswith("wide_")]
    if spec.get("where") == "summary" or not names:
        ir["doc"] = add(ir["doc"])
    else:
        n = names[spec.get("index", 0) % len(names)]
        ir["params"][n]["doc"] = add(ir["params"][n]["doc"])
    return ir


# ------------------------------------------------------------------ emitting definitions with the real emitters
def emit_def(kind, ir, name, function_type="static"):
    m = impl()
    ir = copy.deepcopy(ir)
    if kind == "class":
        return m.emit.class_(ir, class_name=name)
    if kind == "function":
        return m.emit.function(ir, function_name=name, function_type=function_type)
    return m.emit.argparse_function(ir, function_name=name)


def parse_def(kind, node):
    m = impl()
    if kind == "class":
        return m.parse.class_(node)
    if kind == "function":
        return m.parse.function(node)
    return m.parse.argparse_ast(node)


def def_source(kind, ir, name, function_type="static", receiver=None, style=None):
    node = emit_def(kind, ir, name, function_type)
    if style == "positional" and kind == "function" and node.args.kwonlyargs and not node.args.defaults \
            and all(d is not None for d in node.args.kw_defaults):
        # the parameters declared the way people write them, positional-or-keyword with defaults: def f(a=1, b='x')
        # (doctrans itself emits them keyword-only: def f(*, a=1, b='x'))
        node.args.args = list(node.args.args) + list(node.args.kwonlyargs)
        node.args.defaults = list(node.args.kw_defaults)
        node.args.kwonlyargs, node.args.kw_defaults = [], []
    if receiver == "posonly" and kind == "function" and function_type != "static" and node.args.args \
            and node.args.args[0].arg in ("self", "cls"):
        # the receiver declared positional-only: `def method(self, /, a, b)`
        node.args.posonlyargs = list(node.args.posonlyargs) + [node.args.args.pop(0)]
    return ast.unparse(node)


# ------------------------------------------------------------------ surroundings
HELPERS = [
    "import os", "from typing import Optional, Literal", "X = 3", "y: int = 5",
    "def helper(a, b=5):\n    return a", "def other(dataset_name, K=1):\n    '''Doc.'''\n    return K",
    "class Other(object):\n    def train(self, x):\n        return x\n\n    def run(self):\n        pass",
    "class Wrapper:\n    class Inner:\n        z = 1\n\n    def method(self):\n        return 1",
    "if __name__ == '__main__':\n    print(1)", "CONST = {'a': 1}", "def set_cli_args_helper(p):\n    return p",
    "def clamp(value, lo, hi, /):\n    return max(lo, min(value, hi))",
    "def mixed(a, b=2, /, c=3, *args, d, e=5, **kw):\n    return (a, b, c, args, d, e, kw)",
    "async def fetch(url, *, timeout=3):\n    return url",
    "import functools\n\n\n@functools.lru_cache(maxsize=None)\ndef cached(n):\n    return n",
    "square = lambda v, /, p=2: v ** p",
    "class Point:\n    __slots__ = ('x', 'y')\n\n    def __init__(self, x, y, /):\n        self.x, self.y = x, y",
    "try:\n    import json\nexcept ImportError:\n    json = None",
    # multi-line string constants that are NOT docstrings (templates, banners, fixtures pasted into a module), with
    # lines made only of spaces / tabs, trailing blanks and a first line indented deeper than the rest: their values are data
    'TEMPLATE = """[section]\nname = {name}\n    \n[other]\n  \t\nvalue = {value}\n"""',
    "BANNER = \'\'\'usage:\n        \n  tool [options]   \n\t\n\'\'\'",
    'def usage(prog):\n    text = """\n        %s [options]\n    \n      --help   show this\n\t\n    """\n    return text % prog',
    'class Texts(object):\n    GREETING = """hello\n  \n world\n"""\n\n    def greet(self):\n        return self.GREETING + """\n \n"""',
    'FIXTURE = ("""a,b\n \n1,2\n""", """\t\n""")',
]


def surroundings(rng, n=None):
    n = rng.randint(0, 4) if n is None else n
    return [rng.choice(HELPERS) for _ in range(n)]


# sibling definitions whose DOCSTRINGS hold characters that are special to some layer: a tab in the middle of a line (a sample
# of a tab-separated file, a two-column table), `%`, braces, backslashes.  The docstrings are indented to their bodies (what
# black re-indents otherwise is the recorded finding other-docstring-reformatted).  A list of its own: HELPERS keeps its
# length, so the surroundings drawn for a seed stay what they were
SPECIAL_HELPERS = [
    'def load_labels(path):\n    """\n    Read the labels file, one record per line, e.g.:\n\n    id\tlabel\tsplit\n    17\tcat\ttrain\n'
    '    18\tdog\ttest\n    """\n    return path',
    'class Table(object):\n    def header(self):\n        """name\tvalue"""\n        return \'name\'\n\n    def row(self, k, v):\n'
    '        """\n        One row: key\tvalue (tab separated).\n        """\n        return (k, v)',
    'def ratio(done, total):\n    """Share that is done in %, e.g., 20% of {total} items."""\n    return \'%d%%\' % (100 * done // total)',
    'def win_path(name):\n    """Join name onto C:\\\\data\\\\new, backslashes kept."""\n    return \'C:\\\\data\\\\\' + name',
    'class Report(object):\n    """\n    Columns of the report:\n\n    metric\tunit\n    loss\t%\n    """\n\n    width: int = 2',
]
# a definition that carries the simple name of the target BELOW the top level (a method, a nested class, a nested function,
# a class attribute holding a lambda is not one): it is not the named definition, whose place is the top level of the module
INNER_SAME_NAMED = ["member", "member", "nested-function", "member-of-nested-class"]   # member: a method / a nested class


def inner_same_named(kind, short, form):
    """module-level statement holding a definition named `short` one or two levels down"""
    if kind == "class":
        inner = 'class %s(object):\n    """\n    Settings of the registry\n\n    :cvar verbose: chatty"""\n\n    verbose: bool = True' % short
    else:
        inner = 'def %s(self, epochs=3):\n    """\n    Run the loop\n\n    :param epochs: number of epochs\n    """\n    return epochs' % short
    if form == "nested-function":
        inner = inner.replace("(self, ", "(")
        return "def make_%s():\n%s\n\n    return %s" % (short.lower(), indent_block(inner), short)
    if form == "member-of-nested-class":
        return "class Registry(object):\n    class Entry(object):\n%s\n\n    entry = Entry" % indent_block(inner, 8)
    return "class Registry(object):\n    marker = 1\n\n%s\n\n    def describe(self):\n        return self.marker" % indent_block(inner)


def indent_block(src, n=4):
    pad = " " * n
    return "\n".join((pad + l if l.strip() else l) for l in src.split("\n"))


NESTED_FORMS = ["except-import-error", "except-import-error-as", "except-two-handlers"]
# forms in which the stand-in sits in a statement that opens no scope and carries no name (an except handler does carry one):
# annotate_ancestry gives the stand-in the location of the named definition, and with a class target that differs from the
# truth the rewrite overwrites the stand-in instead (recorded finding same-named-definition-in-non-scope-statement-replaced,
# coq/model/SyncSpec2.v); drawn as a small stratum of their own
NESTED_FORMS_NON_SCOPE = ["if-branch", "else-branch", "try-body", "with-body", "try-else"]
NESTED_FORMS_ALL = NESTED_FORMS + NESTED_FORMS_NON_SCOPE
# how often a target draws one of NESTED_FORMS / one of NESTED_FORMS_NON_SCOPE / a forward declaration of a function or
# argparse-function target (sync raises on every run: recorded finding forward-declared-function-target-raises)
P_NESTED, P_NESTED_NON_SCOPE, P_FORWARD_DECL, P_FORWARD_DECL_FUNCTION = 0.3, 0.05, 0.2, 0.04


def nested_same_named(kind, short, form):
    """a compound statement that conditionally defines a stand-in of the same simple name as the target (the usual
    `try: from generated import X / except ImportError: <stub X>` fallback and its relatives): the named definition
    proper is the one at the target's own location, not this one"""
    if kind == "class":
        stub = 'class %s(object):\n    """Stand-in used when the generated one cannot be imported."""\n\n    stand_in: int = 0' % short
    else:
        stub = 'def %s(*args, **kwargs):\n    """Stand-in used when the generated one cannot be imported."""\n    raise NotImplementedError()' % short
    stub = indent_block(stub)
    imp = "    from generated_%s import %s" % (short.lower(), short)
    return {
        "except-import-error": "try:\n%s\nexcept ImportError:\n%s" % (imp, stub),
        "except-import-error-as": "try:\n%s\nexcept ImportError as import_error:\n%s" % (imp, stub),
        "except-two-handlers": "try:\n%s\nexcept ImportError:\n%s\nexcept Exception as other_error:\n    raise" % (imp, stub),
        "if-branch": "if not hasattr(__builtins__, 'generated_%s'):\n%s" % (short.lower(), stub),
        "else-branch": "if hasattr(__builtins__, 'generated_%s'):\n    pass\nelse:\n%s" % (short.lower(), stub),
        "try-body": "try:\n%s\nexcept NameError:\n    pass" % stub,
        "with-body": "import contextlib\n\nwith contextlib.suppress(NameError):\n%s" % stub,
        "try-else": "try:\n    import generated_%s\nexcept ImportError:\n    raise\nelse:\n%s" % (short.lower(), stub),
    }[form]


def assemble_target(rng, kind, name, def_src, sur, position, trailing_newline, class_members=None, ending=None,
                    module_doc=False, same_named_top=False, same_named_after=False, nested=None, forward_decl=None):
    """module text with `def_src` (None = absent) placed among `sur`.  For dotted names ('C.meth', 'Outer.K'):
    the definition lives inside the enclosing class together with `class_members`; with same_named_top a module-level
    statement of the same simple name is put before the enclosing class.  `nested` (a NESTED_FORMS name): a compound
    statement holding a stand-in definition of the same simple name comes first in the scope of the definition."""
    chunks = list(sur)
    if "." in name:
        cls, short = name.split(".")[0], name.split(".")[-1]
        members = list(class_members or [])
        if def_src is not None:
            idx = {"before": 0, "after": len(members)}.get(position, len(members) // 2)
            if nested:
                members.insert(idx, nested_same_named(kind, short, nested))
                idx += 1
            members.insert(idx, def_src)
            if same_named_after:
                members.insert(idx + 1, "%s = register(%s)" % (short, short))
        if not members:
            members = ["pass"]
        body = "\n\n".join(indent_block(mm) for mm in members)
        cls_src = "class %s(object):\n%s" % (cls, body)
        idx = {"before": 0, "after": len(chunks)}.get(position, len(chunks) // 2)
        chunks.insert(idx, cls_src)
        if same_named_top and kind == "class":
            chunks.insert(0, rng.choice(["class %s(object):\n    marker = 1" % short, "%s = None" % short]))
    elif def_src is not None:
        idx = {"before": 0, "after": len(chunks)}.get(position, len(chunks) // 2)
        if nested:
            chunks.insert(idx, nested_same_named(kind, name, nested))
            idx += 1
        chunks.insert(idx, def_src)
        if same_named_after:
            # a later statement of the same scope that rebinds the name (registration / decoration by hand)
            chunks.insert(idx + 1, "%s = register(%s)" % (name, name) if kind == "class" else "%s = decorate(%s)" % (name, name))
        if forward_decl:
            # the name is bound first at the top of the module so that helpers defined above the definition can refer to it
            # (with a function or argparse-function target the unchanged tree raises AssertionError, get_function_type
            # being handed the assignment: recorded finding forward-declared-function-target-raises; the generator draws
            # the forward declaration of such a target rarely, see gen_scenario)
            chunks[0:0] = {"none": ["%s = None" % name],
                           "none-and-user": ["%s = None" % name, "def default_%s():\n    return %s" % (name.lower(), name)],
                           "annotated": ["%s: object = None" % name]}[forward_decl]
    if module_doc:
        chunks.insert(0, '"""Module documentation.\n\nSecond paragraph of it.\n"""')
    text = "\n\n\n".join(chunks)
    if text:
        text += ("\n" if trailing_newline else "") if ending is None else ending
    return text


# ------------------------------------------------------------------ scenarios
STALE_TMP = ["import os\n\n\ndef leftover(a,", "X = 1\n", "class Half(object):\n    pass\n", ""]
ENDINGS = ["\n", "\n", "\n", "", " ", "\t", "\n    ", "  # trailing comment ", "\n\n"]
BODIES = [
    ["print({p0})"],
    ["total = {p0}", "print(total, {p1})"],
    ["for _ in range(2):\n    print({p0})", "helper_value = len(str({p1}))"],
    ["if {p0}:\n    print({p1})\nelse:\n    print('none')"],
    # bodies that end in a return statement (literal return values are left out: parse.function turns them into
    # non-text return defaults on which emit.argparse_function / emit.function raise - the return-entry findings of
    # C03/C05/C16)
    ["print({p0})", "return"],
    ["if {p0}:\n    return", "print({p1})", "return"],
    ["total = {p0}", "print(total)", "return"],
    # local declarations: annotated assignments, bare annotations, augmented assignments, nested definitions, with /
    # try / while / assert / del / global statements - none of them interface, all of them carried
    ["totals: dict = {{}}", "count: int = 0", "label: str", "label = str({p0})", "totals[label] = count", "print(totals, {p1})"],
    ["seen: list = []", "seen += [{p0}]", "assert seen, 'nothing seen'", "del seen[0]", "print({p1})"],
    ["def inner(value):\n    return (value, {p0})", "pair: tuple = inner({p1})", "print(pair)"],
    ["with open(__file__) as handle:\n    first: str = handle.readline()", "try:\n    print(first, {p0})\nexcept ValueError as error:\n    print(error)\nfinally:\n    print({p1})"],
    ["global LAST_RUN", "LAST_RUN = {p0}", "while False:\n    break", "ratio: float", "print(LAST_RUN, {p1})", "return"],
]


def _draw_nested(rng):
    """one draw decides the stratum (so that the scenarios of a seed stay what they were before the rarer stratum existed):
    [0, P_NESTED) a stand-in in an except handler, [P_NESTED, P_NESTED + P_NESTED_NON_SCOPE) one in a statement that opens
    no scope, the form taken from the position inside the band"""
    r = rng.random()
    if r < P_NESTED:
        return rng.choice(NESTED_FORMS)
    if r < P_NESTED + P_NESTED_NON_SCOPE:
        return NESTED_FORMS_NON_SCOPE[min(len(NESTED_FORMS_NON_SCOPE) - 1,
                                          int((r - P_NESTED) / P_NESTED_NON_SCOPE * len(NESTED_FORMS_NON_SCOPE)))]
    return None


def _draw_forward_decl(rng, kind):
    """the forward declaration of the target's name: a class target in P_FORWARD_DECL of the draws, a function or
    argparse-function target in P_FORWARD_DECL_FUNCTION of them (the lower end of the same draw)"""
    r = rng.random()
    form = rng.choice(["none", "none-and-user", "annotated"]) if r < P_FORWARD_DECL else None
    return form if (kind == "class" or r < P_FORWARD_DECL_FUNCTION) else None


def gen_scenario(rng, via="api", runs=2, allow_known=True):
    truth = rng.choice(KINDS)
    given = set(KINDS) if rng.random() < 0.6 else {truth, rng.choice([k for k in KINDS if k != truth])}
    meth = rng.random() < (0.3 if allow_known else 0.0)
    nested_cls = allow_known and rng.random() < 0.2
    cname = rng.choice(["ConfigClass", "Config", "TrainConfig"])
    names = {"class": ("Outer.%s" % cname) if nested_cls else cname,
             "argparse_function": rng.choice(["set_cli_args", "build_parser_args"]),
             "function": ("C.%s" % rng.choice(["train", "function_name"])) if meth else rng.choice(["train", "fit"])}
    targets = {}
    for k in KINDS:
        if k == truth or k not in given:
            continue
        pre = rng.choice(PRE_STATES)
        if k == "class" and rng.random() < 0.15:
            pre = "stale-tail"
        elif rng.random() < 0.05:
            pre = "hardlink"
        targets[k] = {"pre": pre, "stale_tmp": rng.random() < 0.08, "same_named_after": rng.random() < 0.2, "n_sur": rng.randint(0, 4), "position": rng.choice(["before", "between", "after"]),
                      "trailing_newline": True, "ending": rng.choice(ENDINGS), "sur_seed": rng.randint(0, 10 ** 9),
                      "members": rng.randint(0, 2), "module_doc": rng.random() < 0.25,
                      "same_named_top": rng.random() < 0.5,
                      # a stand-in of the same simple name defined conditionally (fallback of a failed import) before the
                      # definition proper
                      "nested": _draw_nested(rng),
                      # a method target whose receiver is declared positional-only: def m(self, /, ...)
                      "receiver": "posonly" if rng.random() < 0.3 else None,
                      # a function target written with positional-or-keyword parameters: def f(a=1) rather than def f(*, a=1)
                      "style": "positional" if rng.random() < 0.3 else None,
                      # the target's name is forward-declared at the top of its module (X = None ... class X)
                      # (a function / argparse-function target: rarely - sync raises on such a file)
                      "forward_decl": _draw_forward_decl(rng, k)}
    if targets and rng.random() < 0.08:
        # the file holding the truth is ALSO named as the file of another kind: it must still never be modified
        targets[rng.choice(sorted(targets))]["alias_truth"] = True
    body = rng.randint(0, len(BODIES) - 1) if (truth == "function" and rng.random() < 0.6) else None
    if body is not None and rng.random() < 0.6:
        # a second file of the truth's kind: it is a target and receives the carried body
        targets["function#2"] = {"pre": rng.choice(["missing", "empty", "absent"]), "n_sur": rng.randint(0, 3),
                                 "position": rng.choice(["before", "between", "after"]), "trailing_newline": True,
                                 "ending": "\n", "sur_seed": rng.randint(0, 10 ** 9), "members": 0, "module_doc": False,
                                 "same_named_top": False}
    second = truth + "#2"
    if second not in targets and rng.random() < (0.7 if via in ("cli", "main") else 0.15):
        # a second file of the truth's kind (whatever the kind): named after the truth on the command line, it is a target
        # like any other; more often than not it already holds a definition (an older copy of the truth)
        targets[second] = {"pre": "stale" if rng.random() < 0.5 else rng.choice(PRE_STATES),
                           "n_sur": rng.randint(0, 3), "position": rng.choice(["before", "between", "after"]),
                           "trailing_newline": True, "ending": "\n", "sur_seed": rng.randint(0, 10 ** 9), "members": 0,
                           "module_doc": False, "same_named_top": False}
    files = None
    if rng.random() < (0.8 if via in ("cli", "main") else 0.2):
        # the files carry names of their own (not <kind>.py): in particular the truth need not sort first among the
        # files of its kind
        files = {}
        for k in KINDS:
            pool = rng.sample(FILE_NAMES[k], 2)
            files[k] = pool[0]
            if k + "#2" in targets:
                files[k + "#2"] = pool[1]
    scn = {"truth": truth, "given": sorted(given), "names": names, "targets": targets, "ir_seed": rng.randint(0, 10 ** 9),
            "files": files,
            # the order of the options on the command line (the files of one kind keep their relative order: the first
            # file of the truth's kind is the truth)
            "argv_seed": rng.randint(0, 10 ** 9) if rng.random() < 0.5 else None,
            "via": via, "runs": runs, "truth_sur": rng.randint(0, 2), "truth_sur_seed": rng.randint(0, 10 ** 9),
            "symlink": rng.random() < 0.2, "tilde": rng.random() < 0.15, "body": body,
            "with_returns": truth in ("argparse_function", "class") and rng.random() < 0.5,
            "wide": rng.randint(74, 110) if rng.random() < 0.45 else None,
            # after the regular runs: the truth is edited (its modification time kept) and sync runs once more
            "truth_edit": rng.random() < 0.25,
            # a method truth whose receiver is declared positional-only: def m(self, /, ...)
            "receiver": "posonly" if rng.random() < 0.5 else None,
            # a function truth written with positional-or-keyword parameters: def f(a=1) rather than def f(*, a=1)
            "style": "positional" if rng.random() < 0.5 else None}
    return draw_extras(scn)


# texts of a file that exists and holds ZERO statements (pre-state "empty"): touched, blank lines only, comments only
ZERO_TEXTS = ["", "\n", "\n\n\n", "   \n", "# placeholder\n", "# Copyright (c) the authors\n# SPDX-License-Identifier: MIT\n\n",
              "#!/usr/bin/env python\n# -*- coding: utf-8 -*-\n", "# no final newline"]
P_INNER_SAME_NAMED_ABSENT, P_INNER_SAME_NAMED, P_SPECIAL_SUR, P_ZERO_TEXT, P_PROSE_SPECIAL, P_ALTERNATE = 0.4, 0.15, 0.25, 0.6, 0.25, 0.3


def alternate_eligible(scn):
    """a history in which the KIND named as truth changes between runs is drawn for scenarios whose interface converts
    between all kinds without loss and bytewise stably: no return entry (judged modulo returns everywhere), no parameter
    line at the formatting widths (the docstring of a hand-written class truth with such a line is re-wrapped once when the
    class becomes a target), no file named twice, no separate truth-edit phase"""
    return (not scn.get("with_returns") and not scn.get("wide") and not scn.get("truth_edit") and len(scn["given"]) >= 2
            and not any(t.get("alias_truth") or t["pre"] == "hardlink" for t in scn["targets"].values()))


def draw_alternate(xr, scn, length=None, p_third=0.3):
    """truth kinds of the runs that follow the regular ones: two of the given kinds in turn (the first differs from the
    regular truth when it can), sometimes a third in between"""
    given = list(scn["given"])
    k1 = xr.choice([k for k in given if k != scn["truth"]] or given)
    k2 = xr.choice([k for k in given if k != k1])
    seq = [k1, k2] * 3
    if len(given) > 2 and xr.random() < p_third:
        seq.insert(2, next(k for k in given if k not in (k1, k2)))
    return seq[:length or xr.choice([3, 4, 4, 5])]


def draw_extras(scn):
    """the strata added later, drawn from a generator of their own (seeded by the scenario's ir_seed) so that everything
    drawn before stays, for a seed, what it was:
    per target: a definition of the target's simple name BELOW the top level (pre-states with a text; a top-level target);
    sibling definitions whose docstrings hold tabs inside lines, `%`, braces, backslashes; for the pre-state "empty" a file
    that holds blank lines or comments only;
    per scenario: prose with such characters; a history whose later runs name another KIND as truth"""
    import random
    xr = random.Random(scn["ir_seed"] * 31 + 17)
    for tk in sorted(scn["targets"]):
        t = scn["targets"][tk]
        k = kind_of(tk)
        r1, r2, r3 = xr.random(), xr.random(), xr.random()
        form, idxs, zero = xr.choice(INNER_SAME_NAMED), sorted(xr.sample(range(len(SPECIAL_HELPERS)), xr.choice([1, 1, 2]))), xr.choice(ZERO_TEXTS)
        if t["pre"] in ("absent", "stale", "agreeing", "stale-tail") and "." not in scn["names"][k] \
                and r1 < (P_INNER_SAME_NAMED_ABSENT if t["pre"] == "absent" else P_INNER_SAME_NAMED):
            t["inner_same_named"] = form
        if t["pre"] in ("absent", "stale", "agreeing", "stale-tail") and r2 < P_SPECIAL_SUR:
            t["special_sur"] = idxs
        if t["pre"] == "empty" and r3 < P_ZERO_TEXT:
            t["zero_text"] = zero
    r1, r2 = xr.random(), xr.random()
    spec = {"token": xr.choice(list(PROSE_SPECIAL)), "where": "param" if xr.random() < 0.8 else "summary", "index": xr.randint(0, 3)}
    alt = draw_alternate(xr, scn)
    if r1 < P_PROSE_SPECIAL:
        scn["prose_special"] = spec
    if r2 < P_ALTERNATE and alternate_eligible(scn):
        scn["alternate"] = alt
    return scn


def gen_history_scenario(rng, via="api", runs=2):
    """a scenario of the history stratum: every kind given at the top level of its file, the interface in the bytewise
    stable family (see alternate_eligible), more often than not prose with a special character, and after the regular
    runs four or five more in which the kind named as truth alternates: nobody edits a file, so none may change"""
    import random
    while True:
        scn = gen_scenario(rng, via=via, runs=runs, allow_known=False)
        scn.update(with_returns=False, wide=None, truth_edit=False)
        scn.pop("alternate", None)
        if len(scn["given"]) == 3 and alternate_eligible(scn):
            break
    xr = random.Random(scn["ir_seed"] * 37 + 5)
    scn["alternate"] = draw_alternate(xr, scn, length=xr.choice([4, 5]), p_third=0.6)
    if xr.random() < 0.9:
        scn["prose_special"] = {"token": xr.choice(list(PROSE_SPECIAL)), "where": "param" if xr.random() < 0.85 else "summary",
                                "index": xr.randint(0, 3)}
    else:
        scn.pop("prose_special", None)
    scn["history_stratum"] = True
    return scn


def gen_kindset_history_scenario(rng, via="api", runs=2):
    """a scenario of the history stratum in which the SET OF KINDS given varies from run to run while the truth (kind, file,
    text) stays what it was: the regular runs name all three kinds, then five or six more name all three or the truth and one
    other kind (two kinds are enough), in a drawn order.  Every target is written from the truth alone, so after the first run
    no later run may change any file.  More often than not the truth carries a return entry (a typed one with a default, or
    `-> None` with a documented `:returns:`); the interface is judged modulo returns as everywhere."""
    import random
    while True:
        scn = gen_scenario(rng, via=via, runs=runs, allow_known=False)
        scn.update(wide=None, truth_edit=False)
        scn.pop("alternate", None)
        if len(scn["given"]) == 3 and alternate_eligible(dict(scn, with_returns=False)):
            break
    xr = random.Random(scn["ir_seed"] * 41 + 3)
    r = xr.random()
    # (a function truth: `-> None` with a documented `:returns:` or no return entry; a class / argparse-function truth: a typed
    # return entry with a default or none, as in the regular scenarios.  Not drawn, because the unchanged tree fails on them
    # before any history: a class truth documenting `return_type: None = None` gives an argparse function whose return
    # statement doctrans cannot read back; a function truth `-> int` ending in `return 5` makes sync raise TypeError)
    scn["with_returns"] = r < (0.8 if scn["truth"] == "function" else 0.6)
    scn["returns_form"] = "none-documented" if scn["with_returns"] and scn["truth"] == "function" else None
    others = [k for k in KINDS if k != scn["truth"]]
    sets = [sorted(KINDS), sorted([scn["truth"], others[0]]), sorted([scn["truth"], others[1]])]
    seq, last = [], sets[0]
    for _ in range(xr.choice([5, 6])):
        last = xr.choice([g for g in sets if g != last] + ([last] if xr.random() < 0.3 else []))
        seq.append(last)
    scn["alternate"] = [scn["truth"]] * len(seq)
    scn["alternate_given"] = seq
    scn.pop("prose_special", None)
    scn["history_stratum"] = "kind-set"
    return scn


# the shapes of recorded findings that the regular draws reach only rarely
KNOWN_SHAPES = ["stand-in-in-non-scope-statement", "forward-declared-function-target"]


def gen_known_shape(rng, shape, via="api", runs=2):
    """a generated scenario on which the shape of a recorded finding is imposed (everything else stays as drawn):
    stand-in-in-non-scope-statement: a top-level class target that differs from the truth, with a same-named class in an
    if / else / try / with before it;  forward-declared-function-target: a top-level function or argparse-function target
    whose file holds the definition, its name bound by an assignment at the top of the module"""
    want = (lambda k: k == "class") if shape == KNOWN_SHAPES[0] else (lambda k: k in ("function", "argparse_function"))
    while True:
        scn = gen_scenario(rng, via=via, runs=runs)
        ks = [k for k in sorted(scn["targets"]) if want(k)]
        if ks:
            break
    k = rng.choice(ks)
    t = scn["targets"][k]
    t.pop("alias_truth", None)
    scn["names"][k] = scn["names"][k].split(".")[-1]
    if shape == KNOWN_SHAPES[0]:
        t.update(pre=rng.choice(["stale", "stale", "stale-tail"]), nested=rng.choice(NESTED_FORMS_NON_SCOPE), forward_decl=None)
    else:
        t.update(pre=rng.choice(["stale", "agreeing"]), forward_decl=rng.choice(["none", "none-and-user", "annotated"]))
    scn["known_shape"] = shape
    return scn


def build_project(scn, root):
    """writes the files; returns dict(paths, gold_ir, expected defs)"""
    import random
    rng = random.Random(scn["ir_seed"])
    ir = apply_prose_special(safe_ir(rng, with_returns=bool(scn.get("with_returns")), wide=scn.get("wide"), returns_form=scn.get("returns_form")), scn.get("prose_special"))
    stale = mutate_ir(rng, ir)
    paths = {k: os.path.join(root, file_of(k, scn)) for k in KINDS}
    for tk in scn["targets"]:
        paths[tk] = os.path.join(root, file_of(tk, scn))
    truth, names = scn["truth"], scn["names"]
    for tk, t in scn["targets"].items():
        if t.get("alias_truth"):
            paths[tk] = paths[truth]
    ftype = "self" if "." in names["function"] else "static"
    # truth file
    tname = names[truth].split(".")[-1]
    gold_ir = write_truth(scn, ir, paths[truth], ftype)
    for tk, t in scn["targets"].items():
        k = kind_of(tk)
        srng = random.Random(t["sur_seed"])
        sur = surroundings(srng, t["n_sur"])
        members = [srng.choice(["def run(self):\n    pass", "z: int = 1", "def train_helper(self, a):\n    return a"])
                   for _ in range(t["members"])]
        name = names[k]
        short = name.split(".")[-1]
        pre = t["pre"]
        if t.get("alias_truth"):
            continue
        if t.get("stale_tmp"):
            # left behind by an earlier run that was killed between writing and renaming
            with open(paths[tk] + ".doctrans-tmp", "w") as f:
                f.write(srng.choice(STALE_TMP))
        if pre == "missing":
            continue
        if pre == "hardlink":
            os.link(paths[truth], paths[tk])
            continue
        if pre == "empty":
            text = t.get("zero_text") or ""
        else:
            if t.get("special_sur"):
                # sibling definitions whose docstrings hold tabs inside lines, `%`, braces, backslashes (placed by a generator
                # of their own)
                xr = random.Random(t["sur_seed"] + 1)
                for j in t["special_sur"]:
                    sur.insert(xr.randint(0, len(sur)), SPECIAL_HELPERS[j])
            if t.get("inner_same_named"):
                # the target's simple name occurs below the top level of the module, before or after the place of the definition
                xr = random.Random(t["sur_seed"] + 2)
                sur.insert(xr.randint(0, len(sur)), inner_same_named(k, short, t["inner_same_named"]))
            if pre == "absent":
                dsrc = None
            elif pre == "stale":
                dsrc = def_source(k, stale, short, ftype if k == "function" else "static", t.get("receiver"), t.get("style"))
            elif pre == "stale-tail" and k == "class":
                node = emit_def(k, gold_ir if gold_ir is not None else ir, short)
                first = 1 if ast.get_docstring(node) is not None else 0
                if len(node.body) - first >= 2 and srng.random() < 0.5:
                    node.body.pop()
                else:
                    node.body.append(ast.parse("extra_attribute: int = 7").body[0])
                dsrc = ast.unparse(node)
            else:
                dsrc = def_source(k, gold_ir if gold_ir is not None else ir, short, ftype if k == "function" else "static",
                                  t.get("receiver"), t.get("style"))
            text = assemble_target(srng, k, name, dsrc, sur, t["position"], t["trailing_newline"], members,
                                   ending=t.get("ending"), module_doc=t.get("module_doc", False),
                                   same_named_top=t.get("same_named_top", False),
                                   same_named_after=t.get("same_named_after", False), nested=t.get("nested"),
                                   forward_decl=t.get("forward_decl"))
        with open(paths[tk], "w") as f:
            f.write(text)
    return {"paths": paths, "ir": ir, "stale": stale, "gold_ir": gold_ir, "ftype": ftype}


def write_truth(scn, ir, path, ftype, keep_mtime=False):
    """(re)writes the truth file for interface `ir`; returns the truth as doctrans reads it (None if it cannot)"""
    import random
    truth, names = scn["truth"], scn["names"]
    tname = names[truth].split(".")[-1]
    tsrc = def_source(truth, ir, tname, ftype, scn.get("receiver"), scn.get("style"))
    if scn.get("body") is not None and truth == "function":
        pn = list(ir["params"]) or ["None"]
        lines = [l.format(p0=pn[0], p1=pn[-1]) for l in BODIES[scn["body"]]]
        tsrc = tsrc + "\n" + "\n".join(indent_block(l) for l in lines)
    trng = random.Random(scn["truth_sur_seed"])
    ttext = assemble_target(trng, truth, names[truth], tsrc, surroundings(trng, scn["truth_sur"]), "after", True,
                            class_members=[])
    st = os.stat(path) if keep_mtime and os.path.exists(path) else None
    with open(path, "w") as f:
        f.write(ttext)
    if st is not None:
        os.utime(path, ns=(st.st_atime_ns, st.st_mtime_ns))
    # the truth as doctrans reads it
    m = impl()
    tree = m.source_transformer.ast_parse(ttext, filename=path)
    gold_node = m.ast_utils.find_in_ast(names[truth].split("."), tree)
    try:
        return {"class": lambda n: m.parse.class_(n, class_name=tname),
                "function": lambda n: m.parse.function(n, function_name=tname, function_type=m.ast_utils.get_function_type(n)),
                "argparse_function": lambda n: m.parse.argparse_ast(n, function_name=tname,
                                                                   function_type=m.ast_utils.get_function_type(n))}[truth](gold_node)
    except Exception:  # noqa
        return None


def snapshot(root, dirs=False):
    """{relative path: bytes}; with dirs=True also {relative path of every directory + "/": None}"""
    out = {}
    for dp, ds, fs in os.walk(root):
        if dirs:
            for d in ds:
                out[os.path.relpath(os.path.join(dp, d), root) + "/"] = None
        for fn in fs:
            p = os.path.join(dp, fn)
            with open(p, "rb") as f:
                out[os.path.relpath(p, root)] = f.read()
    return out


def access_paths(scn, root, paths):
    """the paths as handed to doctrans: through a symlinked directory when the scenario says so"""
    if scn.get("tilde"):
        # "~" expands through $HOME, which run_api / run_cli point at the project root
        return {k: os.path.join("~", os.path.basename(v)) for k, v in paths.items()}
    if not scn.get("symlink"):
        return paths
    link = root.rstrip("/") + ".link"
    if not os.path.islink(link):
        os.symlink(root, link)
    return {k: os.path.join(link, os.path.basename(v)) for k, v in paths.items()}


def namespace_for(scn, paths):
    kw = {"truth": scn["truth"]}
    for k in KINDS:
        if k in scn["given"]:
            kw[PLURAL[k]] = [paths[k]] + [paths[tk] for tk in sorted(scn["targets"]) if "#" in tk and kind_of(tk) == k]
            kw[k + "_names"] = [scn["names"][k]]
        else:
            kw[PLURAL[k]] = None
            kw[k + "_names"] = None
    return Namespace(**kw)


def cli_argv(scn, paths):
    pairs = [("--truth", scn["truth"])]
    opt = {"argparse_function": ("--argparse-function", "--argparse-function-name"), "class": ("--class", "--class-name"),
           "function": ("--function", "--function-name")}
    for k in KINDS:
        if k in scn["given"]:
            pairs += [(opt[k][0], paths[k]), (opt[k][1], scn["names"][k])]
            for tk in sorted(scn["targets"]):
                if "#" in tk and kind_of(tk) == k:
                    pairs.append((opt[k][0], paths[tk]))
    if scn.get("argv_seed") is not None:
        # any order of the options; the values of a repeated option keep their order (first file of a kind first)
        import random
        order = list(pairs)
        random.Random(scn["argv_seed"]).shuffle(order)
        queues = {}
        for o, v in pairs:
            queues.setdefault(o, []).append(v)
        pairs = [(o, queues[o].pop(0)) for o, _ in order]
    return ["sync"] + [x for pr in pairs for x in pr]


# ------------------------------------------------------------------ instrumented run (API)
class Recorder:
    """wraps the layers used by conformance._conform_filename and records their answers per call"""

    def __init__(self):
        self.calls = []
        self.cur = None

    @contextlib.contextmanager
    def installed(self, fault=None):
        m = impl()
        c = m.conformance
        orig = {"conform": c._conform_filename, "find": c.find_in_ast, "cmp": c.cmp_ast, "ast_parse": c.ast_parse,
                "RAQ": c.RewriteAtQuery, "file": m.emit.file}
        rec = self

        def conform(filename, search, emit_func, replacement_node_ir, type_wanted):
            real = os.path.realpath(os.path.expanduser(filename))
            old = None
            if os.path.isfile(real):
                with open(real) as f:
                    old = f.read()
            tmp_old = None
            if os.path.isfile(real + ".doctrans-tmp"):
                with open(real + ".doctrans-tmp") as f:
                    tmp_old = f.read()
            rec.cur = {"file": real, "tmp_old": tmp_old, "search": list(search), "kind": {"argparse_function": "argparse_function", "class_": "class",
                                                                        "function": "function"}[emit_func.__name__],
                       "old": old, "emit": None, "parse": None, "found": False, "found_type": None, "type_ok": True, "cmp": False,
                       "replaced": False,
                       "render": None, "write_mode": None, "result": None, "stdout": None}

            def wrapped_emit(*a, **kw):
                try:
                    r = emit_func(*a, **kw)
                except Exception as e:  # noqa
                    rec.cur["emit"] = ("err", exc_kind(e))
                    raise
                rec.cur["emit"] = ("ok",)
                rec.cur["type_ok"] = type(r) == type_wanted
                return r
            wrapped_emit.__name__ = emit_func.__name__
            buf = io.StringIO()
            try:
                with contextlib.redirect_stdout(buf):
                    res = orig["conform"](filename=filename, search=search, emit_func=wrapped_emit,
                                          replacement_node_ir=replacement_node_ir, type_wanted=type_wanted)
                rec.cur["result"] = ("ok", res[1])
                return res
            except Exception as e:  # noqa
                rec.cur["result"] = ("err", exc_kind(e))
                raise
            finally:
                rec.cur["stdout"] = buf.getvalue()
                sys.stdout.write(buf.getvalue())
                new = None
                if os.path.isfile(real):
                    with open(real) as f:
                        new = f.read()
                rec.cur["new"] = new
                rec.cur["tmp_left"] = os.path.exists(real + ".doctrans-tmp")
                rec.cur["tmp_new"] = None
                if rec.cur["tmp_left"]:
                    with open(real + ".doctrans-tmp") as f:
                        rec.cur["tmp_new"] = f.read()
                rec.calls.append(rec.cur)
                rec.cur = None

        def find(search, node):
            r = orig["find"](search, node)
            if rec.cur is not None:
                rec.cur["found"] = r is not None
                # what kind of node was handed back (the definition, or e.g. an assignment to the same name)
                rec.cur["found_type"] = type(r).__name__ if r is not None else None
            return r

        depth = [0]

        def cmp(a, b):
            depth[0] += 1
            try:
                r = orig["cmp"](a, b)
            finally:
                depth[0] -= 1
            if rec.cur is not None and depth[0] == 0:
                rec.cur["cmp"] = bool(r)
            return r

        def ast_parse(src, **kw):
            try:
                r = orig["ast_parse"](src, **kw)
            except Exception as e:  # noqa
                if rec.cur is not None:
                    rec.cur["parse"] = ("err", exc_kind(e))
                raise
            if rec.cur is not None:
                rec.cur["parse"] = ("ok",)
            return r

        class RAQ(orig["RAQ"]):
            def visit(self, node):
                r = super().visit(node)
                if rec.cur is not None and isinstance(node, ast.Module):
                    rec.cur["replaced"] = bool(self.replaced)
                return r

        def file(node, filename, mode="a", skip_black=False):
            # render exactly as emit.file does, to learn the rendered text or the rendering error
            if rec.cur is not None:
                rec.cur["write_mode"] = mode
                try:
                    n2 = node
                    if isinstance(node, (ast.ClassDef, ast.FunctionDef)):
                        n2 = ast.Module(body=[node], type_ignores=[])
                    src = m.source_transformer.to_code(n2)
                    if not skip_black:
                        from black import Mode, format_str
                        src = format_str(src, mode=Mode(target_versions=set(), line_length=119, is_pyi=False,
                                                        string_normalization=False))
                    rec.cur["render"] = ("ok", src)
                except Exception as e:  # noqa
                    rec.cur["render"] = ("err", exc_kind(e))
            if fault is not None:
                fault.arm(filename)
            try:
                return orig["file"](node, filename, mode=mode, skip_black=skip_black)
            finally:
                if fault is not None:
                    fault.disarm()

        c._conform_filename, c.find_in_ast, c.cmp_ast, c.ast_parse, c.RewriteAtQuery = conform, find, cmp, ast_parse, RAQ
        m.emit.file = file
        try:
            yield self
        finally:
            c._conform_filename, c.find_in_ast, c.cmp_ast = orig["conform"], orig["find"], orig["cmp"]
            c.ast_parse, c.RewriteAtQuery = orig["ast_parse"], orig["RAQ"]
            m.emit.file = orig["file"]


def run_api(scn, paths, recorder=None, fault=None, home=None):
    """one ground_truth call; returns dict(result | exception, stdout)"""
    m = impl()
    ns = namespace_for(scn, paths)
    buf = io.StringIO()
    out = {"calls": None}
    ctx = recorder.installed(fault) if recorder is not None else contextlib.nullcontext()
    old_home = os.environ.get("HOME")
    if home is not None:
        os.environ["HOME"] = home
    try:
        with ctx, contextlib.redirect_stdout(buf):
            # as __main__.main does: the truth file is expanded and resolved before ground_truth is called
            r = m.conformance.ground_truth(ns, os.path.realpath(os.path.expanduser(paths[scn["truth"]])))
        out["result"] = [(os.path.basename(k), bool(v)) for k, v in r.items()]
        out["exception"] = None
    except Exception as e:  # noqa
        out["result"] = None
        out["exception"] = exc_kind(e)
        out["exception_text"] = "%s: %s" % (type(e).__name__, e)
    finally:
        if home is not None:
            if old_home is None:
                os.environ.pop("HOME", None)
            else:
                os.environ["HOME"] = old_home
    out["stdout"] = buf.getvalue()
    return out


def run_main(scn, paths, recorder=None, fault=None, home=None):
    """the command line's entry point called in this process: doctrans.__main__.main(argv) on the argument vector of the
    command line (argument handling included, no child process, so the layers can be recorded); returns as run_api"""
    m = impl()
    argv = cli_argv(scn, paths)
    buf, ebuf = io.StringIO(), io.StringIO()
    out = {"calls": None, "argv": argv}
    ctx = recorder.installed(fault) if recorder is not None else contextlib.nullcontext()
    old_home = os.environ.get("HOME")
    if home is not None:
        os.environ["HOME"] = home
    try:
        with ctx, contextlib.redirect_stdout(buf), contextlib.redirect_stderr(ebuf):
            r = m.main_mod.main(list(argv))
        out["result"] = [(os.path.basename(k), bool(v)) for k, v in r.items()]
        out["exception"] = None
    except SystemExit as e:
        out["result"] = None
        out["exception"] = None if e.code in (0, None) else "exit-%s" % (e.code,)
    except Exception as e:  # noqa
        out["result"] = None
        out["exception"] = exc_kind(e)
        out["exception_text"] = "%s: %s" % (type(e).__name__, e)
    finally:
        if home is not None:
            if old_home is None:
                os.environ.pop("HOME", None)
            else:
                os.environ["HOME"] = old_home
    out["stdout"] = buf.getvalue()
    out["stderr"] = ebuf.getvalue()[-600:]
    return out


def run_cli(argv, cwd=None, timeout=120, extra_env=None):
    env = dict(os.environ, PYTHONPATH=REPO, PYTHONHASHSEED="0")
    env.pop("DOCTRANS_LINE_LENGTH", None)
    if extra_env:
        env.update(extra_env)
    p = subprocess.run([VENV_PY, "-m", "doctrans"] + argv, cwd=cwd, env=env, stdout=subprocess.PIPE, stderr=subprocess.PIPE,
                       timeout=timeout)
    return {"rc": p.returncode, "stdout": p.stdout.decode("utf-8", "replace"), "stderr": p.stderr.decode("utf-8", "replace")}


def run_scenario(scn, record=True):
    """build, run `runs` times, snapshot between runs.  Returns everything the judges need."""
    root = tempfile.mkdtemp(prefix="doctrans-verif-sync.")
    try:
        proj = build_project(scn, root)
        paths = access_paths(scn, root, proj["paths"])
        snaps = [snapshot(root)]
        runs = []
        rec_calls = []
        for i in range(scn["runs"]):
            if scn["via"] == "cli":
                r = run_cli(cli_argv(scn, paths), extra_env={"HOME": root})
                run = {"exception": None if r["rc"] == 0 else ("exit-%d" % r["rc"]), "stdout": r["stdout"], "stderr": r["stderr"][-600:],
                       "result": None}
            else:
                rec = Recorder() if record else None
                run = (run_main if scn["via"] == "main" else run_api)(scn, paths, rec, home=root)
                if rec is not None:
                    rec_calls.append(rec.calls)
            runs.append(run)
            snaps.append(snapshot(root))
        edit = None
        if scn.get("truth_edit"):
            # the truth changes (same path, same modification time), then sync runs once more in the same process
            gold2 = write_truth(scn, proj["stale"], proj["paths"][scn["truth"]], proj["ftype"], keep_mtime=True)
            before = snapshot(root)
            if scn["via"] == "cli":
                r = run_cli(cli_argv(scn, paths), extra_env={"HOME": root})
                run = {"exception": None if r["rc"] == 0 else ("exit-%d" % r["rc"]), "stdout": r["stdout"], "stderr": r["stderr"][-600:],
                       "result": None}
                calls = None
            else:
                rec = Recorder() if record else None
                run = (run_main if scn["via"] == "main" else run_api)(scn, paths, rec, home=root)
                calls = rec.calls if rec is not None else None
            edit = {"gold_ir": gold2, "run": run, "before": before, "after": snapshot(root), "calls": calls}
        alt = None
        if scn.get("alternate"):
            # the history goes on: nobody edits a file, only the KIND named as truth changes from run to run (the truth of
            # such a run is the first file of that kind; every other file named is a target, the former truth's file included)
            alt = []
            for j_alt, kind in enumerate(scn["alternate"]):
                scn_k = dict(scn, truth=kind)
                if scn.get("alternate_given"):
                    # the set of kinds named varies too (a subset of the kinds of the regular runs that holds the truth's kind)
                    scn_k["given"] = list(scn["alternate_given"][j_alt])
                before = snapshot(root)
                if scn["via"] == "cli":
                    r = run_cli(cli_argv(scn_k, paths), extra_env={"HOME": root})
                    run = {"exception": None if r["rc"] == 0 else ("exit-%d" % r["rc"]), "stdout": r["stdout"], "stderr": r["stderr"][-600:],
                           "result": None}
                    calls = None
                else:
                    rec = Recorder() if record else None
                    run = (run_main if scn["via"] == "main" else run_api)(scn_k, paths, rec, home=root)
                    calls = rec.calls if rec is not None else None
                alt.append({"truth": kind, "given": list(scn_k["given"]), "run": run, "before": before, "after": snapshot(root), "calls": calls})
        return {"scn": scn, "edit": edit, "alt": alt, "proj": {k: v for k, v in proj.items() if k != "paths"},
                "paths": {k: os.path.basename(v) for k, v in paths.items()},
                "root": root, "snaps": snaps, "runs": runs, "calls": rec_calls}
    finally:
        shutil.rmtree(root, ignore_errors=True)
        if os.path.islink(root.rstrip("/") + ".link"):
            os.remove(root.rstrip("/") + ".link")


# ------------------------------------------------------------------ fault injection inside emit.file
class Fault:
    """Implementation-agnostic I/O fault for ONE emit.file call (the first one whose target basename is `target`):
    every I/O operation the call performs -- open for reading, open for writing, each write(), os.replace -- is
    counted; operation number `op_index` raises OSError (a write first lets `k` characters through).  With
    op_index=None nothing fails and the operations are only logged (`ops`), which is how the fault points of a call
    are enumerated."""

    def __init__(self, target, op_index=None, k=0):
        self.target, self.op_index, self.k = target, op_index, k
        self.fired, self.armed, self.done = False, False, False
        self.filename, self.ops, self.fired_op = None, [], None

    def wire(self):
        """the fault as the Coq model knows it (None when the fired operation has no counterpart in the model)"""
        from common import Sym
        op = self.fired_op
        if op is None:
            return Sym("nofault")
        if op[0] == "open-r":
            return Sym("fail-read-old")
        if op[0] == "open-w" and op[1] == "tmp":
            return Sym("fail-open-tmp")
        if op[0] in ("write", "close") and op[1] == "tmp":
            # an error at close leaves the same state as one inside write: a prefix in the temporary file
            return [Sym("fail-write-tmp"), self.k]
        if op[0] == "replace":
            return Sym("fail-replace")
        return None

    def _op(self, desc):
        """log one operation; True when it is the one that must fail"""
        idx = len(self.ops)
        self.ops.append(desc)
        if self.op_index is not None and idx == self.op_index and not self.fired:
            self.fired, self.fired_op = True, desc
            return True
        return False

    def arm(self, filename):
        if self.done or os.path.basename(filename) != self.target:
            return
        m = impl()
        self.armed, self.filename = True, filename
        fault = self
        real_open = open
        tmp = filename + ".doctrans-tmp"

        def which(p):
            return "tmp" if p == tmp else "target" if p == filename else "other"

        class W:
            """a fully buffered text file: write() only queues; the characters reach the file when it is closed
            (as with Python's own buffering for small outputs), so an I/O error can also surface at close"""

            def __init__(self, f, p):
                self.f, self.p, self.buf, self.closed_ = f, p, [], False

            def write(self, s):
                if fault._op(("write", which(self.p), len(s))):
                    self.f.write("".join(self.buf) + s[:fault.k])
                    self.buf = []
                    self.f.flush()
                    raise OSError("injected: write failed after %d characters" % fault.k)
                self.buf.append(s)
                return len(s)

            def flush(self):
                self.f.write("".join(self.buf))
                self.buf = []
                self.f.flush()

            def close(self):
                if self.closed_:
                    return
                self.closed_ = True
                pending = "".join(self.buf)
                self.buf = []
                if fault._op(("close", which(self.p), len(pending))):
                    self.f.write(pending[:fault.k])
                    self.f.close()
                    raise OSError("injected: flush at close failed after %d characters" % fault.k)
                self.f.write(pending)
                self.f.close()

            def read(self, *a):
                return self.f.read(*a)

            def __enter__(self):
                return self

            def __exit__(self, *a):
                self.close()
                return False

            def __getattr__(self, name):
                return getattr(self.f, name)

        def fake_open(p, mode="r", *a, **kw):
            writing = any(c in mode for c in "wax+")
            if fault._op(("open-w" if writing else "open-r", which(p), mode)):
                raise OSError("injected: open(%s, %r) failed" % (os.path.basename(p), mode))
            f = real_open(p, mode, *a, **kw)
            return W(f, p) if writing else f

        def fake_replace(a, b):
            if fault._op(("replace", which(a), which(b))):
                raise OSError("injected: replace failed")
            return os.replace(a, b)

        m.emit.open = fake_open
        self._real_replace = m.emit.replace if hasattr(m.emit, "replace") else None
        if self._real_replace is not None:
            m.emit.replace = fake_replace

    def disarm(self):
        if not self.armed:
            return
        m = impl()
        if "open" in vars(m.emit):
            del m.emit.open
        if self._real_replace is not None:
            m.emit.replace = self._real_replace
        self.armed, self.done = False, True


def fault_points(ops, rng=None):
    """(op_index, k) pairs covering every operation of a logged emit.file call; writes get several k"""
    pts = []
    for i, op in enumerate(ops):
        if op[0] in ("write", "close"):
            n = op[2]
            for k in sorted({0, 1, max(1, n // 2), max(1, n - 1)}):
                pts.append((i, k))
        else:
            pts.append((i, 0))
    return pts
