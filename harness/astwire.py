"""Python `ast` nodes -> the wire form of coq/model/PyAst.v (encode only; results are compared as text)."""
import ast
import copy

from common import Sym, opt, enc_pyval

UNARY = {"USub", "UAdd", "Not", "Invert"}


def _unparse(n):
    try:
        return ast.unparse(n)
    except Exception as e:  # noqa
        return "<unparse-error %s>" % type(e).__name__


def enc_expr(e):
    if e is None:
        raise ValueError("None where an expression is required")
    if isinstance(e, ast.Constant):
        v = e.value
        if v is None or isinstance(v, (bool, int, float, str)):
            return [Sym("const"), enc_pyval(v)]
        return [Sym("opaque"), _unparse(e)]
    if isinstance(e, ast.Name):
        if not isinstance(e.id, str):
            return [Sym("opaque"), "<Name id=%r>" % (e.id,)]
        return [Sym("name"), e.id]
    if isinstance(e, ast.Attribute):
        return [Sym("attr"), enc_expr(e.value), e.attr]
    if isinstance(e, ast.Subscript):
        sl = e.slice
        if isinstance(sl, ast.Index):  # pre-3.9 wrapper, still constructible
            sl = sl.value
        if isinstance(sl, ast.Slice) or isinstance(sl, ast.ExtSlice):
            return [Sym("opaque"), _unparse(e)]
        return [Sym("sub"), enc_expr(e.value), enc_expr(sl)]
    if isinstance(e, ast.Tuple):
        if any(isinstance(x, ast.Starred) for x in e.elts):
            return [Sym("opaque"), _unparse(e)]
        return [Sym("tuple"), [enc_expr(x) for x in e.elts]]
    if isinstance(e, ast.List):
        if any(isinstance(x, ast.Starred) for x in e.elts):
            return [Sym("opaque"), _unparse(e)]
        return [Sym("list"), [enc_expr(x) for x in e.elts]]
    if isinstance(e, ast.Dict):
        if any(k is None for k in e.keys):
            return [Sym("opaque"), _unparse(e)]
        return [Sym("dict"), [enc_expr(x) for x in e.keys], [enc_expr(x) for x in e.values]]
    if isinstance(e, ast.Call):
        if any(isinstance(x, ast.Starred) for x in e.args):
            return [Sym("opaque"), _unparse(e)]
        return [Sym("call"), enc_expr(e.func), [enc_expr(x) for x in e.args],
                [[opt(k.arg), enc_expr(k.value)] for k in e.keywords]]
    if isinstance(e, ast.UnaryOp) and type(e.op).__name__ in UNARY:
        return [Sym("unary"), type(e.op).__name__, enc_expr(e.operand)]
    if isinstance(e, ast.AST):
        return [Sym("opaque"), _unparse(e)]
    return [Sym("opaque"), "<non-ast %s>" % type(e).__name__]


def enc_arg(a):
    return [a.arg, opt(a.annotation, enc_expr)]


def enc_arguments(a):
    return [[enc_arg(x) for x in a.args], [enc_expr(x) for x in a.defaults],
            [enc_arg(x) for x in a.kwonlyargs], [opt(x, enc_expr) for x in a.kw_defaults],
            opt(a.vararg, enc_arg), opt(a.kwarg, enc_arg)]


def _blocks_and_head(s):
    """for an opaque statement: (head text, list of nested statement blocks)"""
    blocks = []
    c = copy.copy(s)
    for f in getattr(s, "_fields", ()):
        v = getattr(s, f, None)
        if isinstance(v, list) and v and all(isinstance(x, ast.stmt) for x in v):
            blocks.append(v)
            setattr(c, f, [ast.Pass()])
        elif isinstance(v, list) and v and all(isinstance(x, ast.ExceptHandler) for x in v):
            hs = []
            for h in v:
                blocks.append(h.body)
                h2 = copy.copy(h)
                h2.body = [ast.Pass()]
                hs.append(h2)
            setattr(c, f, hs)
        elif isinstance(v, list) and v and all(type(x).__name__ == "match_case" for x in v):
            cs = []
            for h in v:
                blocks.append(h.body)
                h2 = copy.copy(h)
                h2.body = [ast.Pass()]
                cs.append(h2)
            setattr(c, f, cs)
    return _unparse(c), blocks


def enc_stmt(s):
    if isinstance(s, ast.FunctionDef) and not getattr(s.args, "posonlyargs", None):
        return [Sym("func"), s.name, enc_arguments(s.args), [enc_stmt(x) for x in s.body],
                [enc_expr(x) for x in s.decorator_list], opt(s.returns, enc_expr)]
    if isinstance(s, ast.ClassDef) and not s.keywords:
        return [Sym("class"), s.name, [enc_expr(x) for x in s.bases], [enc_stmt(x) for x in s.body],
                [enc_expr(x) for x in s.decorator_list]]
    if isinstance(s, ast.AnnAssign):
        return [Sym("annassign"), enc_expr(s.target), enc_expr(s.annotation), opt(s.value, enc_expr)]
    if isinstance(s, ast.Assign):
        return [Sym("assign"), [enc_expr(x) for x in s.targets], enc_expr(s.value)]
    if isinstance(s, ast.Expr):
        return [Sym("expr"), enc_expr(s.value)]
    if isinstance(s, ast.Return):
        return [Sym("return"), opt(s.value, enc_expr)]
    if isinstance(s, ast.AST):
        head, blocks = _blocks_and_head(s)
        return [Sym("other"), type(s).__name__, head, [[enc_stmt(x) for x in b] for b in blocks]]
    return [Sym("other"), "non-ast", repr(type(s).__name__), []]


def enc_module(m):
    body = m.body if isinstance(m, ast.Module) else m
    return [enc_stmt(x) for x in body]


def enc_node(n):
    """any node the model can return: stmt, arg, expr, module, or None"""
    if n is None:
        return Sym("none")
    if isinstance(n, ast.Module):
        return [Sym("module"), enc_module(n)]
    if isinstance(n, ast.arg):
        return [Sym("arg"), enc_arg(n), opt(getattr(n, "default", None), enc_expr)]
    if isinstance(n, ast.stmt):
        return [Sym("stmt"), enc_stmt(n)]
    if isinstance(n, ast.expr):
        return [Sym("expr"), enc_expr(n)]
    return [Sym("unknown"), type(n).__name__]
