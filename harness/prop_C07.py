"""C07 — parsing source code is faithful to Python's own view of it.

Oracle: generated definitions (functions, methods, classes with an __init__) are executed; what parse.function /
parse.class_(merge_inner_function='__init__') report is compared with inspect.signature of the executed definition
(names minus self/cls, each once, source order, defaults, annotations) and with what the docstring says (prose,
documented type/default win).  Every failure is classified by the extracted Coq function finding_class_C07
(coq/model/C07Spec.v); the same executable Coq predicate C07_check is also applied to the implementation's output and
to the model's, and the three verdicts are cross-checked.
Environment stratum: every judged point is judged again by the same judge in child interpreters started with -O and
-OO (as a flag or through PYTHONOPTIMIZE) and under other PYTHONHASHSEED values ("independent of any run-to-run
variation"; what Python sees does not depend on how the interpreter was started, so what is parsed must not either).
Field-order stratum: a ReST `:type n:` field may stand before the `:param n:` / `:cvar n:` field it belongs to; "what the
docstring says" is then parse.docstring's reading of the same documentation written in the usual order (canon_field_order).
History stratum: the generated definitions form one batch parsed in one process, a few of them with a damaged docstring
that the docstring parser rejects part-way (the caller reports it and carries on); what is parsed for every definition
in the batch is compared with what is parsed for the same source alone, in a worker forked from a process that has
only imported doctrans (what Python sees of a definition does not depend on what was compiled before it).  Part of the
batch are groups of definitions (functions, methods, classes) whose docstring TEXT is byte-identical while their
signatures differ (a stub and its implementation, overloads, an old and a new version), next to each other or a few
definitions apart.
Class-attribute stratum (kind "classattrs"): classes whose body mixes annotated attributes and plain assignments, partly
documented, with or without an __init__: what parse.class_ reports (alone and merged with __init__) is compared with
vars(cls) / __annotations__ of the executed class: every attribute once, in Python's order, with its value and annotation."""
import ast
import collections
import copy
import inspect
import re

from common import Sym, dumps, loads, opt, impl, run_model, unhx, exc_kind
import astwire
import irwire
import fam_merge
import fam_parseast
import fam_parsesig

ID = "C07"
COQ_PROP = "C07"
# (parseast: parse.class_ on class bodies - annotated attributes, plain / multiple-target assignments, attributes bound
# twice, documented or not - against coq/model/ParseAst.v: the order and the values of what a class body contributes)
FAMILIES = [(fam_parsesig, 2500, 30000), (fam_merge, 1200, 15000), (fam_parseast, 1500, 12000)]
TECHNIQUE = ("Coq proof (names/order of parse.function's merge characterised exactly, unbounded in the number of "
             "parameters; per-parameter precedence/defaults/annotations under a boolean guard; refutation witness) "
             "+ differential correspondence of ParseSig.v/Merge.v against parse.function, _merge_inner_function, "
             "_set_name_and_type, ast.unparse, ast.literal_eval and inspect.signature")
TRUSTED = [
    "the docstring-derived IR is an input of the model: what the docstring says about each parameter is parse.docstring's own reading (docstring parser: another layer)",
    "ParseSig.show_expr / lit_eval / py_signature model CPython (ast.unparse, ast.literal_eval, inspect.signature) on the PyAst fragment; validated by the parsesig family, not proved",
    "needs_quoting is used through its frozen model Defaults.needs_quoting (type-expression parser TyExpr)",
    "class level (parse.class_ + merge_inner_function): the class IR that _merge_inner_function starts from is taken from the real parse.class_; only the merge is modelled (parse.class_ itself is compared with coq/model/ParseAst.v by the parseast family; the C07 theorems do not rest on that model)",
    "oracle: free names in generated definitions are executed as stub objects whose repr reconstructs their source",
    "oracle: what a ReST docstring says when a :type field stands directly before the :param/:cvar entry it belongs to is parse.docstring's reading of the same fields in the usual order (canon_field_order)",
    "oracle (history stratum): 'parsed alone' means parsed in a worker forked from a process that has only imported doctrans",
    "oracle (class attributes): Python's view of the attributes of a class is vars(cls) (functions, descriptors, nested classes and dunder names left out) and __annotations__; every failed clause of a classattrs point (order / value / raises) is classified on its own by coq/model/C07Spec2.v (finding_class_C07_r on PtClassAttrs), which runs the model of the class body (ParseAst.parse_class, tied to parse.class_ by the parseast family) on the point: a point is a known finding only when every failed clause is",
]
NONESTR = "```(None)```"
NONE_LIKE = (None, "None", NONESTR)


def _norm_ws(s):
    return " ".join((s or "").split())


def _is_none_like(v):
    return any(v is x or (isinstance(v, str) and isinstance(x, str) and v == x) for x in NONE_LIKE)


def _ns():
    """globals whose builtins answer every unknown name with a stub (LOAD_NAME consults a non-dict builtins mapping
    through __getitem__, in function headers and in class bodies alike)"""
    b = fam_parsesig.NS()
    b.update({"__build_class__": __build_class__, "object": object, "print": lambda *a, **k: None,
              "set": set, "dict": dict, "frozenset": frozenset, "list": list, "tuple": tuple})
    return {"__name__": "g", "__builtins__": b}


def _exec(src):
    import warnings
    ns = _ns()
    with warnings.catch_warnings():
        warnings.simplefilter("ignore")
        code = compile(src, "<generated>", "exec")
    exec(code, ns)
    return ns


def _same_default(v, s):
    """IR default v vs the object s that CPython evaluated"""
    if isinstance(v, ast.AST):
        return False, "default left in the IR as a raw ast node"
    if s is None:
        return (isinstance(v, str) and v == NONESTR), "signature default None reported as %r" % (v,)
    if isinstance(v, str) and isinstance(s, str) and v == s:
        return True, ""
    if isinstance(v, str) and len(v) > 6 and v.startswith("```") and v.endswith("```"):
        try:
            w = eval(v[3:-3], _ns())
        except Exception as e:  # noqa
            return False, "quoted default %r does not evaluate (%s)" % (v, type(e).__name__)
        import types
        if isinstance(s, types.FunctionType) and isinstance(w, types.FunctionType):   # lambdas: same code
            same = (w.__code__.co_code, w.__code__.co_consts, w.__code__.co_names) == \
                   (s.__code__.co_code, s.__code__.co_consts, s.__code__.co_names)
            return same, "quoted default %r is a different function from the signature's" % (v,)
        return (type(w) is type(s) and w == s), "quoted default %r evaluates to %r, signature has %r" % (v, w, s)
    ok = type(v) is type(s) and (repr(v) == repr(s) if isinstance(v, float) else v == s)
    return ok, "signature default %r reported as %r" % (s, v)


def check_params(sig_params, ann_src, ir_params, doc_params, only_order_among=None):
    """the property, judged against inspect.signature.  sig_params: inspect.Parameter list (self/cls dropped);
    ann_src: name -> source of annotation; doc_params: what the docstring says (parse.docstring's reading)"""
    want = [p.name for p in sig_params]
    got = list(ir_params)
    if only_order_among is None:
        if got != want:
            return False, "names/order: interface lists %r, Python sees %r" % (got, want)
    else:
        sub = [n for n in got if n in set(want)]
        if sorted(sub) != sorted(want) or len(sub) != len(set(sub)):
            return False, "names: __init__ parameters %r appear as %r" % (want, sub)
        if sub != want:
            return False, "order: __init__ parameters %r appear in the order %r" % (want, sub)
    for p in sig_params:
        rp = ir_params[p.name]
        dp = (doc_params or {}).get(p.name)
        dprose = dp.get("doc") if dp else None
        if dprose:
            if _norm_ws(rp.get("doc")) != _norm_ws(dprose):
                return False, "prose of %s: %r, docstring says %r" % (p.name, rp.get("doc"), dprose)
        elif rp.get("doc") and only_order_among is None:
            return False, "prose invented for %s: %r" % (p.name, rp.get("doc"))
        if p.kind is inspect.Parameter.VAR_KEYWORD:
            continue
        has_doc_default = dp is not None and "default" in dp and not _is_none_like(dp["default"])
        if has_doc_default:
            dv = dp["default"]
            dv = impl().pure_utils.unquote(dv) if isinstance(dv, str) else dv
            if "default" not in rp or type(rp["default"]) is not type(dv) or rp["default"] != dv:
                return False, "documented default of %s (%r) not kept: %r" % (p.name, dv, rp.get("default", "<absent>"))
        elif p.default is not inspect.Parameter.empty:
            if "default" not in rp:
                return False, "signature default of %s dropped" % p.name
            ok, what = _same_default(rp["default"], p.default)
            if not ok:
                return False, "%s: %s" % (p.name, what)
        elif "default" in rp and not _is_none_like(rp["default"]) and only_order_among is None:
            return False, "default invented for %s: %r" % (p.name, rp["default"])
        dtyp = dp.get("typ") if dp else None
        if dtyp is not None:
            base = dtyp[:-len(", optional")] if dtyp.endswith(", optional") else dtyp
            allowed = {dtyp, "Optional[%s]" % dtyp, "Optional[%s]" % base}
            if rp.get("typ") not in allowed:
                return False, "documented type of %s (%r) not kept: %r" % (p.name, dtyp, rp.get("typ"))
        elif p.name in ann_src and only_order_among is None:
            a = ann_src[p.name]
            if rp.get("typ") not in (a, "Optional[%s]" % a):
                return False, "annotation of %s (%s) reported as %r" % (p.name, a, rp.get("typ"))
    return True, ""


def _sig(f, drop):
    ps = list(inspect.signature(f).parameters.values())
    if drop and ps and ps[0].kind is inspect.Parameter.POSITIONAL_OR_KEYWORD and ps[0].name in ("self", "cls"):
        ps = ps[1:]
    return ps


def _ann_src(fd):
    a = fd.args
    return {x.arg: ast.unparse(x.annotation) for x in a.args + a.kwonlyargs + ([a.kwarg] if a.kwarg else [])
            if x.annotation is not None}


_FIELD = re.compile(r"^:(param|cvar|ivar|var|type) ([^:\s]+):")


def canon_field_order(ds):
    """the same ReST documentation with every `:type n:` line that stands directly before (blank lines apart) the
    `:param n:` / `:cvar n:` entry it belongs to moved to directly after that entry (its continuation lines included):
    the usual field order.  Anything else is left as it is."""
    if ds is None or ":type " not in ds:
        return ds
    lines = ds.split("\n")
    changed = True
    while changed:
        changed = False
        for i, l in enumerate(lines):
            mt = _FIELD.match(l)
            if not mt or mt.group(1) != "type":
                continue
            j = i + 1
            while j < len(lines) and not lines[j].strip():
                j += 1
            mp = _FIELD.match(lines[j]) if j < len(lines) else None
            if not mp or mp.group(1) == "type" or mp.group(2) != mt.group(2):
                continue
            k = j + 1
            while k < len(lines) and lines[k].strip() and not lines[k].startswith(":"):
                k += 1
            lines = lines[:i] + lines[j:k] + [l] + lines[i + 1:j] + lines[k:]
            changed = True
            break
    return "\n".join(lines)


def _canon_doc_tree(node):
    """a copy of the definition whose own docstring is written in the usual field order (the node itself when it already is)"""
    ds = ast.get_docstring(node)
    c = canon_field_order(ds)
    if c == ds:
        return copy.deepcopy(node)
    node = copy.deepcopy(node)
    node.body[0].value = ast.copy_location(ast.Constant(c), node.body[0].value)
    return node


def _doc_reading(ds):
    """what the docstring says: parse.docstring's reading of it in the usual field order"""
    return impl().parse.docstring(canon_field_order(ds).replace(":cvar", ":param")) if ds is not None else None


def _py_attrs(cls):
    """Python's own view of the attributes of an executed class: [(name, value)] of vars(cls) in its order (no dunder
    names, no functions / descriptors / nested classes) and the names of __annotations__ in its order"""
    import types
    vs = [(n, v) for n, v in vars(cls).items() if not (n.startswith("__") and n.endswith("__"))
          and not isinstance(v, (types.FunctionType, classmethod, staticmethod, property, type))]
    return vs, list(vars(cls).get("__annotations__", {}))


def class_attrs_failed_clauses(tree, cls, ir_params, doc_params, init_names=None):
    """the property for the attributes of a class, judged against vars(cls) / __annotations__: EVERY failed clause, as
    [{clause, what, entry, got, order}] (clause: "order" - got / order are the attributes as parsed / as Python has them -,
    "value" - entry is the attribute -, "other").  ir_params: what was parsed; doc_params: what the class docstring says;
    init_names: names of the parameters of the merged __init__ (None: not merged; for those names value, type and prose
    are judged by check_params)."""
    out = []

    def fail(clause, what, entry=None, got=None, order=None):
        out.append({"clause": clause, "what": what, "entry": entry, "got": got or [], "order": order or []})

    vs, anns = _py_attrs(cls)
    # (a name first annotated without a value and bound later has no single place in Python's view: not ordered here)
    late = {e.target.id for e in tree.body if isinstance(e, ast.AnnAssign) and e.value is None and isinstance(e.target, ast.Name)}
    valued = [n for n, _ in vs if n not in late]
    vs = [(n, v) for n, v in vs if n not in late]
    anns = [n for n in anns if n not in late or n not in dict(vars(cls))]
    ann_only = [n for n in anns if n not in set(valued)]
    doc_params = doc_params or {}
    for n in valued + ann_only:
        if n not in ir_params:
            fail("other", "attribute %s is missing from the parsed class" % n, n)
            return out
    # order: Python's, whatever the class docstring names
    for label, order in (("vars(cls)", valued), ("__annotations__ (attributes without a value)", ann_only)):
        got = [n for n in ir_params if n in set(order)]
        if got != order:
            fail("order", "order: attributes appear as %r, %s has %r" % (got, label, order), None, got, order)
    ann_src = {}
    for e in tree.body:
        if isinstance(e, ast.AnnAssign) and isinstance(e.target, ast.Name):
            ann_src[e.target.id] = ast.unparse(e.annotation)
    for n in valued + ann_only:
        if init_names is not None and n in init_names:
            continue
        rp, dp = ir_params[n], doc_params.get(n) or {}
        if dp.get("doc"):
            if _norm_ws(rp.get("doc")) != _norm_ws(dp["doc"]):
                fail("other", "prose of %s: %r, docstring says %r" % (n, rp.get("doc"), dp["doc"]), n)
        elif rp.get("doc"):
            fail("other", "prose invented for %s: %r" % (n, rp.get("doc")), n)
        if n in dict(vs):
            if "default" not in rp:
                fail("value", "value of attribute %s dropped" % n, n)
            else:
                ok, what = _same_default(rp["default"], dict(vs)[n])
                if not ok:
                    fail("value", "%s: %s" % (n, what.replace("signature default", "attribute value")), n)
        elif "default" in rp and not _is_none_like(rp["default"]):
            fail("value", "value invented for %s: %r" % (n, rp["default"]), n)
        if n in anns and dp.get("typ") is None:
            a = ann_src.get(n)
            if rp.get("typ") not in (a, "Optional[%s]" % a):
                fail("other", "annotation of %s (%s) reported as %r" % (n, a, rp.get("typ")), n)
    return out


def check_class_attrs(tree, cls, ir_params, doc_params, init_names=None):
    """(holds, every failed clause in one line)"""
    fs = class_attrs_failed_clauses(tree, cls, ir_params, doc_params, init_names)
    return (not fs), "; ".join(f["what"] for f in fs)


def class_attrs_findings(case):
    """C07 for the attributes of one generated class: parse.class_ alone and merged with __init__, against the executed
    class -> (None, why) when the point cannot be judged, else (failures, ""): every failed clause of both readings as
    {clause, what, entry, got, order, exn, ir (what parse.class_ returned, or None), label}"""
    m = impl()
    tree = ast.parse(case["src"]).body[0]
    try:
        cls = next(v for v in _exec(case["src"]).values() if inspect.isclass(v))
    except Exception as e:  # noqa
        return None, "definition does not execute: %s" % type(e).__name__
    try:
        doc_ir = _doc_reading(ast.get_docstring(tree))
    except Exception as e:  # noqa
        return None, "docstring parser raises %s" % type(e).__name__
    init = fam_parsesig._walk_find(tree, "__init__")
    init_names = None
    if init is not None:   # names whose value / type / prose may come from the __init__: its parameters and what its docstring names
        init_names = {x.arg for x in init.args.args + init.args.kwonlyargs} | ({init.args.kwarg.arg} if init.args.kwarg else set())
        try:
            init_names |= set(((_doc_reading(ast.get_docstring(init)) or {}).get("params") or {}))
        except Exception:  # noqa  the merge is judged by the points of kind "class"
            init_names = False
    out = []
    for label, kw, names in (("class", {}, None), ("class merged with __init__", {"merge_inner_function": "__init__"}, init_names)):
        if names is False:
            continue
        try:
            ir = m.parse.class_(copy.deepcopy(tree), **kw)
        except Exception as e:  # noqa
            if names is not None:      # the merge itself is judged by the points of kind "class"
                continue
            out.append({"clause": "raises", "what": "class: parse.class_ raises %s" % type(e).__name__, "entry": None,
                        "got": [], "order": [], "exn": type(e).__name__, "ir": None, "label": label})
            return out, ""
        for f in class_attrs_failed_clauses(tree, cls, ir["params"], (doc_ir or {}).get("params"), names):
            out.append(dict(f, what="%s: %s" % (label, f["what"]), exn=None, ir=ir, label=label))
    return out, ""


def class_attrs_hold(case):
    """(holds, every failed clause of both readings in one line)"""
    fs, why = class_attrs_findings(case)
    if fs is None:
        return None, why
    return (not fs), "; ".join(f["what"] for f in fs)


def attrs_class_request(case, f):
    """wire request: the finding class (coq/model/C07Spec2.v) of one failed clause of a classattrs point"""
    m = impl()
    tree = ast.parse(case["src"]).body[0]
    ds = ast.get_docstring(tree)
    di = None
    if ds is not None:     # what parse.class_ itself starts from
        try:
            di = ("ok", m.parse.docstring(ds.replace(":cvar", ":param"), emit_default_doc=False))
        except Exception as e:  # noqa
            di = ("err", exc_kind(e))
    try:
        res = opt(f.get("ir"), irwire.enc_ir)
        dumps(res)
    except Exception:  # noqa  (a value that does not travel: the classifier is asked without the result)
        res = Sym("none")
    return dumps([Sym("c07_attrs_class"), Sym(f["clause"] if f["clause"] in ("order", "value", "raises") else "other"),
                  opt(di, fam_parseast._enc_outcome_ir), astwire.enc_stmt(tree), opt(f.get("entry")),
                  list(f.get("got") or []), list(f.get("order") or []), res, opt(f.get("exn"))])


def impl_holds(case):
    """evaluate C07 at one generated definition on the real code -> (holds, what)"""
    if case["kind"] == "classattrs":
        return class_attrs_hold(case)
    m = impl()
    src = case["src"]
    tree = ast.parse(src).body[0]
    try:
        ns = _exec(src)
    except Exception as e:  # noqa
        return None, "definition does not execute: %s" % type(e).__name__
    if case["kind"] == "function":
        f = next(v for v in ns.values() if inspect.isfunction(v))
        ds = ast.get_docstring(tree)
        try:
            doc_ir = _doc_reading(ds)
        except Exception as e:  # noqa
            return None, "docstring parser raises %s" % type(e).__name__
        try:
            ir = m.parse.function(copy.deepcopy(tree))
        except Exception as e:  # noqa
            return False, "parse.function raises %s" % type(e).__name__
        return check_params(_sig(f, True), _ann_src(tree), ir["params"], (doc_ir or {}).get("params"))
    # class merged with its __init__
    cls = next(v for v in ns.values() if inspect.isclass(v))
    init = fam_parsesig._walk_find(tree, "__init__")
    try:
        base = m.parse.class_(_canon_doc_tree(tree))
        ds = ast.get_docstring(init) if init is not None else None
        doc_ir = _doc_reading(ds)
    except Exception as e:  # noqa
        return None, "parse.class_ / docstring parser raises %s" % type(e).__name__
    try:
        ir = m.parse.class_(copy.deepcopy(tree), merge_inner_function="__init__")
    except Exception as e:  # noqa
        return False, "parse.class_(merge_inner_function='__init__') raises %s" % type(e).__name__
    if init is None:
        return (list(ir["params"]) == list(base["params"])), "class without __init__ changed by the merge"
    try:   # the definition that ast.walk finds, executed on its own
        f = next(v for v in _exec(ast.unparse(init)).values() if inspect.isfunction(v))
    except Exception as e:  # noqa
        return None, "definition does not execute: %s" % type(e).__name__
    ps = list(inspect.signature(f).parameters.values())
    if init.args.args and ps and ps[0].name == init.args.args[0].arg and ps[0].name in ("self", "cls"):
        ps = ps[1:]
    for n in base["params"]:
        if list(ir["params"]).count(n) != 1:
            return False, "class attribute %s dropped or duplicated by the merge" % n
    # documented = the class's own entries (they take precedence), then the __init__ docstring
    docd = dict((doc_ir or {}).get("params") or {})
    for n, p in base["params"].items():
        # (a None-like class-attribute default is a gap, not documentation: it does not hide what the __init__ docstring says)
        docd[n] = dict(docd.get(n, {}), **{k: v for k, v in p.items()
                                           if v is not None and not (k == "default" and _is_none_like(v)
                                                                     and "default" in docd.get(n, {}))})
    return check_params(ps, _ann_src(init), ir["params"], docd, only_order_among=True)


def check_case(case):
    if "src" in case and case.get("after") is not None:
        return check_history(case)
    if "src" in case and case.get("interp") is not None:
        res = run_in_child([{"kind": case["kind"], "src": case["src"]}], case["interp"], case.get("hashseed", 0))
        if isinstance(res, str):
            return False, res
        return (res[0][0] is not False), res[0][1]
    if "src" in case:
        ok, what = impl_holds(case)
        return (ok is not False), what
    return True, ""


# ------------------------------------------------------------------ environment stratum
# "however the interpreter was started": the same judge (impl_holds: execute the definition, inspect.signature, parse,
# compare) evaluated in child interpreters started with other flags / hash seeds.  -O (== PYTHONOPTIMIZE=1) removes
# assert statements and sets __debug__ False, -OO also strips the docstrings of the *library* (the generated
# definition's own docstring is read from its source text by ast, so it is still there); PYTHONHASHSEED moves every
# str-keyed set/dict-of-set iteration.
CHILD = r"""
import json, sys
sys.path.insert(0, sys.argv[1])
import prop_C07
pts = json.load(sys.stdin)
out = []
for p in pts:
    try:
        ok, what = prop_C07.impl_holds(p)
    except BaseException as e:  # noqa
        ok, what = None, "judge raised %s" % type(e).__name__
    out.append([ok, what])
json.dump({"optimize": sys.flags.optimize, "hash_randomization": sys.flags.hash_randomization, "results": out}, sys.stdout)
"""


def run_in_child(pts, interp, hashseed=0, via_env=False):
    """[(ok, what)] of impl_holds for every point, judged in `python <interp...>` under PYTHONHASHSEED=hashseed
    (via_env: the optimisation level is passed as PYTHONOPTIMIZE instead of a flag); a str on failure of the child"""
    import json
    import os
    import subprocess
    from common import VENV_PY, REPO
    env = dict(os.environ, PYTHONPATH=REPO, VERIF_REPO=REPO, PYTHONHASHSEED=str(hashseed), PYTHONDONTWRITEBYTECODE="1")
    env.pop("DOCTRANS_LINE_LENGTH", None)
    env.pop("PYTHONOPTIMIZE", None)
    flags = list(interp)
    if via_env and flags:
        env["PYTHONOPTIMIZE"] = str(sum(f.count("O") for f in flags))
        flags = []
    p = subprocess.run([VENV_PY] + flags + ["-c", CHILD, os.path.dirname(os.path.abspath(__file__))],
                       input=json.dumps([{"kind": x["kind"], "src": x["src"]} for x in pts]).encode(), env=env,
                       stdout=subprocess.PIPE, stderr=subprocess.PIPE, timeout=900)
    if p.returncode != 0:
        return "child interpreter %r (PYTHONHASHSEED=%s) failed: %s" % (interp, hashseed, p.stderr.decode("utf-8", "replace")[-500:])
    r = json.loads(p.stdout.decode())
    want = sum(f.count("O") for f in interp)
    if r["optimize"] != want:
        return "child interpreter %r runs at optimisation level %s" % (interp, r["optimize"])
    return [tuple(x) for x in r["results"]]


def env_configs(rng, tier):
    """(flags, hash seed, level passed through the environment?) of the child interpreters"""
    cfgs = [(["-O"], 0, False), (["-O"], rng.randrange(1, 1000), rng.random() < 0.5), ([], rng.randrange(1, 1000), False),
            (["-OO"], rng.randrange(0, 1000), False)]
    if tier != "quick":
        cfgs += [(rng.choice([[], ["-O"], ["-OO"]]), rng.randrange(1, 100000), rng.random() < 0.3) for _ in range(6)]
    return cfgs


# ------------------------------------------------------------------ history stratum
def _canon_ir(v):
    if isinstance(v, ast.AST):
        return ["ast", ast.dump(v)]
    if isinstance(v, dict):
        return [[str(k), _canon_ir(x)] for k, x in v.items()]
    if isinstance(v, (list, tuple)):
        return [type(v).__name__] + [_canon_ir(x) for x in v]
    if isinstance(v, (set, frozenset)):
        return ["set"] + sorted(repr(x) for x in v)
    return repr(v)


def ir_digest(case):
    """everything parse.function / parse.class_(merge_inner_function='__init__') reports for the definition, as JSON-able
    data (key order kept); "raises <Exception>" when the parse is rejected"""
    m = impl()
    tree = ast.parse(case["src"]).body[0]
    try:
        ir = m.parse.function(tree) if case["kind"] == "function" else m.parse.class_(tree, merge_inner_function="__init__")
    except Exception as e:  # noqa
        return "raises " + type(e).__name__
    return _canon_ir(ir)


# a task is a list of definitions parsed one after the other in ONE worker process forked from a process that has only
# imported doctrans; the answer is the list of their digests
CHILD_HIST = r"""
import json, os, sys
sys.path.insert(0, sys.argv[1])
import prop_C07
from common import impl
impl()
tasks = json.load(sys.stdin)
out = []
for task in tasks:
    r, w = os.pipe()
    pid = os.fork()
    if pid == 0:
        try:
            os.close(r)
            res = []
            for p in task:
                try:
                    res.append(prop_C07.ir_digest(p))
                except BaseException as e:  # noqa
                    res.append("digest raised %s" % type(e).__name__)
            data = json.dumps(res).encode()
            while data:
                data = data[os.write(w, data):]
        finally:
            os._exit(0)
    os.close(w)
    buf = b""
    while True:
        chunk = os.read(r, 1 << 16)
        if not chunk:
            break
        buf += chunk
    os.close(r)
    os.waitpid(pid, 0)
    out.append(json.loads(buf.decode()) if buf else None)
json.dump(out, sys.stdout)
"""


def run_tasks(tasks):
    """digests of every task (see CHILD_HIST); a str when the child process fails"""
    import json
    import os
    import subprocess
    from common import VENV_PY, REPO
    env = dict(os.environ, PYTHONPATH=REPO, VERIF_REPO=REPO, PYTHONHASHSEED="0", PYTHONDONTWRITEBYTECODE="1")
    env.pop("DOCTRANS_LINE_LENGTH", None)
    env.pop("PYTHONOPTIMIZE", None)
    p = subprocess.run([VENV_PY, "-c", CHILD_HIST, os.path.dirname(os.path.abspath(__file__))],
                       input=json.dumps([[{"kind": x["kind"], "src": x["src"]} for x in t] for t in tasks]).encode(), env=env,
                       stdout=subprocess.PIPE, stderr=subprocess.PIPE, timeout=900)
    if p.returncode != 0:
        return "history child failed: %s" % p.stderr.decode("utf-8", "replace")[-500:]
    r = json.loads(p.stdout.decode())
    if len(r) != len(tasks) or any(x is None or len(x) != len(t) for x, t in zip(r, tasks)):
        return "history child: a worker died"
    return r


def _digest_diff(alone, after):
    """one line saying where two digests differ"""
    if isinstance(alone, str) or isinstance(after, str):
        return "alone: %s; in the batch: %s" % (alone if isinstance(alone, str) else "parsed", after if isinstance(after, str) else "parsed")
    da, db = dict((k, v) for k, v in alone), dict((k, v) for k, v in after)
    for k in da:
        if da[k] != db.get(k):
            if k == "params" and isinstance(da[k], list) and isinstance(db.get(k), list):
                pa, pb = dict((n, v) for n, v in da[k]), dict((n, v) for n, v in db[k])
                if list(pa) != list(pb):
                    return "parameters alone %r, in the batch %r" % (list(pa), list(pb))
                for n in pa:
                    if pa[n] != pb[n]:
                        return "parameter %s alone %r, in the batch %r" % (n, pa[n], pb[n])
            return "%s alone %.200r, in the batch %.200r" % (k, da[k], db.get(k))
    return "digests differ"


def check_history(case):
    """a definition parsed after the definitions case['after'] (same process, in that order) is parsed as it is alone"""
    me = {"kind": case["kind"], "src": case["src"]}
    r = run_tasks([[me], list(case["after"]) + [me]])
    if isinstance(r, str):
        return False, r
    alone, after = r[0][0], r[1][-1]
    if alone != after:
        return False, "what is parsed depends on what was parsed before in the same process: " + _digest_diff(alone, after)
    return True, ""


def history_failures(pts, hist, limit=6):
    """the batch pts parsed in one process, against every definition parsed alone -> failures"""
    r = run_tasks([pts] + [[p] for p in pts])
    if isinstance(r, str):
        return [{"case": {"run": "history"}, "what": r, "class": None}], 0
    seq, alone = r[0], [x[0] for x in r[1:]]
    bad = [i for i in range(len(pts)) if seq[i] != alone[i]]
    hist["history:same-as-alone"] += len(pts) - len(bad)
    hist["history:differs-from-alone"] += len(bad)
    hist["history:rejected-in-batch"] += sum(1 for x in seq if isinstance(x, str))
    failures = []
    for i in bad[:limit]:
        # the shortest recent history after which the definition is parsed differently, then a single culprit in it
        ks = sorted(set(min(k, i) for k in (1, 2, 4, 8, 16, 32, 64, 128, 256, 512, 1024, 4096, 1 << 20)))
        rr = run_tasks([pts[i - k:i + 1] for k in ks])
        after = pts[:i]
        if not isinstance(rr, str):
            k = next((k for k, x in zip(ks, rr) if x[-1] != alone[i]), None)
            if k is not None:
                after = pts[i - k:i]
                if 1 < k <= 64:
                    r1 = run_tasks([[q, pts[i]] for q in after])
                    if not isinstance(r1, str):
                        j = next((j for j, x in enumerate(r1) if x[-1] != alone[i]), None)
                        if j is not None:
                            after = [after[j]]
        failures.append({"case": {"kind": pts[i]["kind"], "src": pts[i]["src"],
                                  "after": [{"kind": q["kind"], "src": q["src"]} for q in after]},
                         "what": "what is parsed depends on what was parsed before in the same process: " + _digest_diff(alone[i], seq[i]),
                         "class": None})
    return failures, 2 * len(pts)


# ------------------------------------------------------------------ generation
GN_HEAVY = ["google", "numpy", "google", "numpy", "google", "numpy", "google", "numpy", "all", "some"]


def gen_points(rng, n, batch=0):
    """n definitions of the standard mix (field order and documented defaults in every style; a few damaged docstrings),
    followed by `batch` definitions of the batch mix: mostly Google / numpydoc docstrings, many documented defaults, more
    damaged docstrings (a batch in which some definitions are rejected and the ones after them are well-formed).
    In both parts: classes whose body mixes annotated and plain attributes (each is two points: kind "class" and kind
    "classattrs"), and groups of 2-4 definitions - functions, methods, classes - that share their docstring text while
    their signatures differ, next to each other or with one or two other definitions in between."""
    pts = []

    def add_function(src, tags):
        if not fam_parsesig._ok_source(src):
            return False
        pts.append({"kind": "function", "src": src, "tags": tags})
        return True

    def add_class(src, tags, attrs=False):
        if not fam_parsesig._ok_source(src) or "*args" in src:
            return False
        pts.append({"kind": "class", "src": src, "tags": tags})
        if attrs:
            pts.append({"kind": "classattrs", "src": src, "tags": tags + ["classattrs"]})
        return True

    while len(pts) < n + batch:
        std = len(pts) < n
        kw = dict(receiver_names=0.08, type_first=0.3, gn_defaults=0.3, malformed=0.04, near_receiver=0.08) if std else \
            dict(receiver_names=0.03, type_first=0.3, gn_defaults=0.5, malformed=0.4, dmodes=GN_HEAVY, near_receiver=0.04)
        extra = [] if std else ["batch"]
        r = rng.random()
        if r < 0.68:
            src, info = fam_parsesig.gen_def(rng, allow_vararg=False, **kw)
            add_function(src, info["tags"] + extra)
        elif r < 0.82:
            src, tags = fam_parsesig.gen_class(rng, class_types=0.4, **kw)
            add_class(src, tags + extra)
        elif r < 0.90:
            for src, tags in fam_parsesig.gen_attr_classes(rng, 1, ann_nonscalar=0.05, tuple_target=0.04, **kw):
                add_class(src, tags + extra, attrs=True)
        else:
            # a group sharing its docstring text
            k = rng.choice([2, 2, 3, 4])
            spread = rng.random() < 0.3
            g = rng.random()
            if g < 0.45:      # functions
                members = [("function", s_, i_["tags"]) for s_, i_ in fam_parsesig.gen_def_variants(rng, k, kind="static", **kw)]
            elif g < 0.75:    # methods
                members = [("function", s_, i_["tags"]) for s_, i_ in
                           fam_parsesig.gen_def_variants(rng, k, kind=rng.choice(["self", "self", "cls"]), **kw)]
            else:             # classes: the same class docstring and the same __init__ docstring
                members = [("class", s_, t_) for s_, t_ in
                           fam_parsesig.gen_attr_classes(rng, k, ann_nonscalar=0.05, tuple_target=0.04, **kw)]
            for j, (kind, src, tags) in enumerate(members):
                tags = tags + extra + ["shared-doc-group"]
                if kind == "function":
                    add_function(src, tags)
                else:
                    add_class(src, tags, attrs=True)
                if spread and j + 1 < len(members):
                    for _ in range(rng.choice([1, 2])):
                        src2, info2 = fam_parsesig.gen_def(rng, allow_vararg=False, **kw)
                        add_function(src2, info2["tags"] + extra)
    return pts


def _model_requests(p):
    """wire requests for one point, or None when the model has nothing to say (class level / docstring parser raises)"""
    m = impl()
    if p["kind"] == "classattrs":      # classified per failed clause (attrs_class_request, coq/model/C07Spec2.v)
        return None
    tree = ast.parse(p["src"]).body[0]
    if p["kind"] == "function":
        fd = tree
    else:
        fd = fam_parsesig._walk_find(tree, "__init__")
        if fd is None:
            return None
    ds = ast.get_docstring(fd)
    try:
        d = _doc_reading(ds)
    except Exception:  # noqa
        return None
    dw, fw = opt(d, irwire.enc_ir), astwire.enc_stmt(fd)
    reqs = [dumps([Sym("c07_class"), dw, fw]), dumps([Sym("c07_model_holds"), dw, fw])]
    if p["kind"] == "function":
        try:
            r = m.parse.function(copy.deepcopy(fd))
            reqs.append(dumps([Sym("c07_check"), dw, fw, irwire.enc_ir(r)]))
        except Exception:  # noqa
            pass
    else:
        try:
            base = m.parse.class_(_canon_doc_tree(tree))
            reqs.append(dumps([Sym("c07_class_merge"), irwire.enc_ir(base), dw, fw]))
        except Exception:  # noqa
            pass
    return reqs


def oracle(rng, tier):
    n, nb = (800, 500) if tier == "quick" else (13500, 6000)
    pts = gen_points(rng, n, nb)
    reqs, idx = [], []
    for i, p in enumerate(pts):
        rq = _model_requests(p)
        if rq:
            idx.append((i, len(reqs), len(rq)))
            reqs.extend(rq)
    # class attributes: every failed clause of a point is classified on its own (coq/model/C07Spec2.v)
    attr_fs, areqs, aidx = {}, [], []
    for i, p in enumerate(pts):
        if p["kind"] == "classattrs":
            fs, why = class_attrs_findings(p)
            attr_fs[i] = (fs, why)
            if fs:
                aidx.append((i, len(reqs) + len(areqs), len(fs)))
                areqs.extend(attrs_class_request(p, f) for f in fs)
    outs = run_model(reqs + areqs)
    info = {}
    for i, start, k in idx:
        info[i] = outs[start:start + k]
    attr_cls = {}
    for i, start, k in aidx:
        attr_cls[i] = [None if c == "none" else unhx(c[1]) for c in (loads(o) for o in outs[start:start + k])]
    failures, hist, seen, disagree, judged = [], collections.Counter(), set(), [], {}
    for i, p in enumerate(pts):
        if p["kind"] == "classattrs":
            fs, why = attr_fs[i]
            if fs is None:
                hist["skipped:" + why.split(":")[0]] += 1
                continue
            what, clss = "; ".join(f["what"] for f in fs), attr_cls.get(i, [])
            unclassified = [f for f, c in zip(fs, clss) if c is None]
            cls = None if unclassified or not fs else clss[0]
            hist["classattrs:" + ("holds" if not fs else "fails") + ":" + (
                "in-guard" if not fs else "unclassified-clause" if unclassified else "+".join(sorted(set(clss))))] += 1
            for t in p["tags"]:
                if t.startswith(("shared-doc", "attr-pattern:", "class-doc:")) or t in (
                        "attr-rebound", "annotation-only", "ann-nonscalar", "tuple-target"):
                    hist["stratum:" + t] += 1
            judged[i] = (not fs, what, cls)
            if not fs and len(p["tags"]) >= 2:
                seen.add(p["src"])
            # one record per unclassified clause (at most three), one per known class met at the point
            for f in unclassified[:3]:
                failures.append({"case": {"kind": p["kind"], "src": p["src"]}, "what": f["what"], "class": None})
            for c in sorted(set(c for c in clss if c is not None)):
                f = next(f for f, c2 in zip(fs, clss) if c2 == c)
                failures.append({"case": {"kind": p["kind"], "src": p["src"]}, "what": f["what"], "class": c})
            continue
        ok, what = impl_holds(p)
        if ok is None:
            hist["skipped:" + what.split(":")[0]] += 1
            continue
        o = info.get(i)
        cls, mholds, chk = None, None, None
        if o:
            ce = loads(o[0])
            if ce == "out-of-domain":
                hist["out-of-domain:" + ("holds" if ok else "fails")] += 1
                continue
            cls = None if ce == "none" else unhx(ce[1])
            mholds = o[1]
            if len(o) > 2 and p["kind"] == "function":
                c = loads(o[2])
                chk = c[0] == "true" and all(x[1] == "true" for x in c[1])
            if len(o) > 2 and p["kind"] == "class" and cls is None:
                ce2 = loads(o[2])
                cls = None if ce2 == "none" else unhx(ce2[1])
        if cls == "unmodelled":
            hist["skipped-unmodelled:" + ("holds" if ok else "fails")] += 1
            continue
        hist[p["kind"] + ":" + ("holds" if ok else "fails") + ":" + (cls or "in-guard")] += 1
        for t in p["tags"]:
            if t.startswith(("shared-doc", "attr-pattern:", "class-doc:")) or t in ("attr-rebound", "annotation-only"):
                hist["stratum:" + t] += 1
        judged[i] = (ok, what, cls)
        if cls is None and ok and len(p["tags"]) >= 2:
            seen.add(p["src"])
        if p["kind"] == "function":
            # the Coq predicate on the implementation's output, the model's own verdict, and the Python judge agree
            if chk is not None and chk != ok and cls is None:
                disagree.append({"case": p, "coq_check_on_impl_output": chk, "python_judge": ok, "what": what})
            if cls is None and mholds != "true":
                disagree.append({"case": p, "model_holds": mholds, "python_judge": ok, "what": "guard true but model verdict " + str(mholds)})
            if cls is not None and cls != "unmodelled" and ok and mholds == "true" and False:
                pass
        if not ok:
            failures.append({"case": {"kind": p["kind"], "src": p["src"]}, "what": what, "class": cls})
    # ---- environment stratum: the points judged above, judged again in child interpreters (-O, -OO, other hash seeds)
    env_evals = 0
    order = sorted(judged)
    sub = [pts[i] for i in order]
    cfgs = env_configs(rng, tier)
    from concurrent.futures import ThreadPoolExecutor
    with ThreadPoolExecutor(max_workers=min(8, len(cfgs) + 1)) as ex:
        hjob = ex.submit(history_failures, [p for p in pts if p["kind"] != "classattrs"], hist)
        results = list(ex.map(lambda c: run_in_child(sub, c[0], c[1], c[2]), cfgs))
        hfail, hevals = hjob.result()
    failures.extend(hfail)
    env_evals += hevals
    for (flags, hseed, via_env), res in zip(cfgs, results):
        label = "python %s PYTHONHASHSEED=%s" % (" ".join(flags) or "(no flag)", hseed)
        if isinstance(res, str):
            failures.append({"case": {"run": label}, "what": res, "class": None})
            continue
        env_evals += len(res)
        reported = 0
        for i, (cok, cwhat) in zip(order, res):
            ok, what, cls = judged[i]
            key = "env:%s:%s" % (" ".join(flags) or "plain", "holds" if cok else "skipped" if cok is None else "fails")
            hist[key] += 1
            if cok is False and not (ok is False and what == cwhat):
                hist["env:fails-only-or-differently-in-child"] += 1
                if reported < 12:
                    reported += 1
                    failures.append({"case": {"kind": pts[i]["kind"], "src": pts[i]["src"], "interp": flags, "hashseed": hseed},
                                     "what": "[%s] %s" % (label, cwhat), "class": cls})
    return {
        "evaluations": len(pts) + env_evals,
        "distinct_nontrivial": len(seen),
        "rule": "classes whose body mixes annotated and plain attributes (alternating, partly documented - in or out of body order -, with and without "
                "__init__, attributes bound twice; a few annotated attributes with a display / call / attribute / operator value, a few "
                "bodies with a tuple-target assignment) judged against vars(cls) / __annotations__ at full strength (names, Python's order, "
                "values, annotations, prose), every failed clause classified on its own; groups of 2-4 functions / methods / "
                "classes sharing one docstring text with different signatures inside the one-process batch; "
                "every judged point is judged again in child interpreters started with -O, -OO (flag or PYTHONOPTIMIZE) "
                "and other PYTHONHASHSEED values; the whole batch (including definitions whose damaged docstring is rejected) "
                "is parsed in one process and every definition's result compared with the same source parsed alone in a "
                "freshly forked worker; ReST :type fields before or after their :param/:cvar entry; documented defaults in "
                "every style; "
                "generated definitions (positional, keyword-only, **kwargs; self/cls methods; later parameters that are merely "
                "called self/cls; first (and later) positional parameters of plain functions and methods named like the receiver "
                "of another convention - mcs, klass, this, me, metacls, selfish, ...; classes with __init__; "
                "annotations; defaults of literal/container/code/opaque kinds; ReST/Google/numpydoc docstrings documenting "
                "all/some/none of the parameters in or out of order); non-trivial = distinct definition inside the guard "
                "with >= 2 strata tags on which the property holds",
        "failures": failures,
        "model_impl_property_disagreements": disagree,
        "histogram": dict(hist),
        "samples": [{"kind": p["kind"], "src": p["src"]} for p in pts[:40:8]],
    }
