#!/usr/bin/env python3
"""Run the registered checks against the seeded changes kept under /verif/seeded/<id>/ :
  python3 harness/seeded_eval.py [--all-props] [id ...]
For each seeded change: make sure /repo is clean, apply patch.diff, run the quick check of the property it breaks
(or of every claimed property with --all-props), record exit status and the VIOLATION line, and undo the patch.
With --jobs=N the changes are applied in N scratch worktrees of /repo (removed afterwards) instead of /repo itself and the
checks run against them through VERIF_REPO, in parallel (never two of the same property at once)."""
import json
import os
import subprocess
import sys

HERE = os.path.dirname(os.path.abspath(__file__))
VERIF = os.path.dirname(HERE)
REPO = "/repo"


def sh(cmd, **kw):
    return subprocess.run(cmd, stdout=subprocess.PIPE, stderr=subprocess.STDOUT, **kw)


def clean():
    return sh(["git", "-C", REPO, "status", "--porcelain"]).stdout.decode().strip() == ""


def how_of(vio):
    how = "correspondence-or-proof-broken" if vio.rstrip().endswith("no-failing-input-found") else "failing-input"
    try:
        rp = json.load(open(vio.split("replay=")[1].split()[0]))
        if how != "failing-input":
            how += ": " + ",".join(c["family"] for c in rp.get("correspondence_that_no_longer_checks") or []) + \
                (" theorem " + str(rp["theorem_or_lemma_that_no_longer_checks"]) if rp.get("theorem_or_lemma_that_no_longer_checks") else "")
        else:
            how += " (%d failing points%s)" % (rp.get("count", 0), "" if rp.get("corr_ok") else "; correspondence also broken")
    except Exception as e:  # noqa
        how += " (replay unreadable: %s)" % e
    return how


def eval_in_worktree(sid, wt, claimed, all_props, serial):
    """apply the seeded change in the scratch worktree `wt` (never in /repo) and run the checks against it"""
    d = os.path.join(VERIF, "seeded", sid)
    meta = json.load(open(os.path.join(d, "meta.json")))
    sh(["git", "-C", wt, "checkout", "-q", "--", "."])
    r = sh(["git", "-C", wt, "apply", os.path.join(d, "patch.diff")])
    if r.returncode != 0:
        return {"error": "patch does not apply: " + r.stdout.decode()[-300:]}
    try:
        env = dict(os.environ, VERIF_REPO=wt, VERIF_SEED=os.environ.get("VERIF_SEED", "20260929"))
        if not serial:
            # the Coq development is shared between parallel evaluations: a change that alters an extracted constant
            # must be evaluated alone
            c = sh(["/venv/bin/python", "-c", "import sys; sys.path.insert(0, %r); import extract_constants as E, common; "
                    "sys.exit(0 if E.render() == open(common.COQ + '/model/Extracted.v').read() else 3)" % HERE],
                   env=dict(env, PYTHONPATH=wt, PYTHONHASHSEED="0"))
            if c.returncode != 0:
                return None
        props = claimed if all_props else [p for p in [meta["property"]] + meta.get("also_check", []) if p in claimed]
        res = {}
        for p in props:
            rr = sh(["python3", os.path.join(HERE, "check.py"), "--property", p, "--tier", "quick"], cwd=VERIF, env=env)
            vio = [l for l in rr.stdout.decode().split("\n") if l.startswith("VIOLATION")]
            # the replay file name is shared by evaluations of the same property: read it now
            res[p] = {"exit": rr.returncode, "violation": vio[0] if vio else None, "how": how_of(vio[0]) if vio else None}
        return {"property": meta["property"], "checks": res,
                "detected": any(v["exit"] == 1 and v["violation"] for v in res.values()),
                "detected_by_own_property": bool(res.get(meta["property"], {}).get("violation"))}
    finally:
        sh(["git", "-C", wt, "checkout", "-q", "--", "."])


def main_parallel(ids, jobs, claimed, all_props, rpath, results):
    """one scratch worktree per job; evaluations of the SAME property never overlap (they share replay/evidence paths)"""
    import queue
    import threading
    lock = threading.Lock()
    busy_props = set()
    pending = list(ids)
    deferred = []

    def worker(n):
        wt = "/tmp/doctrans-seedeval-%d" % n
        sh(["git", "-C", REPO, "worktree", "remove", "--force", wt])
        assert sh(["git", "-C", REPO, "worktree", "add", "--detach", "-q", wt, "HEAD"]).returncode == 0
        try:
            while True:
                with lock:
                    sid = next((s for s in pending if s.split("-")[0] not in busy_props), None)
                    if sid is None:
                        if not pending:
                            return
                    else:
                        pending.remove(sid)
                        busy_props.add(sid.split("-")[0])
                if sid is None:
                    import time
                    time.sleep(2)
                    continue
                try:
                    r = eval_in_worktree(sid, wt, claimed, all_props, serial=False)
                finally:
                    with lock:
                        busy_props.discard(sid.split("-")[0])
                with lock:
                    if r is None:
                        deferred.append(sid)
                    else:
                        results[sid] = r
                        print(sid, json.dumps(r), flush=True)
                        json.dump(results, open(rpath, "w"), indent=1, sort_keys=True)
        finally:
            sh(["git", "-C", REPO, "worktree", "remove", "--force", wt])
            sh(["rm", "-rf", "/tmp/verif_out_" + os.path.basename(wt)])

    ts = [threading.Thread(target=worker, args=(n,)) for n in range(jobs)]
    [t.start() for t in ts]
    [t.join() for t in ts]
    if deferred:
        wt = "/tmp/doctrans-seedeval-serial"
        sh(["git", "-C", REPO, "worktree", "remove", "--force", wt])
        assert sh(["git", "-C", REPO, "worktree", "add", "--detach", "-q", wt, "HEAD"]).returncode == 0
        try:
            for sid in deferred:
                results[sid] = eval_in_worktree(sid, wt, claimed, all_props, serial=True)
                print(sid, "(alone)", json.dumps(results[sid]), flush=True)
                json.dump(results, open(rpath, "w"), indent=1, sort_keys=True)
        finally:
            sh(["git", "-C", REPO, "worktree", "remove", "--force", wt])
            sh(["rm", "-rf", "/tmp/verif_out_" + os.path.basename(wt)])
        # leave the shared development built from /repo again
        sh(["python3", os.path.join(HERE, "setup.py")], cwd=VERIF)


def main():
    args = [a for a in sys.argv[1:] if not a.startswith("--")]
    jobs = next((int(a.split("=")[1]) for a in sys.argv[1:] if a.startswith("--jobs=")), 0)
    all_props = "--all-props" in sys.argv
    ids = args or sorted(d for d in os.listdir(os.path.join(VERIF, "seeded")) if os.path.isdir(os.path.join(VERIF, "seeded", d)))
    manifest = json.load(open(os.path.join(VERIF, "MANIFEST.json")))
    claimed = [c["property_id"] for c in manifest["checks"]]
    rpath = os.path.join(VERIF, "seeded", "RESULTS.json")
    results = json.load(open(rpath)) if os.path.exists(rpath) and args else {}
    if jobs:
        return main_parallel(ids, jobs, claimed, all_props, rpath, results)
    for sid in ids:
        d = os.path.join(VERIF, "seeded", sid)
        meta = json.load(open(os.path.join(d, "meta.json")))
        assert clean(), "/repo is not clean"
        r = sh(["git", "-C", REPO, "apply", os.path.join(d, "patch.diff")])
        if r.returncode != 0:
            results[sid] = {"error": "patch does not apply: " + r.stdout.decode()[-300:]}
            continue
        try:
            props = claimed if all_props else [p for p in [meta["property"]] + meta.get("also_check", []) if p in claimed]
            res = {}
            for p in props:
                # the patch is applied in /repo itself here: evidence and replays of the PATCHED tree go to a scratch directory
                rr = sh(["python3", os.path.join(HERE, "check.py"), "--property", p, "--tier", "quick"], cwd=VERIF,
                        env=dict(os.environ, VERIF_OUT="/tmp/verif_out_seedeval_inplace"))
                out = rr.stdout.decode()
                vio = [l for l in out.split("\n") if l.startswith("VIOLATION")]
                how = None
                if vio:
                    how = "correspondence-or-proof-broken" if vio[0].rstrip().endswith("no-failing-input-found") else "failing-input"
                    try:
                        rp = json.load(open(vio[0].split("replay=")[1].split()[0]))
                        if how != "failing-input":
                            how += ": " + ",".join(c["family"] for c in rp.get("correspondence_that_no_longer_checks") or []) + \
                                (" theorem " + str(rp["theorem_or_lemma_that_no_longer_checks"]) if rp.get("theorem_or_lemma_that_no_longer_checks") else "")
                        else:
                            how += " (%d failing points%s)" % (rp.get("count", 0), "" if rp.get("corr_ok") else "; correspondence also broken")
                    except Exception as e:  # noqa
                        how += " (replay unreadable: %s)" % e
                res[p] = {"exit": rr.returncode, "violation": vio[0] if vio else None, "how": how}
            results[sid] = {"property": meta["property"], "checks": res,
                            "detected": any(v["exit"] == 1 and v["violation"] for v in res.values()),
                            "detected_by_own_property": bool(res.get(meta["property"], {}).get("violation"))}
        finally:
            sh(["git", "-C", REPO, "checkout", "--", "."])
            assert clean()
        print(sid, json.dumps(results[sid]))
        json.dump(results, open(rpath, "w"), indent=1, sort_keys=True)


if __name__ == "__main__":
    main()
