#!/usr/bin/env python3
"""Run the registered checks against the seeded changes kept under /verif/seeded/<id>/ :
  python3 harness/seeded_eval.py [--all-props] [id ...]
For each seeded change: make sure /repo is clean, apply patch.diff, run the quick check of the property it breaks
(or of every claimed property with --all-props), record exit status and the VIOLATION line, and undo the patch."""
import json
import os
import subprocess
import sys

HERE = os.path.dirname(os.path.abspath(__file__))
VERIF = os.path.dirname(HERE)
REPO = "/repo"


def sh(cmd, **kw):
    return subprocess.run(cmd, stdout=subprocess.PIPE, stderr=subprocess.STDOUT, **kw)


def clean():
    return sh(["git", "-C", REPO, "status", "--porcelain"]).stdout.decode().strip() == ""


def main():
    args = [a for a in sys.argv[1:] if not a.startswith("--")]
    all_props = "--all-props" in sys.argv
    ids = args or sorted(d for d in os.listdir(os.path.join(VERIF, "seeded")) if os.path.isdir(os.path.join(VERIF, "seeded", d)))
    manifest = json.load(open(os.path.join(VERIF, "MANIFEST.json")))
    claimed = [c["property_id"] for c in manifest["checks"]]
    rpath = os.path.join(VERIF, "seeded", "RESULTS.json")
    results = json.load(open(rpath)) if os.path.exists(rpath) and args else {}
    for sid in ids:
        d = os.path.join(VERIF, "seeded", sid)
        meta = json.load(open(os.path.join(d, "meta.json")))
        assert clean(), "/repo is not clean"
        r = sh(["git", "-C", REPO, "apply", os.path.join(d, "patch.diff")])
        if r.returncode != 0:
            results[sid] = {"error": "patch does not apply: " + r.stdout.decode()[-300:]}
            continue
        try:
            props = claimed if all_props else [p for p in [meta["property"]] + meta.get("also_check", []) if p in claimed]
            res = {}
            for p in props:
                rr = sh(["python3", os.path.join(HERE, "check.py"), "--property", p, "--tier", "quick"], cwd=VERIF)
                out = rr.stdout.decode()
                vio = [l for l in out.split("\n") if l.startswith("VIOLATION")]
                how = None
                if vio:
                    how = "correspondence-or-proof-broken" if vio[0].rstrip().endswith("no-failing-input-found") else "failing-input"
                    try:
                        rp = json.load(open(vio[0].split("replay=")[1].split()[0]))
                        if how != "failing-input":
                            how += ": " + ",".join(c["family"] for c in rp.get("correspondence_that_no_longer_checks") or []) + \
                                (" theorem " + str(rp["theorem_or_lemma_that_no_longer_checks"]) if rp.get("theorem_or_lemma_that_no_longer_checks") else "")
                        else:
                            how += " (%d failing points%s)" % (rp.get("count", 0), "" if rp.get("corr_ok") else "; correspondence also broken")
                    except Exception as e:  # noqa
                        how += " (replay unreadable: %s)" % e
                res[p] = {"exit": rr.returncode, "violation": vio[0] if vio else None, "how": how}
            results[sid] = {"property": meta["property"], "checks": res,
                            "detected": any(v["exit"] == 1 and v["violation"] for v in res.values()),
                            "detected_by_own_property": bool(res.get(meta["property"], {}).get("violation"))}
        finally:
            sh(["git", "-C", REPO, "checkout", "--", "."])
            assert clean()
        print(sid, json.dumps(results[sid]))
        json.dump(results, open(rpath, "w"), indent=1, sort_keys=True)


if __name__ == "__main__":
    main()
