"""Correspondence family `gen`: doctrans.gen.gen and the `gen` sub-command of doctrans.__main__.main vs coq/model/Gen.v.

The model takes as INPUT what other layers compute (per-entry parse/emit results, what `ast.parse` makes of a text, what
resolving the mapping / the imports file gives).  Those inputs are tabulated here: some independently of doctrans (mapping
resolution, isfunction, file text, executing prepend's imports, the tag+unparse of every top-level statement), the rest by
recording calls made by the real `gen` (wrapping `parse`, `emit`, `to_code`, `ast.parse`, `compile`, `print`, `open` inside
the doctrans.gen module).  What is COMPARED is everything gen itself decides: the order and arguments of those calls,
the assembled content, the hoisted statement order, `__all__`, the written text and mode, the file afterwards, the
exception kind."""
import ast
import codecs
import contextlib
import importlib
import inspect
import io
import json
import os
import shutil
import sys
import tempfile
import warnings

from common import Sym, dumps, opt, impl

NAME = "gen"

# ------------------------------------------------------------------ input module generator
ARGS = ["a", "b", "x", "y", "value", "name", "dataset_name", "batch_size", "lr", "opt", "k", "n"]
TYPED = [("int", ["5", "0", "-1"]), ("str", ["'mnist'", "'a'"]), ("float", ["2.5", "0.1"]), ("bool", ["True", "False"])]
IMPORT_LINES = ["import os", "import sys", "from typing import Optional", "from typing import List, Union",
                "from collections import OrderedDict", "import os.path as p", "from os import path, sep",
                "import json, re", "from math import *"]
FUTURE = "from __future__ import annotations"
FUNC_NAMES = ["f", "g", "helper", "run", "train", "load_data", "compute"]
CLASS_NAMES = ["C", "D", "Config", "Model", "Dataset", "Trainer"]
TEMPLATES_GOOD = ["{name}Config", "Gen{name}", "{name}", "{name}_{name}", "Fixed", "Pre{name}Post", "{{{name}}}"]
TEMPLATES_BAD = ["{", "}", "{}", "{0}", "{other}", "{name", "a}b", "{name!r}", "{name:>5}", "{ name}", "{na{me}",
                 "{name}{", "{x}{", "{name.x}", "{name[0]}", "{}}", "{{}", "{name}}}"]
PREPENDS_GOOD = ["PI = 3\n", "import os\n", "# generated\n", '"""Generated."""\n', "import os\nimport sys\n",
                 '"""Doc"""\nX = 1\nfrom __future__ import annotations\nimport os\n',
                 "X = 1\nimport json\nY = 2\nfrom __future__ import division\nfrom os import sep\n",
                 '""" """\nimport os\n', "\n\nimport os\n\n", "from . import x\n" if False else "import os as o\n",
                 "def helper0():\n    pass\n", "'s'\nimport os\n'''t'''\n", "   \n"]
PREPENDS_NO_NL = ["PI = 3", "import os", '"""Doc"""', "# c"]
PREPENDS_BAD = ["def (:\n", "x = = 1\n", "  indented = 1\n"]
PREPENDS_UNIMPORTABLE = ["import verif_no_such_module_xyz\n", "from os import verif_no_such_name\n"]


# definitions nested inside a mapping entry's object (none of them is an entry, none changes the entry's interface):
# for a class, a helper class with an `__init__` of its own before / after the class's `__init__`, two levels deep, or
# local to a method, and a function local to a method; for a function, a local function / a local class with `__init__`
NESTED_IN_CLASS = ["class-before", "class-after", "class-after", "class-deep", "class-in-method", "func-in-method",
                   "class-before+func-in-method"]
NESTED_IN_FUNCTION = ["inner-func", "inner-func", "inner-class"]
NESTED_CLASS_NAMES = ["Options", "Meta", "_Helper", "State"]
# attributes a class documents on ITSELF (`:cvar` lines of the class docstring) while its `__init__` takes further
# parameters: the names are disjoint from ARGS, so a documented attribute coincides with an `__init__` parameter only in
# the stratum that asks for it (gen_obj(cvar_shared=True): one documented name is replaced by a parameter's)
CVAR_NAMES = ["registry", "version", "backend", "tag", "kind_of_model", "verbose_name", "priority"]
# ordinary parameters whose names CONTAIN `kwargs` / `args` (at the start or in the middle, never at the end): a file of
# keyword arguments, a count of arguments.  They are parameters like any other: each belongs to the interface, in place
# (stratum odd_param_names of gen_obj: one parameter of the object carries such a name)
ARGS_AFFIXED = ["kwargs_file", "my_kwargs_path", "args_count", "kwargs_path", "model_kwargs_json", "args_file",
                "kwargs_", "args_to_skip"]


def _nested_init(rng, ind, taken, doc_style, annotated, name="__init__", first="self"):
    """lines of a nested function (an `__init__` by default) with 1..2 parameters of its own, none of them in `taken`"""
    pool = [a for a in ARGS if a not in taken] or ["q0", "q1"]
    ps = rng.sample(pool, min(len(pool), rng.choice([1, 2, 2])))
    sig = [first] if first else []
    for q in ps:
        t, ds = rng.choice(TYPED)
        sig.append(q + ((": %s = %s" % (t, rng.choice(ds))) if annotated else ("=%s" % rng.choice(ds))))
    lines = [ind + "def %s(%s):" % (name, ", ".join(sig))]
    if doc_style != "none":
        lines += [ind + '    """', ind + "    Set up the helper."]
        if doc_style in ("untyped", "typed"):
            for q in ps:
                lines += ["", ind + "    :param %s: the %s" % (q, q)]
                if doc_style == "typed":
                    lines.append(ind + "    :type %s: ```int```" % q)
        lines.append(ind + '    """')
    if first:
        lines += [ind + "    %s.%s = %s" % (first, q, q) for q in ps]
    else:
        lines.append(ind + "    return %s" % ps[0])
    return lines


def _nested_class(rng, ind, taken, doc_style, annotated, deep=False):
    cname = rng.choice(NESTED_CLASS_NAMES)
    lines = [ind + "class %s(object):" % cname, ind + '    """ Helper of the enclosing definition """', ""]
    if deep:
        lines += _nested_class(rng, ind + "    ", taken, doc_style, annotated) + [""]
    lines += _nested_init(rng, ind + "    ", taken, doc_style, annotated)
    return lines


def gen_obj(rng, kind, name, doc_style, annotated, n_params, defaults, ret, class_doc=True, nested=None, n_cvars=0,
            cvar_shared=False, own_init=True, odd_param_names=0.0):
    """source lines of one function or one class with __init__, plus its features.
    odd_param_names (default 0.0: never, stream unchanged): probability that one parameter (when there is any) is named
    from ARGS_AFFIXED instead
    nested (default None: nothing nested, the stream of existing callers is unchanged): one of NESTED_IN_CLASS /
    NESTED_IN_FUNCTION
    n_cvars (default 0: none, stream unchanged): how many attributes the class docstring documents (`:cvar` lines); only
    for a class that has a docstring
    cvar_shared (default False: never, stream unchanged): one of the documented attributes carries the name of a
    parameter of `__init__` (the class documents, on itself, something its `__init__` also takes)
    own_init (default True, stream unchanged): False = a class WITHOUT an `__init__` of its own (n_params is ignored: the
    class takes no parameters); whatever `nested` puts into it stays"""
    if kind == "class" and not own_init:
        n_params = 0
    params = rng.sample(ARGS, n_params)
    if odd_param_names and params and rng.random() < odd_param_names:
        params[rng.randrange(len(params))] = rng.choice(ARGS_AFFIXED)
    ptypes = [rng.choice(TYPED) for _ in params]
    ndef = rng.randint(0, n_params) if defaults else 0
    sig = []
    for i, (p, (t, ds)) in enumerate(zip(params, ptypes)):
        s = p
        if annotated:
            s += ": " + t
        if i >= n_params - ndef:
            s += (" = " if annotated else "=") + rng.choice(ds)
        sig.append(s)
    ind = "    " if kind == "function" else "        "
    doc = []
    if doc_style != "none":
        doc.append(ind + '"""')
        doc.append(ind + "Do the %s thing." % name)
        if doc_style in ("untyped", "typed") and params:
            for p, (t, ds) in zip(params, ptypes):
                doc.append("")
                doc.append(ind + ":param %s: the %s" % (p, p))
                if doc_style == "typed":
                    doc.append(ind + ":type %s: ```%s```" % (p, t))
        if kind == "function" and ret and doc_style in ("untyped", "typed"):
            doc.append("")
            doc.append(ind + ":returns: the result")
            if doc_style == "typed":
                doc.append(ind + ":rtype: ```int```")
        doc.append(ind + '"""')
    lines = []
    nested = nested or ""
    ndoc = doc_style
    if nested and rng.random() < 0.2:
        ndoc = rng.choice(["none", "summary", "untyped", "typed"])
    if kind == "function":
        lines.append("def %s(%s)%s:" % (name, ", ".join(sig), " -> int" if (annotated and ret) else ""))
        lines += doc
        if "inner-func" in nested:
            lines += _nested_init(rng, "    ", params, ndoc, annotated, name=rng.choice(["inner", "_check", "__init__"]),
                                  first=None) + [""]
        if "inner-class" in nested:
            lines += _nested_class(rng, "    ", params, ndoc, annotated) + [""]
        lines.append("    return 1" if ret else "    pass")
    else:
        lines.append("class %s(object):" % name)
        cvars = []
        if class_doc:
            lines.append('    """')
            lines.append("    The %s class." % name)
            if n_cvars:
                cvars = rng.sample(CVAR_NAMES, n_cvars)
                if cvar_shared and params:
                    cvars[rng.randrange(len(cvars))] = rng.choice(params)
                lines.append("")
                for cv in cvars:
                    lines.append("    :cvar %s: %s" % (cv, rng.choice(["the %s", "The %s of the class.", "Which %s it is filed under"]) % cv))
            lines.append('    """')
            lines.append("")
        if "class-before" in nested:
            lines += _nested_class(rng, "    ", params, ndoc, annotated) + [""]
        if own_init:
            lines.append("    def __init__(%s):" % ", ".join(["self"] + sig))
            lines += doc
            for p in params:
                lines.append("        self.%s = %s" % (p, p))
            if not params:
                lines.append("        pass")
        elif not class_doc and "class-before" not in nested:
            lines.append("    LABEL = %r" % name)
        if "class-after" in nested or "class-deep" in nested:
            lines += [""] + _nested_class(rng, "    ", params, ndoc, annotated, deep="class-deep" in nested)
        if "in-method" in nested:
            lines += ["", "    def build(self):", '        """ Build it """']
            if "class-in-method" in nested:
                lines += _nested_class(rng, "        ", params, ndoc, annotated) + [""]
            if "func-in-method" in nested:
                lines += _nested_init(rng, "        ", params, ndoc, annotated,
                                      name=rng.choice(["inner", "__init__"]), first=None) + [""]
            lines.append("        return self")
    feat = dict(kind=kind, obj=name, doc_style=doc_style, annotated=annotated, params=params, ret=bool(ret),
                class_doc=bool(class_doc), ndef=ndef)
    if nested:
        feat["nested"] = nested
    if kind != "function" and cvars:
        feat["cvars"] = cvars
        if cvar_shared and any(c in params for c in cvars):
            feat["cvar_shared"] = True
    if kind != "function" and not own_init:
        feat["own_init"] = False
    return lines, feat


def gen_input_module(rng, mostly_good=True, n_entries=None, kinds=None, odd_param_names=0.0):
    """returns dict(src, entries=[{key, feat}], import_lines, future, mapping_form)"""
    n = n_entries if n_entries is not None else rng.choice([1, 1, 2, 2, 3, 4, 0] if rng.random() < 0.2 else [1, 1, 2, 2, 3, 4])
    fnames = rng.sample(FUNC_NAMES, len(FUNC_NAMES))
    cnames = rng.sample(CLASS_NAMES, len(CLASS_NAMES))
    body, entries = [], []
    for j in range(n):
        kind = (kinds[j] if kinds else rng.choice(["class", "class", "function"]))
        name = cnames.pop() if kind == "class" else fnames.pop()
        if mostly_good:
            doc_style = rng.choice(["typed", "typed", "untyped", "summary"]) if kind == "class" else rng.choice(
                ["typed", "typed", "untyped"])
            annotated = rng.random() < (0.4 if kind == "class" else 0.0)
            n_params = rng.choice([1, 2, 3])
            ret = False
            class_doc = True
        else:
            doc_style = rng.choice(["none", "summary", "untyped", "typed"])
            annotated = rng.random() < 0.5
            n_params = rng.choice([0, 1, 2, 3])
            ret = kind == "function" and rng.random() < 0.4
            class_doc = rng.random() < 0.8
        nested = None
        if rng.random() < 0.3:
            nested = rng.choice(NESTED_IN_CLASS if kind == "class" else NESTED_IN_FUNCTION)
        n_cvars = 0
        if kind == "class" and class_doc and rng.random() < 0.3:
            # the class documents SOME attributes on itself; __init__ adds two or more further parameters
            n_cvars = rng.choice([1, 1, 2, 3])
            n_params = rng.choice([2, 3, 3, 4, 5, 6])
        # two rarer shapes of a class: one documented attribute is also a parameter of __init__; no __init__ of its own
        # (what it takes is nothing, whatever helper classes / local functions inside it define)
        cvar_shared = bool(n_cvars) and rng.random() < 0.2
        own_init = not (kind == "class" and rng.random() < 0.07)
        if not own_init and nested is None and rng.random() < 0.6:
            nested = rng.choice(NESTED_IN_CLASS)
        lines, feat = gen_obj(rng, kind, name, doc_style, annotated, n_params, rng.random() < 0.6, ret, class_doc,
                              nested=nested, n_cvars=n_cvars, cvar_shared=cvar_shared, own_init=own_init,
                              odd_param_names=odd_param_names)
        body += lines + ["", ""]
        key = name if rng.random() < 0.85 else rng.choice([name.lower() + "_k", "K" + name, name + "2"])
        entries.append({"key": key, "feat": feat})
    r = rng.random()
    nimp = 0 if r < 0.3 else 1 if r < 0.6 else rng.choice([2, 2, 3, 4])
    import_lines = rng.sample(IMPORT_LINES, nimp)
    future = rng.random() < 0.25
    r = rng.random()
    form = "dict" if r < 0.62 else "pairs" if r < 0.76 else rng.choice(MAPPING_FORMS_OTHER)
    mapping = mapping_source(form, entries)
    src = "\n".join(([FUTURE] if future else []) + import_lines + ["", ""] + body + [mapping]) + "\n"
    return dict(src=src, entries=entries, import_lines=import_lines, future=future, mapping_form=form)


# what the symbol named by --input-mapping is: gen documents "dictionary/mapping/2-tuple collection".  Besides a dict
# literal and a tuple of pairs: a list of pairs, dict subclasses, mappings that are NOT dicts (a read-only
# types.MappingProxyType, a collections.abc.Mapping subclass) and one-shot iterables of pairs (iterator, generator).
# The helper is a function so that the input module gains no root-level import (those are what imports-from-file reads).
MAPPING_FORMS_OTHER = ["list-pairs", "ordered", "defaultdict", "proxy", "proxy", "abc-mapping", "abc-mapping", "iter",
                       "generator"]
_MAPPING_HELPERS = {
    "ordered": "    from collections import OrderedDict\n    return OrderedDict(pairs)",
    "defaultdict": "    from collections import defaultdict\n    return defaultdict(list, pairs)",
    "proxy": "    from types import MappingProxyType\n    return MappingProxyType(dict(pairs))",
    "abc-mapping": ("    from collections.abc import Mapping\n\n    class Registry(Mapping):\n"
                    "        def __init__(self, items):\n            self._d = dict(items)\n\n"
                    "        def __getitem__(self, key):\n            return self._d[key]\n\n"
                    "        def __iter__(self):\n            return iter(self._d)\n\n"
                    "        def __len__(self):\n            return len(self._d)\n\n    return Registry(pairs)"),
    "iter": "    return iter(pairs)",
    "generator": "    return (p for p in pairs)",
}


def mapping_source(form, entries):
    """the statement(s) binding M; every form spells an entry as `'key': Obj` or `('key', Obj)`"""
    if form == "dict":
        return "M = {%s}" % ", ".join("%r: %s" % (e["key"], e["feat"]["obj"]) for e in entries)
    pairs = "(%s)" % "".join("(%r, %s), " % (e["key"], e["feat"]["obj"]) for e in entries)
    if form == "pairs":
        return "M = " + pairs
    if form == "list-pairs":
        return "M = [%s]" % ", ".join("(%r, %s)" % (e["key"], e["feat"]["obj"]) for e in entries)
    return "def _vg_mapping(pairs):\n%s\n\n\nM = _vg_mapping(%s)" % (_MAPPING_HELPERS[form], pairs)


_COUNTER = [0]


def _new_uid(rng):
    _COUNTER[0] += 1
    return "%d_%06d" % (_COUNTER[0], rng.randrange(10 ** 6))


def _new_case(rng, fn, uid=None, **kw):
    c = {"fam": NAME, "fn": fn, "uid": uid or _new_uid(rng), "tags": []}
    c.update(kw)
    return c


# ------------------------------------------------------------------ where the input module lives, how it is named
# layout of the directory put on sys.path: {"kind": "flat"} = <base>.py; {"kind": "pkg", "depth": d, "reexport": b} =
# package <base> holding mod.py (d = 1) or sub/mod.py (d = 2); with reexport every __init__.py imports the object of the
# first mapping entry from below, so that <base>.<Obj> names it as well
SYMBOL_FORMS = ["obj", "obj", "obj", "member", "reexported", "from-mod", "bare", "aliased"]


def draw_layout(rng):
    r = rng.random()
    if r < 0.6:
        return {"kind": "flat"}
    lay = {"kind": "pkg", "depth": 1 if r < 0.85 else 2, "reexport": rng.random() < 0.5}
    # import lines the package's own __init__.py files carry (what `--imports-from-file <package name>` reads)
    lay["init_imports"] = rng.sample(IMPORT_LINES, rng.choice([0, 1, 1, 2, 3]))
    return lay


# the directory the invocation runs from: "project" = the directory that holds the input module / package (the usual
# way to run a tool on one's own project: relative names there coincide with module and package names), "elsewhere" = an
# unrelated, empty directory
CWDS = ["project", "project", "elsewhere"]
# how the output file is spelled on the command line (the file is the same): absolute, relative to the working
# directory, with a literal `~` (HOME is the scratch root; the shell did not expand it), through a symlinked directory
OUT_SPELLINGS = ["plain", "dot-relative", "tilde", "symlinked-dir"]


def draw_out(rng, existing):
    """output spelling of a command-line invocation.  A literal `~` is drawn only onto an existing output here: with a
    fresh output the unchanged code ends in FileNotFoundError (it never expands `~`), which the callers that judge
    'runs without an internal error' must not be handed as an in-domain point (reported as a finding instead)"""
    r = rng.random()
    sp = "plain" if r < 0.55 else "dot-relative" if r < 0.7 else "symlinked-dir" if r < 0.85 else "tilde"
    if sp == "tilde" and existing is None:
        sp = "plain"
    return {"spelling": sp}


def names_of(case):
    """the names the materialised input module goes by: base (top-level name), modname (dotted module holding the
    mapping M), parent (the package holding that module, '' when flat), leaf, obj (object of the first entry), cls"""
    base = "verif_genin_" + case.get("modbase", case["uid"])
    lay = case.get("layout") or {"kind": "flat"}
    if lay["kind"] == "flat":
        modname, parent, leaf = base, "", base
    else:
        parent = base if lay.get("depth", 1) == 1 else base + ".sub"
        modname, leaf = parent + ".mod", "mod"
    ents = case["module"]["entries"]
    obj = ents[0]["feat"]["obj"] if ents else None
    cls = next((e["feat"]["obj"] for e in ents if e["feat"]["kind"] == "class"), None)
    return dict(base=base, modname=modname, parent=parent, leaf=leaf, obj=obj, cls=cls,
                reexport=bool(lay["kind"] == "pkg" and lay.get("reexport") and obj))


def symbol_path(case):
    """the dotted path given as imports_from_file when case['imports'] is {"how": "symbol", "form": f}: it names an
    object defined in the input module, not a module; gen documents "if module or other symbol path given, resolve file
    then use it".  Returns (path, the import statement that binds the path's first component)"""
    n = names_of(case)
    form = case["imports"].get("form", "obj")
    mod, obj = n["modname"], n["obj"]
    if obj is None:                                   # empty mapping: nothing to name but the mapping itself
        form = "mapping"
    if form == "member" and n["cls"] is None:
        form = "obj"
    if form == "reexported" and not n["reexport"]:
        form = "obj"
    if form == "from-mod" and not n["parent"]:
        form = "bare"
    if form == "obj":
        return mod + "." + obj, "import " + mod
    if form == "member":                              # a function object inside a class: one level deeper
        return mod + "." + n["cls"] + ".__init__", "import " + mod
    if form == "reexported":                          # <base>.<Obj>, defined in <base>[.sub].mod
        return n["base"] + "." + obj, "import " + n["base"]
    if form == "from-mod":                            # path relative to a from-imported module
        return n["leaf"] + "." + obj, "from %s import %s" % (n["parent"], n["leaf"])
    if form == "bare":                                # the from-imported object itself
        return obj, "from %s import %s" % (mod, obj)
    if form == "aliased":
        return "vg_alias." + obj, "import %s as vg_alias" % mod
    if form == "mapping":                             # a dict: belongs to no module (resolution raises TypeError)
        return mod + ".M", "import " + mod
    raise KeyError(form)


def supporting_prepend(rng, import_line, shape=None):
    """a prepend text holding `import_line` in one of the shapes prepended text comes in"""
    shape = shape or rng.choice(["plain", "plain", "plain", "no-nl", "doc", "import-before", "import-after", "stmt-after",
                                 "stmt-after-no-nl", "blank-lines", "doc-stmt"])
    return {"plain": import_line + "\n",
            "no-nl": import_line,
            "doc": '"""Generated."""\n' + import_line + "\n",
            "import-before": "import os\n" + import_line + "\n",
            "import-after": import_line + "\nfrom os import sep\n",
            "stmt-after": import_line + "\nPI = 3\n",
            "stmt-after-no-nl": import_line + "\nPI = 3",
            "blank-lines": "\n" + import_line + "\n\n",
            "doc-stmt": '"""Doc"""\nX = 1\n' + import_line}[shape]


def gen_case(rng, **force):
    """one `gen` case (API route)"""
    mostly_good = force.get("mostly_good", rng.random() < 0.75)
    mod = gen_input_module(rng, mostly_good=mostly_good, n_entries=force.get("n_entries"), kinds=force.get("kinds"),
                           odd_param_names=force.get("odd_param_names", 0.0))
    tags = ["good-shapes" if mostly_good else "any-shapes", "entries-%d" % len(mod["entries"])]
    r = rng.random()
    type_ = force.get("type_") or ("class" if r < 0.4 else "argparse" if r < 0.75 else "function" if r < 0.99 else "klass")
    r = rng.random()
    tpl = force.get("name_tpl") or (rng.choice(TEMPLATES_GOOD[:2]) if r < 0.6 else rng.choice(TEMPLATES_GOOD) if r < 0.9
                                    else rng.choice(TEMPLATES_BAD))
    uid = _new_uid(rng)
    wellformed = force.get("domain") == "wellformed"   # only shapes the documentation of gen promises to handle
    layout = force["layout"] if "layout" in force else draw_layout(rng)
    probe = {"uid": uid, "modbase": uid, "layout": layout, "module": mod}
    r = rng.random()
    if "imports" in force:
        imports = force["imports"]
    elif r < 0.3:
        imports = {"how": "none"}
    elif r < 0.5:
        imports = {"how": "module"}
        if layout["kind"] == "pkg" and rng.random() < 0.5:
            # the name of a package: its __init__.py is the file (at depth 2 the inner package half of the time)
            imports = {"how": "package", "level": "top" if layout.get("depth", 1) == 1 or rng.random() < 0.5 else "parent"}
    elif r < 0.62:
        imports = {"how": "file"}
    elif r < 0.78:
        imports = {"how": "symbol", "form": rng.choice(SYMBOL_FORMS)}
    elif r < 0.95 or wellformed:
        k = rng.choice([0, 1, 1, 2, 3])
        lines = rng.sample(IMPORT_LINES, k)
        if rng.random() < 0.3:
            lines.insert(0 if wellformed else rng.randint(0, len(lines)), FUTURE)
        extra = [] if wellformed else rng.choice([[], ["X = 1"], ['"""doc"""'], ["def q():", "    import re"],
                                                  ["if True:", "    import re"]])
        imports = {"how": "other", "src": "\n".join(extra[:1] + lines + extra[1:]) + "\n"}
    elif r < 0.97:
        imports = {"how": "missing"}
    elif r < 0.985:
        imports = {"how": "symbol", "form": "mapping"}
    else:
        imports = {"how": "other", "src": "import (\n"}
    if imports["how"] in ("module", "package", "symbol") and "imports" not in force and rng.random() < 0.12:
        # the working directory holds an entry of exactly the name given: a directory (a name is not a file: it is still
        # resolved as module / symbol) or a regular file (a file wins: its imports are the ones taken)
        imports["decoy"] = rng.choice(["dir", "dir", "file"])
        if imports["decoy"] == "file":
            imports["decoy_src"] = "\n".join(rng.sample(IMPORT_LINES, rng.choice([1, 2]))) + "\n"
    if imports["how"] == "symbol" and "imports" not in force and mod["mapping_form"] in ("ordered", "defaultdict") \
            and (imports.get("form") == "mapping" or not any(e["feat"].get("obj") for e in mod["entries"])):
        # the path would name the mapping object M itself; for an OrderedDict / defaultdict instance inspect resolves it
        # to collections/__init__.py (52 KB of stdlib text), on which one request to the extracted model takes about ten
        # minutes (its statement splitting is quadratic in the text length): a cost problem of the model, not a
        # behaviour of gen worth that time.  Name the module instead (drawn without consuming randomness).
        imports = {"how": "module"}
    cwd = force["cwd"] if "cwd" in force else rng.choice(CWDS)
    r = rng.random()
    shape = force.get("prepend_shape")                 # force: a prepend importing the input module, in this shape
    if "prepend" in force:
        prepend = force["prepend"]
    elif imports["how"] == "symbol" and (wellformed or shape or r < 0.85):
        # a symbol path is resolved through the names the prepended imports bind: prepend the import it needs
        prepend = supporting_prepend(rng, symbol_path(dict(probe, imports=imports))[1], shape)
    elif shape:
        prepend = supporting_prepend(rng, "import " + names_of(probe)["modname"], shape)
    elif r < 0.35:
        prepend = None
    elif r < 0.7:
        prepend = rng.choice(PREPENDS_GOOD)
    elif r < 0.8 or (wellformed and r < 0.9):
        prepend = rng.choice(PREPENDS_NO_NL)
    elif r < 0.88 or wellformed:
        # the generated module refers to the module it was generated from
        n = names_of(probe)
        prepend = supporting_prepend(rng, rng.choice(["import " + n["modname"], "import " + n["base"],
                                                      "from %s import M" % n["modname"]]))
    elif r < 0.92:
        prepend = ""
    elif r < 0.96:
        prepend = rng.choice(PREPENDS_BAD)
    else:
        prepend = rng.choice(PREPENDS_UNIMPORTABLE)
    r = rng.random()
    mapping_ref = force.get("mapping_ref") or ("ok" if r < 0.93 else rng.choice(["nodot", "nomodule", "noattr"]))
    existing = force["existing"] if "existing" in force else (
        None if rng.random() < 0.8 else rng.choice(["", "OLD = 1\n", "# old file", "def old():\n    pass\n"]))
    opts = {"emit_call": rng.random() < 0.15, "emit_default_doc": rng.random() < 0.7,
            "decorator_list": None if rng.random() < 0.85 else rng.choice([[], ["dataclass"], ["a", "b.c"]])}
    if rng.random() < 0.04 and mod["entries"] and not force.get("plain_keys"):
        mod["entries"][0]["key_override"] = rng.choice(["a b", "x-y", "1st", "it's", "q\"q", "back\\slash"])
    tags += ["type-" + type_, "imports-" + imports["how"] + ("-" + imports["form"] if "form" in imports else ""),
             "prepend-" + ("none" if prepend is None else "given" if prepend.endswith("\n") else "given-no-final-newline"),
             "existing" if existing is not None else "fresh", "cwd-" + str(cwd), "mapping-" + mod["mapping_form"],
             "layout-" + layout["kind"] + (str(layout.get("depth", "")) + ("-reexport" if layout.get("reexport") else ""))]
    c = _new_case(rng, "gen", uid=uid, modbase=uid, layout=layout, module=mod, type_=type_, name_tpl=tpl, prepend=prepend,
                  imports=imports, mapping_ref=mapping_ref, existing=existing, opts=opts, cwd=cwd)
    if "decoy" in imports:
        tags.append("decoy-" + imports["decoy"])
    if any(q in ARGS_AFFIXED for e in mod["entries"] for q in e["feat"]["params"]):
        tags.append("param-named-like-kwargs")
    c["tags"] = tags
    if "key_override" in (mod["entries"][0] if mod["entries"] else {}):
        e = mod["entries"][0]
        mod["src"] = mod["src"].replace("%r: %s" % (e["key"], e["feat"]["obj"]), "%r: %s" % (e["key_override"], e["feat"]["obj"]), 1) \
            .replace("(%r, %s)" % (e["key"], e["feat"]["obj"]), "(%r, %s)" % (e["key_override"], e["feat"]["obj"]), 1)
        e["key"] = e.pop("key_override")
    return c


def gen_cli_case(rng):
    present = lambda p: rng.random() < p  # noqa: E731
    a = {
        "name_tpl": rng.choice(TEMPLATES_GOOD + [""]) if present(0.93) else None,
        "input_mapping": rng.choice(["m.M", "pkg.mod.MAP", "M", ""]) if present(0.93) else None,
        "type": rng.choice(["class", "function", "argparse"] * 4 + ["klass", "Class", "", "class_"]) if present(0.93) else None,
        "output_filename": rng.choice(["out.py", "o2.py"]) if present(0.93) else None,
        "prepend": rng.choice(["PI = 3\\n", "import os\\nX = 1\\n", "a\\tb", "q\\\\n", "x\\x41y", "\\101\\7", "abc\\",
                               "\\x4", "\\q", "plain", "", "\\'\\\"", "\\u0041", "\\N{DASH}", "\\400", "\\18", "a\\\nb",
                               "\\a\\b\\f\\v\\r", "\\x", "\\xzz", "\\0", "\\8", "-x = 1", "\\xe9", "import os",
                               "import pkg.mod", "import pkg.mod\\n", '\\"\\"\\"Doc\\"\\"\\"\\nimport m']) if present(0.5) else None,
        "imports_from_file": rng.choice(["m", "/tmp/x.py", "", "m.C", "pkg.mod.Alpha", "pkg.sub.mod.Alpha.__init__", "Alpha"])
        if present(0.4) else None,
        "emit_call": present(0.3),
        "decorators": [] if present(0.7) else rng.choice([["dataclass"], ["a", "b"], [""]]),
    }
    c = _new_case(rng, "gen_cli", args=a, exists=rng.random() < 0.3)
    c["tags"] = ["exists" if c["exists"] else "fresh",
                 "complete" if all(a[k] is not None for k in ("name_tpl", "input_mapping", "type", "output_filename")) else "missing-required"]
    return c


HOIST_POOL = ['"""Doc."""', '""" """', "'s'", "from __future__ import annotations", "from __future__ import division",
              "import os", "import sys as s", "from os import path", "from . import sibling", "from .. import up",
              "import a.b.c", "X = 1", "def h():\n    pass", "class K:\n    pass", "if X:\n    import re",
              "@dec\ndef g():\n    pass", "async def a():\n    pass", "__all__ = ['q']", "x: int = 3", "# comment",
              "try:\n    import q\nexcept ImportError:\n    q = None", "from __future__ import print_function", "''"]


def hoist_stress_case(rng):
    """empty mapping, nothing imported: the content gen re-parses and hoists is the prepend text (any statements in any
    order) followed by `__all__ = []`"""
    stmts = [rng.choice(HOIST_POOL) for _ in range(rng.randint(0, 9))]
    prepend = "\n".join(stmts) + rng.choice(["\n", "\n", "\n\n", ""])
    c = gen_case(rng, n_entries=0, prepend=prepend, imports={"how": "none"}, type_=rng.choice(["class", "argparse", "function"]),
                 name_tpl="{name}Config", mapping_ref="ok", existing=None if rng.random() < 0.85 else "OLD = 1\n",
                 plain_keys=True)
    c["tags"] = ["hoist-stress", "statements-%d" % min(len(stmts), 6)]
    return c


def gen(rng, n, tier="quick"):
    cases = []
    for i in range(n):
        r = rng.random()
        if r < 0.12:
            cases.append(hoist_stress_case(rng))
        elif r < 0.62:
            cases.append(gen_case(rng))
        elif r < 0.80:
            cases.append(gen_cli_case(rng))
        elif r < 0.88:
            tpl = rng.choice(TEMPLATES_GOOD + TEMPLATES_BAD + ["".join(rng.choice("{}nameX!:. 0[") for _ in range(rng.randint(0, 8)))])
            c = _new_case(rng, "gen_format_name", tpl=tpl, name=rng.choice(["A", "Foo", "", "a b", "{x}"]))
            c["tags"] = ["format"]
            cases.append(c)
        elif r < 0.96:
            s = "".join(rng.choice(["\\", "\\", "n", "t", "x", "4", "1", "0", "7", "8", "a", "q", "'", '"', "\n", " ", "u", "N", "{", "f"])
                        for _ in range(rng.randint(0, 8)))
            c = _new_case(rng, "gen_decode_escape", s=s)
            c["tags"] = ["escape"]
            cases.append(c)
        else:
            names = [rng.choice(["A", "FooConfig", "a b", "x-y", "", "1", "[", "],", ", "]) for _ in range(rng.randint(0, 4))]
            c = _new_case(rng, "gen_all_text", names=names)
            c["tags"] = ["all-text"]
            cases.append(c)
    return cases


# ------------------------------------------------------------------ independent tabulation
def kind_of(e):
    if isinstance(e, SyntaxError):
        return "SyntaxError"
    if isinstance(e, OSError):
        return "IOError"
    return type(e).__name__


def top_of(node):
    """kind tag + ast.unparse text of one top-level statement (wire form of Gen.top)"""
    text = ast.unparse(node)
    if isinstance(node, ast.Expr) and isinstance(node.value, ast.Constant) and isinstance(node.value.value, str):
        doctext = ast.unparse(ast.Module(body=[node], type_ignores=[]))
        return [Sym("str"), bool(inspect.cleandoc(node.value.value)), text, doctext]
    if isinstance(node, ast.Import):
        return [Sym("import"), Sym("none"), text]
    if isinstance(node, ast.ImportFrom):
        return [Sym("import"), opt(node.module), text]
    if isinstance(node, (ast.FunctionDef, ast.AsyncFunctionDef, ast.ClassDef)):
        return [Sym("def"), isinstance(node, ast.ClassDef), node.name, text]
    if isinstance(node, ast.Assign) and len(node.targets) == 1 and isinstance(node.targets[0], ast.Name) \
            and node.targets[0].id == "__all__" and isinstance(node.value, ast.List) \
            and all(isinstance(x, ast.Constant) and isinstance(x.value, str) for x in node.value.elts):
        return [Sym("all"), [x.value for x in node.value.elts], text]
    return [Sym("other"), text]


def tops_of_src(src):
    """None when ast.parse raises SyntaxError"""
    try:
        m = ast.parse(src)
    except SyntaxError:
        return None
    return [top_of(n) for n in m.body]


def table_entry(src):
    t = tops_of_src(src)
    return [src, Sym("none") if t is None else [Sym("some"), t]]


def enc_kwval(v):
    if v is None:
        return Sym("none")
    if isinstance(v, bool):
        return [Sym("b"), v]
    if isinstance(v, str):
        return [Sym("s"), v]
    if isinstance(v, (list, tuple)) and all(isinstance(x, str) for x in v):
        return [Sym("l"), list(v)]
    return [Sym("unknown"), repr(v)]


def enc_kwargs(kw):
    return [[k, enc_kwval(v)] for k, v in kw.items()]


def _is_ascii(s):
    return all(ord(c) < 128 for c in s)


# ------------------------------------------------------------------ running the real gen under observation
_CACHE = {}


class _Proxy(object):
    def __init__(self, real, wrap):
        self._real, self._wrap = real, wrap

    def __getattr__(self, name):
        v = getattr(self._real, name)
        w = self._wrap(name, v)
        return v if w is None else w


class _OutFile(object):
    def __init__(self, real, rec, mode):
        self._f, self._rec, self._mode = real, rec, mode

    def write(self, text):
        self._rec.append(("write", self._mode, text))
        return self._f.write(text)

    def __enter__(self):
        return self

    def __exit__(self, *a):
        self._f.close()
        return False

    def __getattr__(self, n):
        return getattr(self._f, n)


def materialise(case):
    """temp package dir holding the input module (and the imports file, the existing output); returns the concrete
    arguments for gen.  Touches nothing but the new directory (safe to call from worker threads)."""
    mod = case["module"]
    n = names_of(case)
    modname = n["modname"]
    tmp = tempfile.mkdtemp(prefix="verif_gen_")
    parts = modname.split(".")
    d = tmp
    init_imports = (case.get("layout") or {}).get("init_imports") or []
    for i, p in enumerate(parts[:-1]):
        d = os.path.join(d, p)
        os.mkdir(d)
        with open(os.path.join(d, "__init__.py"), "w") as f:
            if init_imports:
                f.write('""" package """\n' + "\n".join(init_imports) + "\n")
            if n["reexport"]:
                f.write("from .%s import %s\n" % (".".join(parts[i + 1:]), n["obj"]))
    modfile = os.path.join(d, parts[-1] + ".py")
    with open(modfile, "w") as f:
        f.write(mod["src"])
    imp = case["imports"]
    if imp["how"] == "other":
        imp_arg = os.path.join(tmp, "imports_src.py")
        with open(imp_arg, "w") as f:
            f.write(imp["src"])
    elif imp["how"] == "module":
        imp_arg = modname
    elif imp["how"] == "package":
        imp_arg = (n["parent"] if imp.get("level") == "parent" else n["base"]) if n["parent"] else modname
    elif imp["how"] == "file":
        imp_arg = modfile
    elif imp["how"] == "symbol":
        imp_arg = symbol_path(case)[0]
    elif imp["how"] == "missing":
        imp_arg = "verif_no_such_module_" + case["uid"]
    else:
        imp_arg = None
    ref = case["mapping_ref"]
    input_mapping = {"ok": modname + ".M", "nodot": "M", "nomodule": "verif_no_such_" + case["uid"] + ".M",
                     "noattr": modname + ".NOPE"}[ref]
    # the working directory of the invocation (None = case from before working directories were drawn: the in-process
    # route stays where the harness is, the command-line route runs in the project directory)
    cwd = None
    if case.get("cwd") == "project":
        cwd = tmp
    elif case.get("cwd") == "elsewhere":
        cwd = os.path.join(tmp, "_elsewhere")
        os.mkdir(cwd)
    if imp.get("decoy") and imp_arg is not None and cwd is not None:
        decoy = os.path.join(cwd, imp_arg)
        if not os.path.lexists(decoy):
            if imp["decoy"] == "dir":
                os.mkdir(decoy)
            else:
                with open(decoy, "w") as f:
                    f.write(imp.get("decoy_src", "import os\n"))
    # the output file, and how the command line spells it
    spelling = (case.get("out") or {}).get("spelling", "plain")
    out_path = os.path.join(tmp, "output.py")
    out_arg = out_path
    if spelling == "dot-relative":
        out_path = os.path.join(cwd or tmp, "output.py")
        out_arg = os.path.join(".", "output.py")
    elif spelling == "tilde":
        out_arg = os.path.join("~", "output.py")          # HOME is tmp (see env)
    elif spelling == "symlinked-dir":
        os.mkdir(os.path.join(tmp, "_outdir"))
        os.symlink("_outdir", os.path.join(tmp, "_outlink"))
        out_path = os.path.join(tmp, "_outdir", "output.py")
        out_arg = os.path.join(tmp, "_outlink", "output.py")
    if case["existing"] is not None:
        with open(out_path, "w") as f:
            f.write(case["existing"])
    return dict(tmp=tmp, modname=modname, imp_arg=imp_arg, input_mapping=input_mapping, out_path=out_path, out_arg=out_arg,
                cwd=cwd, env={"HOME": tmp})


@contextlib.contextmanager
def activated(ws, remove=True):
    """put the materialised directory on sys.path for the duration; afterwards drop it, forget the case's modules and
    (by default) delete the directory"""
    saved_path = list(sys.path)
    saved_modules = set(sys.modules)
    saved_cwd = os.getcwd()
    try:
        sys.path.insert(0, ws["tmp"])
        importlib.invalidate_caches()
        if ws.get("cwd"):
            os.chdir(ws["cwd"])           # relative names (an imports-from-file argument) mean what they mean there
        yield ws
    finally:
        os.chdir(saved_cwd)
        sys.path[:] = saved_path
        for k in set(sys.modules) - saved_modules:
            if k.startswith("verif_genin_"):
                del sys.modules[k]
        importlib.invalidate_caches()
        if remove:
            shutil.rmtree(ws["tmp"], ignore_errors=True)


def forget_case_modules():
    """drop the generated input modules from the import system: what one step imported must not help the next resolve"""
    for k in [k for k in sys.modules if k.startswith("verif_genin_")]:
        del sys.modules[k]
    importlib.invalidate_caches()


def prepend_namespace(prepend):
    """the names bound by executing the import statements of the prepended text ({} when there are none, when the text
    does not parse or when executing them raises)"""
    ns = {}
    if prepend:
        try:
            pm = ast.parse(prepend.strip())
        except SyntaxError:
            return {}
        code = "\n".join(ast.unparse(s) for s in pm.body if isinstance(s, (ast.Import, ast.ImportFrom)))
        try:
            exec(compile(code, "<prepend>", "exec"), ns)
        except Exception:  # noqa
            return {}
    ns.pop("__builtins__", None)
    return ns


def resolve_imports_file(arg, prepend):
    """the file that `imports_from_file` names, worked out without doctrans: a path to a file; else an importable module;
    else a dotted symbol path whose first component is bound by the imports of the prepended text — the file of the
    module in which the named object is defined.  Raises what the import system / inspect raise."""
    if os.path.isfile(arg):
        return arg
    try:
        return inspect.getfile(importlib.import_module(arg))
    except ModuleNotFoundError:
        ns = prepend_namespace(prepend)
        head, _, rest = arg.partition(".")
        if head not in ns:
            raise
        obj = ns[head]
        for a in (rest.split(".") if rest else []):
            obj = getattr(obj, a)
        return inspect.getfile(inspect.getmodule(obj))


@contextlib.contextmanager
def workspace(case):
    with activated(materialise(case)) as ws:
        yield ws


def observe(case):
    """run the real gen once for this case; returns dict(inputs for the model, observations)"""
    key = json.dumps(case, sort_keys=True, default=str)
    if key in _CACHE:
        return _CACHE[key]
    with workspace(case) as ws:
        res = _observe_in(case, ws)
    _CACHE[key] = res
    return res


def _observe_in(case, ws):
    m = impl()
    gen_mod = m.gen
    mod = case["module"]
    imp = case["imports"]
    imp_arg, input_mapping, out_path = ws["imp_arg"], ws["input_mapping"], ws["out_path"]
    saved_globals = dict(gen_mod.__dict__)
    res = {}
    try:
        prepend = case["prepend"]

        # ---- independent tabulation of the model's inputs
        table_srcs = []
        if imp_arg is None:
            file_in = Sym("none")
        else:
            forget_case_modules()
            try:
                fpath = resolve_imports_file(imp_arg, prepend)
                with open(fpath, "rt") as f:
                    ftext = f.read()
                file_in = [Sym("some"), [Sym("ok"), ftext]]
                table_srcs.append(ftext)
            except Exception as e:  # noqa
                file_in = [Sym("some"), [Sym("err"), Sym(kind_of(e))]]
        forget_case_modules()
        prepend_eval = Sym("none")
        if imp_arg is not None and prepend:
            table_srcs.append(prepend.strip())
            try:
                pm = ast.parse(prepend.strip())
                code = "\n".join(ast.unparse(n) for n in pm.body if isinstance(n, (ast.Import, ast.ImportFrom)))
                try:
                    exec(compile(code, "<prepend>", "exec"), {})
                except Exception as e:  # noqa
                    prepend_eval = [Sym("some"), Sym(kind_of(e))]
            except SyntaxError:
                pass
        forget_case_modules()
        objs = None
        if "." not in input_mapping:
            mapping_in_head = ("err", "NotResolved")
        else:
            mp, _, sym_ = input_mapping.rpartition(".")
            try:
                mobj = getattr(importlib.import_module(mp), sym_)
                objs = list(mobj.items() if hasattr(mobj, "items") else mobj)
                mapping_in_head = ("ok", None)
            except Exception as e:  # noqa
                mapping_in_head = ("err", kind_of(e))

        # ---- the real run, observed
        rec = []

        def wrap_parse(name, real):
            if not callable(real):
                return None

            def w(*a, **k):
                rec.append(("call-parse", name, dict(k)))
                try:
                    r = real(*a, **k)
                except Exception as e:  # noqa
                    rec.append(("parse-raised", kind_of(e)))
                    raise
                rec.append(("parse-ok",))
                return r
            return w

        def wrap_emit(name, real):
            if not callable(real):
                return None

            def w(*a, **k):
                rec.append(("call-emit", name, dict(k)))
                try:
                    r = real(*a, **k)
                except Exception as e:  # noqa
                    rec.append(("emit-raised", kind_of(e)))
                    raise
                return r
            return w

        def wrap_ast(name, real):
            if name != "parse":
                return None

            def w(src, *a, **k):
                rec.append(("parse-src", src))
                return real(src, *a, **k)
            return w

        real_to_code = gen_mod.to_code

        def to_code(node):
            try:
                r = real_to_code(node)
            except Exception as e:  # noqa
                if isinstance(node, (ast.FunctionDef, ast.ClassDef)):
                    rec.append(("emit-raised", kind_of(e)))
                raise
            if isinstance(node, (ast.FunctionDef, ast.ClassDef)):
                rec.append(("emitted", r))
            elif isinstance(node, ast.Assign):
                rec.append(("all-assign", node, r))
            elif isinstance(node, ast.Module):
                rec.append(("module-to-code", node, r))
            return r

        def compile_(src, *a, **k):
            rec.append(("eval-imports", src))
            return compile(src, *a, **k)

        def print_(*a, **k):
            rec.append(("print", " ".join(str(x) for x in a)))

        def open_(path, mode="r", *a, **k):
            f = open(path, mode, *a, **k)
            if os.path.abspath(path) == os.path.abspath(out_path):
                return _OutFile(f, rec, mode)
            return f

        gen_mod.parse = _Proxy(m.parse, wrap_parse)
        gen_mod.emit = _Proxy(m.emit, wrap_emit)
        gen_mod.ast = _Proxy(ast, wrap_ast)
        gen_mod.to_code = to_code
        gen_mod.compile = compile_
        gen_mod.print = print_
        gen_mod.open = open_
        exc = None
        o = case["opts"]
        forget_case_modules()
        try:
            with warnings.catch_warnings():
                warnings.simplefilter("ignore")
                gen_mod.gen(case["name_tpl"], input_mapping, case["type_"], out_path, prepend=prepend,
                            imports_from_file=imp_arg, emit_call=o["emit_call"], emit_default_doc=o["emit_default_doc"],
                            decorator_list=o["decorator_list"])
        except Exception as e:  # noqa
            exc = kind_of(e)
        file_after = open(out_path).read() if os.path.isfile(out_path) else None

        # ---- digest the recording
        keys = [k for k, _ in objs] if objs is not None else []
        try:
            names_fmt = [case["name_tpl"].format(name=k) for k in keys]
        except Exception:  # noqa
            names_fmt = None
        all_list_src = None if names_fmt is None else None
        events, entry_res, cur = [], [], -1
        content = hoisted = all_names = written = None
        last_module_src = None
        for r in rec:
            t = r[0]
            if t == "print":
                cur += 1
                entry_res.append(None)
                k = keys[cur] if cur < len(keys) else None
                if k is not None and r[1] == "Generating: {!r}".format(k):
                    events.append([Sym("generating"), k])
                else:
                    events.append([Sym("generating-unexpected"), r[1]])
            elif t == "call-parse":
                events.append([Sym("call-parse"), r[1], enc_kwargs(r[2])])
            elif t == "parse-raised":
                entry_res[cur] = [Sym("parse-raises"), Sym(r[1])]
            elif t == "parse-ok":
                entry_res[cur] = Sym("parsed")
            elif t == "call-emit":
                events.append([Sym("call-emit"), r[1], enc_kwargs(r[2])])
            elif t == "emit-raised":
                entry_res[cur] = [Sym("emit-raises"), Sym(r[1])]
            elif t == "emitted":
                entry_res[cur] = [Sym("emitted"), r[1]]
            elif t == "parse-src":
                events.append([Sym("parse-src"), r[1]])
                table_srcs.append(r[1])
                last_module_src = r[1]
            elif t == "eval-imports":
                events.append([Sym("eval-imports"), r[1]])
            elif t == "all-assign":
                v = r[1].value
                all_names = [x.value for x in v.elts] if isinstance(v, ast.List) else None
            elif t == "module-to-code":
                if any(x[0] == "all-assign" for x in rec[:rec.index(r)]):
                    hoisted = [top_of(n) for n in r[1].body]
                    written_text = r[2]
            elif t == "write":
                events.append([Sym("write"), r[1], r[2]])
                written = r[2]
        # the ast.parse(str(list(...))) inside the __all__ construction is not an event of the model: drop it
        if all_names is not None:
            lit = str(all_names)
            for i in range(len(events) - 1, -1, -1):
                if events[i][0] == "parse-src" and events[i][1] == lit:
                    del events[i]
                    break
            content = next((e[1] for e in reversed(events) if e[0] == "parse-src"), None)
        entries_in = []
        if objs is not None:
            for i, (k, obj) in enumerate(objs):
                er = entry_res[i] if i < len(entry_res) and entry_res[i] is not None else [Sym("emit-raises"), Sym("NotReached")]
                entries_in.append([k, bool(inspect.isfunction(obj)), er])
        mapping_in = [Sym("ok"), entries_in] if mapping_in_head[0] == "ok" else [Sym("err"), Sym(mapping_in_head[1])]
        gi = [case["name_tpl"], input_mapping, mapping_in, case["type_"], opt(prepend), file_in, prepend_eval,
              [o["emit_call"], o["emit_default_doc"], opt(o["decorator_list"])]]
        # texts the domain / guard of C19 look up (not used by gen itself): prepend as given, every emitted text
        if prepend is not None:
            table_srcs.append(prepend)
        table_srcs += [e[2][1] for e in entries_in if isinstance(e[2], list) and e[2][0] == "emitted"]
        seen, table = set(), []
        for s in table_srcs:
            if s not in seen:
                seen.add(s)
                table.append(table_entry(s))
        texts = [mod["src"], case["name_tpl"], prepend or "", case["existing"] or "", imp.get("src", "")] + \
                [str(k) for k in keys]
        res["ascii"] = all(_is_ascii(t) for t in texts) and all(isinstance(k, str) for k in keys)
        res["gi"], res["table"], res["keys"] = gi, table, keys
        res["request"] = dumps([Sym("gen"), gi, table, opt(case["existing"])])
        if exc is None:
            ok = [Sym("ok"), [content, hoisted, all_names, written]]
        else:
            ok = [Sym("err"), Sym(exc)]
        res["response"] = dumps([Sym("gen"), events, ok, opt(file_after)])
        res["exc"], res["file_after"], res["written"], res["content"] = exc, file_after, written, content
        res["entry_res"] = entries_in
        res["hoisted"], res["all_names"] = hoisted, all_names
    finally:
        gen_mod.__dict__.clear()
        gen_mod.__dict__.update(saved_globals)
    return res


# ------------------------------------------------------------------ CLI decision
def _cli_argv(a):
    argv = ["gen"]
    for k, flag in (("name_tpl", "--name-tpl"), ("input_mapping", "--input-mapping"), ("type", "--type"),
                    ("output_filename", "--output-filename"), ("prepend", "--prepend"),
                    ("imports_from_file", "--imports-from-file")):
        if a[k] is not None:
            argv.append("%s=%s" % (flag, a[k]))
    if a["emit_call"]:
        argv.append("--emit-call")
    for d in a["decorators"]:
        argv.append("--decorator=%s" % d)
    return argv


def run_cli(case):
    m = impl()
    main_mod = m.main_mod
    a = case["args"]
    tmp = tempfile.mkdtemp(prefix="verif_gencli_")
    cwd = os.getcwd()
    saved_gen = main_mod.gen
    calls = []
    try:
        os.chdir(tmp)
        if case["exists"] and a["output_filename"]:
            with open(a["output_filename"], "w") as f:
                f.write("OLD\n")
        main_mod.gen = lambda **kw: calls.append(kw)
        err = io.StringIO()
        try:
            with contextlib.redirect_stderr(err), contextlib.redirect_stdout(io.StringIO()), warnings.catch_warnings():
                warnings.simplefilter("ignore")
                main_mod.main(_cli_argv(a))
        except SystemExit as e:
            return dumps(Sym("usage") if e.code == 2 else [Sym("exit"), str(e.code)])
        except Exception as e:  # noqa
            return dumps([Sym("raise"), Sym(kind_of(e))])
        if len(calls) != 1:
            return dumps([Sym("no-call"), len(calls)])
        kw = calls[0]
        extra = sorted(set(kw) - {"name_tpl", "input_mapping", "type_", "output_filename", "prepend", "imports_from_file",
                                  "emit_call", "decorator_list"})
        if extra:
            return dumps([Sym("extra-kwargs"), extra])
        return dumps([Sym("run"), kw["name_tpl"], kw["input_mapping"], kw["type_"], kw["output_filename"],
                      opt(kw["prepend"]), opt(kw["imports_from_file"]), bool(kw["emit_call"]),
                      opt(kw["decorator_list"])])
    finally:
        main_mod.gen = saved_gen
        os.chdir(cwd)
        shutil.rmtree(tmp, ignore_errors=True)


# ------------------------------------------------------------------ family interface
def request(case):
    fn = case["fn"]
    if fn == "gen":
        return observe(case)["request"]
    if fn == "gen_cli":
        a = case["args"]
        return dumps([Sym(fn), [opt(a["name_tpl"]), opt(a["input_mapping"]), opt(a["type"]), opt(a["output_filename"]),
                                opt(a["prepend"]), opt(a["imports_from_file"]), a["emit_call"], a["decorators"]],
                      bool(case["exists"] and a["output_filename"])])
    if fn == "gen_format_name":
        return dumps([Sym(fn), case["tpl"], case["name"]])
    if fn == "gen_decode_escape":
        return dumps([Sym(fn), case["s"]])
    if fn == "gen_all_text":
        return dumps([Sym(fn), case["names"]])
    raise KeyError(fn)


def _out(thunk):
    try:
        r = thunk()
    except Exception as e:  # noqa
        k = "ValueError" if isinstance(e, UnicodeError) else kind_of(e)
        return dumps([Sym("err"), Sym(k)])
    return dumps([Sym("ok"), r])


def run_impl(case):
    fn = case["fn"]
    if fn == "gen":
        return observe(case)["response"]
    if fn == "gen_cli":
        return run_cli(case)
    if fn == "gen_format_name":
        return _out(lambda: case["tpl"].format(name=case["name"]))
    if fn == "gen_decode_escape":
        def dec():
            with warnings.catch_warnings():
                warnings.simplefilter("ignore")
                r = codecs.decode(str(case["s"]), "unicode_escape")
            r.encode("latin-1")
            return r
        return _out(dec)
    if fn == "gen_all_text":
        m = impl()
        from ast import Assign, Name, Store
        set_value, to_code = m.ast_utils.set_value, m.source_transformer.to_code
        # the __all expression of gen.py, verbatim, over the real set_value / to_code
        return dumps(to_code(Assign(
            targets=[Name("__all__", Store())],
            value=ast.parse(str(list(map(lambda s: s.rstrip("\n").strip("'").strip('"'),
                                         map(to_code, map(set_value, case["names"])))))).body[0].value,
            expr=None, lineno=None, **m.ast_utils.maybe_type_comment)))
    raise KeyError(fn)


def nontrivial(case):
    if case["fn"] == "gen":
        o = observe(case)
        return o["content"] is not None
    if case["fn"] == "gen_cli":
        return "complete" in case["tags"]
    return True
