"""Correspondence family `parsesig`: the signature part of parse.function, _merge_inner_function, _set_name_and_type /
_infer_default, ast.unparse / ast.literal_eval on default expressions, and inspect.signature (py_signature)
vs coq/model/ParseSig.v.

The docstring-derived IR that parse.function starts from is produced here by the REAL parse.docstring and handed
to the model as an input, so this layer is independent of the docstring-parser model."""
import ast
import copy
import inspect
import random

from common import Sym, dumps, opt, outcome, impl
import astwire
import irwire
import fam_merge

NAME = "parsesig"

ARG_NAMES = ["a", "b", "x", "y", "value", "name", "K", "dataset_name", "batch_size", "lr", "opt", "as_numpy", "tfds_dir", "opt_kwargs"]
KW_NAMES = ["kwargs", "kwargs", "model_kwargs", "data_loader_kwargs", "kw", "extra"]
ANNS = ["int", "str", "float", "bool", "Optional[int]", "Optional[str]", "List[str]", "Literal['a', 'b']",
        "Union[int, str]", "Dict[str, int]", "np.ndarray", "'int'", "Callable[[int], str]", "Tuple[int, ...]",
        "object", "dict", "tf.data.Dataset", "Optional[List[Union[str, int]]]"]
# default expressions by kind
D_LITERAL = ["5", "0", "-1", "+3", "2.5", "-0.5", "1e-07", "1e400", "'mnist'", "\"it's\"", "'say \"hi\"'", "'a.b'", "''",
             "'None'", "\"'q'\"", "'\"dq\"'", "'```x```'", "'tab\\there'", "'nl\\nhere'", "'back\\\\slash'",
             "None", "True", "False", "12345678901234567890"]
D_CONTAINER = ["(1, 2)", "(1,)", "()", "[1]", "[]", "{}", "{1: 2}", "{'a': [1, (2,)]}", "set()", "[-1, 'x', None]",
               "(True, 2.5)", "{'a': 1, 'b': 2}", "{1: 'a', 2: 'b'}", "[[1], [2, 3]]", "{(1, 2): 3}"]
D_CODE = ["np.array([1])", "foo()", "x", "np.x", "dict()", "os.path.join('a', 'b')", "f(a, b=1, **kw)", "a[0]", "a[1, 2]",
          "a[()]", "(x, 1)", "[x]", "{'k': v}", "-x", "not True", "~1", "not -x", "-(not x)", "(-x).y", "f(-1)",
          "a.b.c", "T[int]", "a[b][c]", "f()()", "f(x)(y)", "1 .real", "(1.5).real", "[x, (y, z)]", "-(-x)", "+x",
          "f(*a)", "{**a}", "a[1:2]", "[*a]"]
D_OPAQUE = ["lambda x: x", "1 + 2", "a if b else c", "b'x'", "1j", "...", "{1, 2}", "-1j", "x == 1", "f(y for y in z)",
            "(a + b).c", "f'x{y}'", "[i for i in x]", "(yield)", "f(a + b)", "(a + b)", "[a + b, 1]", "a or b"]
D_WEIRD = ["{1: 2, 1: 3}", "{1: 'a', True: 'b'}", "{[1]: 2}", "{1.0: 2, 1: 3}", "-True", "--1", "{'a': {'b': [1]}}",
           "({}, [])", "{(1, [2]): 3}", "-'x'", "-None", "~True", "~1.5", "-1e400"]
P_CODE = [d for d in D_CODE if not any(t in d for t in ("not", "~", "*", ":", ".real"))]
BODY_TAILS = ["pass", "return None", "return 5", "return a", "return (a)", "return a, b", "return (1, 2)", "return a.b",
              "return 'x'.join", "return 'x'", "return -1", "return -x", "return not a", "return ~5", "return -'s'",
              "return np.empty(0), np.empty(0)", "return f(a)", "return [a]", "return a[0]", "return", "return a + 1",
              "return 2.5", "return True", "return {'a': 1}", "x = 1\n    return x", "return 5[0]", "return -None", "return not True", "return not 0",
              "return not None", "return not 'x'", "return not 2.5", "return ~True",
              # bodies WITHOUT a final top-level return (a return nested deeper must not be taken for it)
              "x = 2", "print(a)", "if a:\n        return 9\n    x = 3", "for q in ():\n        return q", "pass"]
RET_ANNS = [None, None, None, "int", "str", "Tuple[int, str]", "np.ndarray", "'C'", "Optional[int]", "None"]
PROSE = ["the a", "the value.", "name of thing", "Optional thing", "(Optional) setting", "number of items.",
         "path to\n        the file", "x  y ", "learning rate", "", "Optional[int] wrapper"]
DOC_TYPES = ["int", "str", "float", "bool", "Optional[str]", "List[int]", "dict", "np.ndarray", "Literal['a', 'b']",
             "int, optional", "Union[str, int]", "object"]
DOC_DEFAULTS = ["5", "None", "'x'", "2.5", "True", "np.x", "mnist", "-1", "(1, 2)", "[]", "```foo()```"]


def _uniq(rng, pool, used):
    c = [n for n in pool if n not in used]
    if not c:
        return None
    n = rng.choice(c)
    used.add(n)
    return n


def gen_default(rng, kinds=None):
    kinds = kinds or ["lit", "lit", "lit", "lit", "cont", "cont", "code", "code", "code", "opaque", "weird"]
    k = rng.choice(kinds)
    return k, rng.choice({"lit": D_LITERAL, "cont": D_CONTAINER, "code": D_CODE, "opaque": D_OPAQUE, "weird": D_WEIRD,
                          "pcode": P_CODE}[k])


RECEIVER_NAMES = ["self", "cls"]
# names that are the receiver in OTHER conventions (metaclasses, other languages) or merely look like one: for Python - and
# for the property, which leaves out self / cls only - a parameter called so is an ordinary parameter in every position
NEAR_RECEIVER_NAMES = ["mcs", "klass", "this", "me", "metacls", "selfish", "mcls", "self_", "_self", "cls_", "kls", "Self"]
GN_DEFAULTS = ["5", "0", "-1", "2.5", "True", "'x'", "mnist", "(1, 2)", "[]", "None"]


def _gn_prose(rng, p_default, tags):
    """prose of one Google / numpydoc entry; with probability p_default it documents a default"""
    prose = rng.choice(PROSE[:6])
    if p_default and rng.random() < p_default:
        prose = (prose + " Defaults to " + rng.choice(GN_DEFAULTS)).strip()
        tags.append("doc-default")
    return prose


def mutate_doc_lines(rng, d):
    """damage the docstring lines `d` (in place) by ONE small text edit of the kind a person makes: a bracket or colon
    dropped or doubled, a line indented differently, an entry cut short, a section underline shortened.  Returns the name
    of the edit or None when there was nothing to edit.  Entry lines are preferred to summary lines."""
    idx = [i for i, l in enumerate(d) if l.strip() and l.strip() != '"""']
    entry = [i for i in idx if i >= 2 and (d[i].lstrip().startswith(":") or "(" in d[i] or " : " in d[i])]
    if not idx:
        return None
    i = rng.choice(entry) if entry and rng.random() < 0.85 else rng.choice(idx)
    l = d[i]
    edits = ["drop-close", "drop-close", "drop-close", "drop-open", "drop-colon", "add-colon", "indent", "dedent", "cut", "underline"]
    rng.shuffle(edits)
    for e in edits:
        if e == "drop-close" and ")" in l:
            k = l.rindex(")")
            d[i] = l[:k] + l[k + 1:]
        elif e == "drop-open" and "(" in l:
            k = l.index("(")
            d[i] = l[:k] + l[k + 1:]
        elif e == "drop-colon" and ":" in l.strip()[1:]:
            k = l.index(":", len(l) - len(l.lstrip()) + 1)
            d[i] = l[:k] + l[k + 1:]
        elif e == "add-colon" and l.strip():
            d[i] = l.rstrip() + ":"
        elif e == "indent":
            d[i] = "    " + l
        elif e == "dedent" and l.startswith(" "):
            d[i] = l.lstrip()
        elif e == "cut" and len(l.split()) > 1:
            d[i] = l[:len(l) - len(l.lstrip())] + l.split()[0]
        elif e == "underline" and set(l.strip()) == {"-"}:
            d[i] = l.replace("-", "", len(l.strip()) - 3)
        else:
            continue
        return e
    return None


def gen_def(rng, kind=None, name=None, safe=False, allow_vararg=True, receiver_names=0.0, type_first=0.0, gn_defaults=0.0,
            malformed=0.0, dmodes=None, near_receiver=0.0):
    """returns (source of one def at column 0, info dict).
    near_receiver: probability that one positional parameter - usually the FIRST one of a plain function, else the first
    after the receiver of a method or a later one - has a name that is the receiver of another convention or looks like
    one (NEAR_RECEIVER_NAMES: mcs, klass, this, ...): Python keeps such a parameter whatever its position.
    type_first: probability that the `:type n:` field of a ReST entry is written BEFORE its `:param n:` / `:cvar n:` field
    (Sphinx accepts the fields of one parameter in either order).
    gn_defaults: probability that a Google / numpydoc entry documents a default ("... Defaults to 5").
    malformed: probability that the finished docstring is damaged by one small text edit (mutate_doc_lines): such a
    docstring may be rejected by the docstring parser part-way; the definition is still one Python executes.
    dmodes: the documentation modes to draw from (None: the standard mix).
    receiver_names: probability that an ordinary parameter which is NOT the first positional one (a later positional or a
    keyword-only parameter) is called `self` / `cls`: for Python such a parameter is just a parameter."""
    used = set()
    tags = []
    parts = []
    kind = kind if kind is not None else rng.choice(["static", "static", "self", "cls"])
    if kind in ("self", "cls"):
        parts.append(kind if rng.random() < 0.97 else kind + "=None")
        used.add(kind)
    npos = rng.choice([0, 1, 2, 2, 3, 4])
    pos = [n for n in (_uniq(rng, ARG_NAMES, used) for _ in range(npos)) if n]
    recv_kwonly = None
    if receiver_names and rng.random() < receiver_names:
        rn = _uniq(rng, RECEIVER_NAMES, used)
        first_free = 0 if kind in ("self", "cls") else 1      # slot 0 of a static definition would make it a method
        if rn is not None and len(pos) > first_free and rng.random() < 0.8:
            pos[rng.randrange(first_free, len(pos))] = rn
            tags.append("receiver-name:positional")
        elif rn is not None:
            recv_kwonly = rn
    if near_receiver and rng.random() < near_receiver:
        nn = _uniq(rng, NEAR_RECEIVER_NAMES, used)
        if not pos:
            pos.append(nn)
            tags.append("near-receiver:first")
        else:
            free = [i for i, n in enumerate(pos) if n not in RECEIVER_NAMES]
            i = 0 if (pos[0] not in RECEIVER_NAMES and rng.random() < 0.7) else (rng.choice(free) if free else None)
            if i is not None:
                used.discard(pos[i])
                pos[i] = nn
                tags.append("near-receiver:" + ("first" if i == 0 else "later"))
    ndef = rng.randint(0, len(pos))
    sig_names = []
    dk = ["lit", "lit", "cont", "pcode"] if safe else None
    for i, n in enumerate(pos):
        s = n
        if rng.random() < 0.45:
            s += ": " + rng.choice(ANNS)
            tags.append("ann")
        if i >= len(pos) - ndef:
            k, d = gen_default(rng, dk)
            s += (" = " if ":" in s else "=") + d
            tags.append("default:" + k)
        parts.append(s)
        sig_names.append(n)
    if allow_vararg and rng.random() < 0.04:
        parts.append("*args")
        tags.append("vararg")
        used.add("args")
    if rng.random() < 0.35 or recv_kwonly:
        kws = [n for n in (_uniq(rng, ARG_NAMES, used) for _ in range(rng.choice([1, 2]))) if n]
        if recv_kwonly:
            kws[rng.randrange(len(kws) + 1):0] = [recv_kwonly]
            tags.append("receiver-name:kwonly")
        if kws:
            if "*args" not in parts:
                parts.append("*")
            for n in kws:
                s = n
                if rng.random() < 0.45:
                    s += ": " + rng.choice(ANNS)
                if rng.random() < 0.6:
                    k, d = gen_default(rng, dk)
                    s += (" = " if ":" in s else "=") + d
                    tags.append("default:" + k)
                parts.append(s)
                sig_names.append(n)
            tags.append("kwonly")
    kwn = None
    if rng.random() < 0.3:
        kwn = rng.choice(KW_NAMES)
        parts.append("**" + kwn + (": dict" if rng.random() < 0.1 else ""))
        tags.append("kwarg:" + ("kwargs-suffix" if kwn.endswith("kwargs") else "other"))
    fname = name or rng.choice(["f", "g", "train", "__init__", "run"])
    ret = rng.choice(RET_ANNS)
    head = "def %s(%s)%s:" % (fname, ", ".join(parts), " -> " + ret if ret else "")
    # docstring
    dmode = rng.choice(dmodes or ["none", "summary", "all", "all", "shuffled", "prefix", "some", "some", "extra", "google", "numpy"])
    documentable = sig_names + ([kwn] if kwn else []) + (["args"] if "*args" in parts else [])
    if dmode in ("all", "google", "numpy"):
        dn = list(documentable)
    elif dmode == "shuffled":
        dn = list(documentable)
        rng.shuffle(dn)
    elif dmode == "prefix":
        dn = documentable[:rng.randint(0, len(documentable))]
    elif dmode in ("some", "extra"):
        dn = [n for n in documentable if rng.random() < 0.5]
        if rng.random() < 0.4:
            rng.shuffle(dn)
        if dmode == "extra":
            dn.insert(rng.randint(0, len(dn)), "zz")
    else:
        dn = []
    tags.append("doc:" + dmode)
    lines = [head]
    ind = "    "
    if dmode != "none":
        d = ['"""', rng.choice(["Summary line.", "Does things.\n\n    More text here.", ""])]
        if dmode == "google":
            if dn:
                d += ["", "Args:"] + ["  %s (%s): %s" % (n, rng.choice(DOC_TYPES), _gn_prose(rng, gn_defaults, tags)) for n in dn]
            if rng.random() < 0.4:
                d += ["", "Returns:", "  %s: the result" % rng.choice(DOC_TYPES)]
        elif dmode == "numpy":
            if dn:
                d += ["", "Parameters", "----------"]
                for n in dn:
                    d += ["%s : %s" % (n, rng.choice(DOC_TYPES)), "    " + _gn_prose(rng, gn_defaults, tags)]
            if rng.random() < 0.4:
                d += ["", "Returns", "-------", rng.choice(DOC_TYPES), "    the result"]
        else:
            if dn or rng.random() < 0.5:
                d.append("")
            for n in dn:
                prose = rng.choice(PROSE)
                if rng.random() < 0.25:
                    prose = (prose + " Defaults to " + rng.choice(DOC_DEFAULTS)).strip()
                    tags.append("doc-default")
                d.append(":%s %s: %s" % (rng.choice(["param", "param", "param", "cvar"]), n, prose))
                if rng.random() < 0.4 or (n == kwn and not n.endswith("kwargs") and rng.random() < 0.6):
                    tl = ":type %s: ```%s```" % (n, rng.choice(DOC_TYPES))
                    if type_first and rng.random() < type_first:     # field order: the type field first
                        d[-1:-1] = [tl] + ([""] if rng.random() < 0.2 else [])
                        tags.append("doc-type-first")
                    else:
                        d.append(tl)
                    tags.append("doc-type")
                if rng.random() < 0.5:
                    d.append("")
            if rng.random() < 0.3:
                d += [":returns: the result", ":rtype: ```%s```" % rng.choice(DOC_TYPES)]
                tags.append("doc-returns")
        if malformed and rng.random() < malformed:
            what = mutate_doc_lines(rng, d)
            if what:
                tags.append("doc-malformed:" + what)
        d.append('"""')
        lines += [ind + x if x else "" for x in "\n".join(d).split("\n")]
    for _ in range(rng.choice([0, 0, 1])):
        lines.append(ind + rng.choice(["x = 1", "print('hi')", "z: int = 3", "if a:\n        return 7"]))
    tail = rng.choice(BODY_TAILS)
    if dmode == "none" or tail != "pass" or len(lines) > 2 or rng.random() < 0.7:
        lines.append(ind + tail)
    src = "\n".join(lines) + "\n"
    return src, {"tags": tags, "kind": kind, "sig_names": sig_names, "kwarg": kwn, "documented": dn, "name": fname}


def gen_class(rng, receiver_names=0.0, class_types=0.0, type_first=0.0, **defkw):
    """a class with an __init__ (usually), other methods, attributes, nested defs.
    class_types: probability that a `:cvar n:` entry of the class docstring also has a `:type n:` field; type_first: that
    this field (and those of the methods' docstrings) comes before the entry it belongs to; defkw: passed to gen_def"""
    lines = ["class C(object):"]
    tags = []
    if rng.random() < 0.6:
        lines += ['    """', "    Config class.", ""]
        for n in rng.sample(ARG_NAMES, rng.randint(0, 3)):
            lines.append("    :cvar %s: %s" % (n, rng.choice(PROSE[:6])))
            if class_types and rng.random() < class_types:
                tl = "    :type %s: ```%s```" % (n, rng.choice(DOC_TYPES))
                if type_first and rng.random() < type_first:
                    lines[-1:-1] = [tl]
                    tags.append("class-doc-type-first")
                else:
                    lines.append(tl)
                tags.append("class-doc-type")
                if rng.random() < 0.3:
                    lines.append("")
        lines.append('    """')
    for n in rng.sample(ARG_NAMES, rng.randint(0, 2)):
        lines.append("    %s: %s = %s" % (n, rng.choice(ANNS[:8]), rng.choice(["5", "None", "'x'", "[]", "{}", "(1, 2)", "np.x"])))
    order = ["helper", "__init__", "__call__"]
    rng.shuffle(order)
    for m in order:
        if rng.random() < 0.75:
            src, info = gen_def(rng, kind=rng.choice(["self", "self", "self", "static", "cls"]), name=m,
                                receiver_names=receiver_names, type_first=type_first, **defkw)
            if rng.random() < 0.1:
                lines.append("    if True:")
                lines += ["        " + l if l else "" for l in src.rstrip("\n").split("\n")]
            else:
                lines += ["    " + l if l else "" for l in src.rstrip("\n").split("\n")]
            if m == "__init__":
                tags += ["init"] + info["tags"]
    if rng.random() < 0.1:
        lines += ["    def outer(self):", "        def __init__(q, r=1):", "            pass", "        return 1"]
    if len(lines) == 1:
        lines.append("    pass")
    return "\n".join(lines) + "\n", tags


# ------------------------------------------------------------------ definitions that SHARE a docstring text
def _redraw_head(rng, head, mode, kinds=None):
    """the header line `def name(...) -> r:` with the same parameter names in the same order, the rest of the signature
    drawn anew.  mode: "stub" (annotations, every default is `...`), "bare" (no annotation, new default values),
    "overload" (new annotations and new defaults), "version" (as overload, and the last parameter is dropped or a new last
    parameter is added).  The first positional parameter is left alone when it is called self / cls."""
    fd = ast.parse(head + "\n    pass\n").body[0]
    a = fd.args
    recv = 1 if a.args and a.args[0].arg in ("self", "cls") else 0
    recv_default = recv and len(a.defaults) == len(a.args)

    def expr(src):
        return ast.parse(src, mode="eval").body

    def new_default():
        return ast.Constant(Ellipsis) if mode == "stub" else expr(gen_default(rng, kinds)[1])

    def new_ann(old):
        if mode == "bare":
            return None
        if mode == "stub":
            return old if old is not None and rng.random() < 0.7 else expr(rng.choice(ANNS)) if rng.random() < 0.85 else None
        return expr(rng.choice(ANNS)) if rng.random() < 0.45 else None

    if mode == "version":
        names = {x.arg for x in a.args + a.kwonlyargs} | ({a.kwarg.arg} if a.kwarg else set())
        free = [n for n in ARG_NAMES if n not in names]
        if (a.kwonlyargs or len(a.args) > recv) and rng.random() < 0.5:
            if a.kwonlyargs:
                a.kwonlyargs.pop()
                a.kw_defaults.pop()
            else:
                a.args.pop()
        elif free:
            if a.kwonlyargs or rng.random() < 0.5:
                a.kwonlyargs.append(ast.arg(rng.choice(free)))
                a.kw_defaults.append(None)
            else:
                a.args.append(ast.arg(rng.choice(free)))
    pos = a.args[recv:]
    for x in pos + a.kwonlyargs:
        x.annotation = new_ann(x.annotation)
    ndef = len(pos) if recv_default else rng.randint(0, len(pos))
    a.defaults = ([a.defaults[0]] if recv_default else []) + [new_default() for _ in range(ndef)]
    a.kw_defaults = [new_default() if rng.random() < 0.6 else None for _ in a.kwonlyargs]
    if mode != "bare" and rng.random() < 0.5:
        r = rng.choice(RET_ANNS)
        fd.returns = expr(r) if r else None
    elif mode == "bare":
        fd.returns = None
    return ast.unparse(ast.fix_missing_locations(fd)).split("\n")[0]


SHARED_MODES = ["stub", "bare", "overload", "overload", "version"]
DOC_MODES = ["summary", "all", "all", "shuffled", "prefix", "some", "some", "extra", "google", "numpy"]


def gen_def_variants(rng, k, safe=False, dmodes=None, **kw):
    """k definitions whose docstring TEXT (and body) is byte-identical while their signatures differ: the first is an
    ordinary gen_def definition with a docstring, the others keep its parameter names and redraw annotations, defaults and
    (mode "version") the last parameter: a stub and its implementation, overloads, an old and a new version.
    -> [(src, info)]; info["tags"] carries "shared-doc:<mode>"."""
    dmodes = [d for d in (dmodes or DOC_MODES) if d != "none"] or DOC_MODES
    for _ in range(50):
        src, info = gen_def(rng, safe=safe, dmodes=dmodes, allow_vararg=False, **kw)
        if _ok_source(src):
            break
    lines = src.split("\n")
    out = [(src, dict(info, tags=info["tags"] + ["shared-doc:base"]))]
    keep = [t for t in info["tags"] if t.startswith("doc")]
    dk = ["lit", "lit", "cont", "pcode"] if safe else None
    tries = 0
    while len(out) < k and tries < 20 * k:
        tries += 1
        mode = rng.choice(SHARED_MODES)
        try:
            head = _redraw_head(rng, lines[0], mode, dk)
        except (SyntaxError, ValueError):
            continue
        v = "\n".join([head] + lines[1:])
        if not _ok_source(v) or any(v == s for s, _ in out):
            continue
        fd = ast.parse(v).body[0]
        sig = [x.arg for i, x in enumerate(fd.args.args) if i or x.arg not in ("self", "cls")] + [x.arg for x in fd.args.kwonlyargs]
        out.append((v, dict(info, sig_names=sig, tags=keep + ["shared-doc:" + mode])))
    return out


# ------------------------------------------------------------------ classes whose body mixes annotated and plain attributes
# values that a class attribute may have in this stratum (the ones parse.class_ reports as Python evaluates them)
ATTR_SCALARS = ["5", "0", "-1", "+3", "2.5", "-0.5", "1e-07", "'mnist'", "\"it's\"", "'say \"hi\"'", "'a.b'", "''", "None",
                "True", "False", "'tab\\there'", "12345678901234567890", "3", "1.5", "'localhost'", "0.25"]
ATTR_EMPTY = ["()", "[]", "{}"]
ATTR_ANNS = ["int", "str", "float", "bool", "Optional[int]", "Optional[str]", "List[str]", "Literal['a', 'b']",
             "Union[int, str]", "Dict[str, int]", "object"]
ATTR_NAMES = [n for n in ARG_NAMES if not n.endswith("kwargs")] + ["host", "retries", "timeout", "verbose", "backoff", "port"]


# values of an annotated attribute that ast_utils.get_value leaves as a node (a non-empty display, a call, an attribute
# access, an operator expression)
ATTR_NONSCALAR = ["(1, 2)", "[1]", "{1: 2}", "foo()", "np.x", "[-1, 'x', None]", "(1,)", "{'a': [1, (2,)]}", "1 + 2",
                  "dict()", "os.path.join('a', 'b')"]
TUPLE_TARGETS = ["lo, hi = 1, 2", "(lo, hi) = (0, 10)", "[lo, hi] = 1, 2", "lo, hi = hi0 = (3, 4)", "first, *others = 1, 2, 3"]


def gen_attr_classes(rng, k=1, annotation_only=0.06, rebind=0.1, ann_nonscalar=0.0, tuple_target=0.0, **defkw):
    """k classes (k > 1: they share the class docstring text and the __init__ docstring text, everything else is drawn
    anew) whose body mixes annotated attributes (`a: int = 1`) and plain assignments (`b = 2`), mostly alternating, of
    which the class docstring documents none / a leading part / some / all (in or out of source order), with or without
    an __init__ (whose parameters may or may not be attributes as well) and other methods between the attributes.
    annotation_only: probability that an annotated attribute has no value; rebind: probability that one attribute is
    bound a second time further down, in the other style; ann_nonscalar (default 0: never, the stream of existing callers
    is unchanged): probability that the value of an annotated attribute is a display / call / attribute / operator
    expression (ATTR_NONSCALAR); tuple_target (default 0: never): probability that the body also holds an assignment whose
    target is a tuple / list display (TUPLE_TARGETS; its names are no attribute of the drawn list).  -> [(src, tags)]"""
    names = rng.sample(ATTR_NAMES, rng.randint(2, 6))
    tags = ["attrs:%d" % len(names)]
    dmode = rng.choice(["nodoc", "summary", "prefix", "prefix", "some", "some", "all", "shuffled", "extra"])
    if dmode == "prefix":
        dn = names[:rng.randint(1, len(names) - 1)]
    elif dmode == "some":
        dn = [n for n in names if rng.random() < 0.5]
        if rng.random() < 0.3:
            rng.shuffle(dn)
    elif dmode in ("all", "shuffled", "extra"):
        dn = list(names)
        if dmode == "shuffled":
            rng.shuffle(dn)
        if dmode == "extra":
            dn = [n for n in dn if rng.random() < 0.6]
            dn.insert(rng.randint(0, len(dn)), "zz")
    else:
        dn = []
    tags.append("class-doc:" + dmode)
    doc = []
    if dmode != "nodoc":
        doc = ['    """', "    " + rng.choice(["Config class.", "Settings of a connection"]), ""]
        for n in dn:
            doc.append("    :cvar %s: %s" % (n, rng.choice(PROSE[:6])))
            if rng.random() < 0.3:
                doc.append("")
        doc.append('    """')
    inits = None
    if rng.random() < 0.7:
        inits = gen_def_variants(rng, k, kind=rng.choice(["self", "self", "self", "self", "static", "cls"]), name="__init__",
                                 **defkw) if k > 1 else [gen_def(rng, kind=rng.choice(["self", "self", "self", "static", "cls"]),
                                                                 name="__init__", allow_vararg=False, **defkw)]
        if len(inits) < k:
            inits = None
    helper = gen_def(rng, kind="self", name="helper", safe=True, allow_vararg=False)[0] if rng.random() < 0.3 else None
    out = []
    for j in range(k):
        t = list(tags)
        pat = rng.choice(["alternate", "alternate", "alternate", "random", "random", "annotated", "plain"])
        first = rng.random() < 0.5
        stmts = []
        for i, n in enumerate(names):
            ann = {"alternate": (i % 2 == 0) == first, "random": rng.random() < 0.5, "annotated": True, "plain": False}[pat]
            if ann and annotation_only and rng.random() < annotation_only:
                stmts.append("%s: %s" % (n, rng.choice(ATTR_ANNS)))
                t.append("annotation-only")
            elif ann and ann_nonscalar and rng.random() < ann_nonscalar:
                stmts.append("%s: %s = %s" % (n, rng.choice(ATTR_ANNS), rng.choice(ATTR_NONSCALAR)))
                t.append("ann-nonscalar")
            elif ann:
                stmts.append("%s: %s = %s" % (n, rng.choice(ATTR_ANNS), rng.choice(ATTR_SCALARS + ATTR_EMPTY)))
            else:
                stmts.append("%s = %s" % (n, rng.choice(ATTR_SCALARS + ATTR_SCALARS + ATTR_EMPTY + D_CONTAINER)))
        t.append("attr-pattern:" + pat)
        valued = [i for i, x in enumerate(stmts) if "=" in x]
        if rebind and valued and rng.random() < rebind:
            i = rng.choice(valued)
            again = ("%s = %s" if ":" in stmts[i].split("=")[0] else "%s: " + rng.choice(ATTR_ANNS) + " = %s") % (
                names[i], rng.choice(ATTR_SCALARS))
            stmts.insert(rng.randint(i + 1, len(stmts)), again)
            t.append("attr-rebound")
        if tuple_target and rng.random() < tuple_target:
            stmts.insert(rng.randint(0, len(stmts)), rng.choice(TUPLE_TARGETS))
            t.append("tuple-target")
        blocks = [[s] for s in stmts]
        if inits is not None:
            isrc, iinfo = inits[j]
            blocks.insert(rng.choice([len(blocks), len(blocks), rng.randint(0, len(blocks))]), isrc.rstrip("\n").split("\n"))
            t += ["init"] + iinfo["tags"]
        if helper is not None:
            blocks.insert(rng.randint(0, len(blocks)), helper.rstrip("\n").split("\n"))
        lines = ["class C(object):"] + doc
        for b in blocks:
            lines += ["    " + l if l else "" for l in b]
        out.append(("\n".join(lines) + "\n", t))
    return out


def _ok_source(src):
    try:
        ast.parse(src)
        return True
    except SyntaxError:
        return False


def gen_expr_src(rng):
    r = rng.random()
    pool = D_LITERAL + D_CONTAINER + D_CODE + D_OPAQUE + D_WEIRD
    if r < 0.6:
        return rng.choice(pool)
    a, b = rng.choice(pool), rng.choice(pool)
    shape = rng.choice(["(%s, %s)", "[%s, %s]", "{%s: %s}", "f(%s, k=%s)", "(%s).attr", "(%s)[%s]", "-(%s)", "not (%s)",
                        "(%s,)", "(%s)(%s)", "x[%s, %s]", "{'k': %s, 'j': %s}", "~(%s)", "f(%s)"])
    try:
        s = shape % ((a, b) if shape.count("%s") == 2 else (a,))
        ast.parse(s, mode="eval")
        return s
    except SyntaxError:
        return a


SNT_NAMES = ["a", "x", "kwargs", "**kwargs", "model_kwargs", "*args", "return_type", "**kw"]
SNT_DOCS = [None, "", "the a", "Optional thing", "(Optional) setting", "  padded  \n   lines here  ", "x.", "Optional"]
SNT_TYPS = [None, "dict", "dict", "str", "int", "int, optional", "Optional[int]", "List[str]", "np.ndarray", "Optional[str]",
            "Literal['a']", "Union[str, int]", "float", "object"]


def gen_snt(rng):
    p = {}
    r = rng.random()
    if r < 0.85:
        p["doc"] = rng.choice(SNT_DOCS)
    if rng.random() < 0.8:
        p["typ"] = rng.choice(SNT_TYPS)
    r = rng.random()
    if r < 0.3:
        p["default"] = ["ast", rng.choice(D_LITERAL + D_CONTAINER + D_CODE + D_OPAQUE + D_WEIRD)]
    elif r < 0.6:
        p["default"] = rng.choice(fam_merge.DEFAULT_POOL + [["v", "'quoted'"], ["v", '"dq"'], ["v", "a.b"], ["v", 1e-07]])
    return [rng.choice(SNT_NAMES), p, rng.random() < 0.4, rng.random() < 0.7]


def gen(rng, n, tier="quick"):
    m = impl()
    cases = []

    def add(fn, args, tags):
        cases.append({"fam": NAME, "fn": fn, "args": args, "tags": tags})

    while len(cases) < n:
        r = rng.random()
        if r < 0.50:
            src, info = gen_def(rng, receiver_names=0.06, type_first=0.3, gn_defaults=0.3, near_receiver=0.07)
            if not _ok_source(src):
                continue
            fd = ast.parse(src).body[0]
            infer_type = rng.random() < 0.3
            ds = ast.get_docstring(fd)
            if ds is not None:
                try:
                    m.parse.docstring(ds.replace(":cvar", ":param"), infer_type=infer_type)
                except Exception:  # noqa  the docstring parser itself rejects this text: not this layer
                    continue
            ft = rng.choice([None, None, None, "static", "self"])
            fnm = rng.choice([None, None, info["name"], info["name"], "other"])
            ordk = rng.choice(["sorted", "reversed", "rotated"])
            add("parse_function", [src, infer_type, rng.random() < 0.8, ft, fnm, ordk], info["tags"] + ["order:" + ordk])
        elif r < 0.62:
            if rng.random() < 0.75:
                src, tags = gen_class(rng, receiver_names=0.06, class_types=0.4, type_first=0.3, gn_defaults=0.3)
            else:    # body mixing annotated and plain attributes
                src, tags = gen_attr_classes(rng, 1, receiver_names=0.06, type_first=0.3, gn_defaults=0.3)[0]
                tags = tags + ["mixed-attrs"]
            if not _ok_source(src):
                continue
            cd = ast.parse(src).body[0]
            infer_type = rng.random() < 0.3
            name = "__init__" if rng.random() < 0.85 else rng.choice(["helper", "__call__", "missing"])
            try:
                m.parse.class_(copy.deepcopy(cd), infer_type=infer_type)
                f = _walk_find(cd, name)
                if f is not None and ast.get_docstring(f) is not None:
                    m.parse.docstring(ast.get_docstring(f).replace(":cvar", ":param"), infer_type=infer_type)
            except Exception:  # noqa  parse.class_ / the docstring parser are other layers
                continue
            ordk = rng.choice(["sorted", "reversed", "rotated"])
            add("merge_inner_function", [src, infer_type, name, ordk], tags + ["class", "order:" + ordk])
        elif r < 0.72:
            src, info = gen_def(rng, safe=True, receiver_names=0.06, near_receiver=0.07)
            if not _ok_source(src):
                continue
            add("py_signature", [src, rng.random() < 0.5], info["tags"] + ["pysig"])
        elif r < 0.84:
            add("show_expr", [gen_expr_src(rng)], ["expr"])
        elif r < 0.92:
            add("literal_eval", [gen_expr_src(rng)], ["expr"])
        elif r < 0.94:
            s = "".join(rng.choice("ab'\"\\\n\t\r \x01\x7f`{}") for _ in range(rng.randint(0, 8)))
            add("repr_str", [s], ["repr"])
        else:
            add("set_name_and_type", gen_snt(rng), ["snt"])
    return cases


# ------------------------------------------------------------------ helpers shared by request / run_impl
def _walk_find(class_def, name):
    return next((f for f in ast.walk(class_def) if isinstance(f, ast.FunctionDef) and f.name == name), None)


def _doc_ir(fd, infer_type):
    ds = ast.get_docstring(fd)
    if ds is None:
        return None
    return impl().parse.docstring(ds.replace(":cvar", ":param"), infer_type=infer_type)


def _orders(ordk, fd, doc_ir):
    a = fd.args
    sig = [x.arg for x in a.args + a.kwonlyargs]
    doc = list((doc_ir or {}).get("params", {}).keys())
    return fam_merge.order_of(ordk, [n for n in sig if n in doc]), fam_merge.order_of(ordk, ["doc", "typ", "default"])


def _r(x):
    return "..." if x is Ellipsis else repr(x)


class Stub(object):
    """stands for any name the generated definitions mention; repr reconstructs the source"""

    def __init__(self, path, atom=True):
        self._p = path
        self._atom = atom

    def _a(self):
        return self._p if self._atom else "(" + self._p + ")"

    def __getattr__(self, n):
        if n.startswith("__") and n.endswith("__"):
            raise AttributeError(n)
        return Stub(self._a() + "." + n)

    def __call__(self, *a, **k):
        return Stub(self._a() + "(" + ", ".join([repr(x) for x in a] + ["%s=%r" % kv for kv in k.items()]) + ")")

    def __getitem__(self, i):
        return Stub(self._a() + "[" + (", ".join(_r(x) for x in i) if isinstance(i, tuple) and i else _r(i)) + "]")

    def __neg__(self):
        return Stub("-" + self._p, False)

    def __pos__(self):
        return Stub("+" + self._p, False)

    def __invert__(self):
        return Stub("~" + self._p, False)

    def __eq__(self, o):
        return isinstance(o, Stub) and o._p == self._p

    def __hash__(self):
        return hash(self._p)

    def __repr__(self):
        return self._p

    def __iter__(self):   # iterable as empty (otherwise __getitem__ makes iteration endless)
        return iter(())

    def keys(self):
        return []

    def __contains__(self, x):
        return False


class NS(dict):
    def __missing__(self, k):
        return Stub(k)


def exec_def(src):
    """execute one definition; every free name is a Stub"""
    ns = NS()
    import warnings
    with warnings.catch_warnings():
        warnings.simplefilter("ignore")
        code = compile(src, "<generated>", "exec")
    exec(code, {"__builtins__": {"__build_class__": __build_class__, "__name__": "g",
                                                                   "object": object}}, ns)
    return ns


def _canon_obj(o):
    return repr(o)


def sig_wire(f, drop_self):
    ps = list(inspect.signature(f).parameters.values())
    if drop_self and ps and ps[0].kind is inspect.Parameter.POSITIONAL_OR_KEYWORD and ps[0].name in ("self", "cls"):
        ps = ps[1:]
    out = []
    for p in ps:
        out.append([p.name, Sym(p.kind.name),
                    Sym("none") if p.default is inspect.Parameter.empty else [Sym("some"), [Sym("ok"), _canon_obj(p.default)]],
                    Sym("none") if p.annotation is inspect.Parameter.empty else [Sym("some"), _canon_obj(p.annotation)]])
    return [Sym("some"), out]


# ------------------------------------------------------------------ wire
def request(case):
    fn, a = case["fn"], case["args"]
    if fn == "parse_function":
        src, infer_type, ww, ft, fnm, ordk = a
        fd = ast.parse(src).body[0]
        d = _doc_ir(fd, infer_type)
        pi, pj = _orders(ordk, fd, d)
        return dumps([Sym(fn), pi, pj, opt(d, irwire.enc_ir), astwire.enc_stmt(fd), infer_type, ww, opt(ft), opt(fnm)])
    if fn == "merge_inner_function":
        src, infer_type, name, ordk = a
        cd = ast.parse(src).body[0]
        target = impl().parse.class_(copy.deepcopy(cd), infer_type=infer_type)
        f = _walk_find(cd, name)
        d = _doc_ir(f, infer_type) if f is not None else None
        pi1, pj1 = _orders(ordk, f, d) if f is not None else ([], [])
        tn = list(target["params"].keys())
        pi2 = fam_merge.order_of(ordk, tn)
        return dumps([Sym(fn), pi1, pj1, pi2, pj1 or fam_merge.order_of(ordk, ["doc", "typ", "default"]),
                      astwire.enc_stmt(cd), infer_type, irwire.enc_ir(target), name, opt(d, irwire.enc_ir)])
    if fn == "py_signature":
        src, drop = a
        return dumps([Sym("py_signature" if drop else "py_signature_raw"), astwire.enc_stmt(ast.parse(src).body[0])])
    if fn in ("show_expr", "literal_eval"):
        return dumps([Sym(fn), astwire.enc_expr(ast.parse(a[0], mode="eval").body)])
    if fn == "repr_str":
        return dumps([Sym(fn), a[0]])
    if fn == "set_name_and_type":
        name, p, it, ww = a
        return dumps([Sym(fn), name, irwire.enc_gparam(fam_merge.build_param(p)), it, ww])
    raise KeyError(fn)


def run_impl(case):
    m = impl()
    fn, a = case["fn"], copy.deepcopy(case["args"])
    if fn == "parse_function":
        src, infer_type, ww, ft, fnm, _ = a
        fd = ast.parse(src).body[0]
        before = ast.dump(fd)
        res = dumps(outcome(lambda: m.parse.function(fd, infer_type=infer_type, word_wrap=ww, function_type=ft,
                                                     function_name=fnm), irwire.enc_ir))
        if ast.dump(fd) != before:
            return "(frame-violation function_def-changed)"
        return res
    if fn == "merge_inner_function":
        src, infer_type, name, _ = a
        cd = ast.parse(src).body[0]
        target = m.parse.class_(copy.deepcopy(cd), infer_type=infer_type)
        before = ast.dump(cd)
        res = dumps(outcome(lambda: m.parse._merge_inner_function(cd, infer_type=infer_type, intermediate_repr=target,
                                                                  merge_inner_function=name), irwire.enc_ir))
        if ast.dump(cd) != before:
            return "(frame-violation class_def-changed)"
        return res
    if fn == "py_signature":
        src, drop = a
        ns = exec_def(src)
        f = next(v for v in ns.values() if inspect.isfunction(v))
        return dumps(sig_wire(f, drop))
    if fn == "show_expr":
        return dumps([Sym("ok"), ast.unparse(ast.parse(a[0], mode="eval").body)])
    if fn == "literal_eval":
        def ev():
            v = ast.literal_eval(ast.parse(a[0], mode="eval").body)
            return v
        return dumps(outcome(ev, lambda v: [repr(v), type(v).__name__]))
    if fn == "repr_str":
        return dumps(repr(a[0]))
    if fn == "set_name_and_type":
        name, p, it, ww = a
        q = fam_merge.build_param(p)
        return dumps(outcome(lambda: m.docstring_parsers._set_name_and_type((name, q), infer_type=it, word_wrap=ww),
                             lambda r: [r[0], irwire.enc_gparam(r[1])]))
    raise KeyError(fn)


def nontrivial(case):
    fn = case["fn"]
    if fn == "parse_function":
        return any(t.startswith("doc:") and t not in ("doc:none", "doc:summary") for t in case["tags"]) or \
            sum(1 for t in case["tags"] if t.startswith("default:")) >= 1
    if fn == "merge_inner_function":
        return "init" in case["tags"]
    return True
