"""Correspondence family `defaults`: defaults_utils + pure_utils string helpers vs Defaults.v/PureUtils.v/PyStr.v."""
import copy

from common import Sym, dumps, opt, enc_pyval, outcome, impl, is_ascii_text
import gen_text as G

NAME = "defaults"


def _param_wire(p):
    def fld(d, k):
        if k not in d:
            return Sym("missing")
        if d[k] is None:
            return Sym("none")
        return [Sym("has"), d[k]]
    return [fld(p, "doc"), fld(p, "typ"),
            [Sym("some"), enc_pyval(p["default"])] if "default" in p else Sym("none")]


def _param_result(p):
    return _param_wire(p)


# ------------------------------------------------------------------ generation
def _value(rng):
    """gen_text.value, plus a stratum of degenerate str values (blanks/tabs only, quote marks only, punctuation only,
    padded one-character tokens)"""
    v = G.value(rng)
    if rng.random() < 0.12:
        v = G.degenerate_str_value(rng)
    return v


def _sentence(rng):
    """(line, typ) with an announced default somewhere"""
    v = _value(rng)
    typ = G.consistent_typ(rng, v)
    if rng.random() < 0.15:
        typ = rng.choice(G.SCALAR_TYPES + [None])
    d = G.prose(rng)
    ann = rng.choice(G.ANNOUNCE)
    sv = str(v)
    if isinstance(v, str) and rng.random() < 0.5:
        sv = '"%s"' % v if rng.random() < 0.7 else "'%s'" % v
    tail = rng.choice(["", ".", ". ", ". Then more.", "\n", ".\n    more", " ", ")."])
    return d + " " + ann + sv + tail, typ


def gen(rng, n, tier="quick"):
    cases = []

    def add(fn, args, *tags):
        cases.append({"fam": NAME, "fn": fn, "args": args, "tags": list(tags)})

    for i in range(n):
        r = rng.random()
        if r < 0.40:
            line, typ = _sentence(rng)
            add("extract_default", [line, rng.random() < 0.8, None, typ, rng.random() < 0.5], "announced")
        elif r < 0.50:
            line = G.prose(rng, spice=0.5)
            add("extract_default", [line, rng.random() < 0.8, None, rng.choice([None, "int", "str"]),
                                    rng.random() < 0.5], "prose-only")
        elif r < 0.55:
            line = G.junk_line(rng, 40)
            add("extract_default", [line, rng.random() < 0.8, None, rng.choice([None, "int", "str", "float", "bool"]),
                                    rng.random() < 0.5], "junk")
        elif r < 0.58:
            line, typ = _sentence(rng)
            ann = rng.choice([["Default is "], ["defaults to "], ["Default:", "defaults to "], []])
            add("extract_default", [line, True, ann, typ, rng.random() < 0.5], "custom-announce")
        elif r < 0.80:
            v = _value(rng)
            typ = G.consistent_typ(rng, v)
            p = {}
            if rng.random() < 0.95:
                p["doc"] = G.prose(rng) if rng.random() < 0.9 else rng.choice(["", "x", "Defaults", "a defaults b."])
            if rng.random() < 0.85:
                p["typ"] = typ
            if rng.random() < 0.8:
                p["default"] = v
            elif rng.random() < 0.3:
                p["default"] = "```(None)```"
            name = G.ident(rng, allow_kwargs=True) if rng.random() < 0.9 else "model_kwargs"
            add("set_default_doc", [name, p, rng.random() < 0.7], "set")
        elif r < 0.84:
            line, typ = _sentence(rng)
            p = {"doc": line if rng.random() < 0.8 else G.prose(rng)}
            if rng.random() < 0.5:
                p["typ"] = typ
            if rng.random() < 0.3:
                p["default"] = _value(rng)
            add("remove_default_from_param", [p, rng.random() < 0.5], "remove")
        elif r < 0.90:
            t = G.type_expr(rng) if rng.random() < 0.8 else rng.choice(
                [None, "*args", "**kwargs", "str", "Optional[str]", "List[str", "a.str", "typing.List[str]",
                 "Literal['x']", "Dict[str, int]", "Callable[[int], str]", "Tuple[int, ...]", "int or str", ""])
            add("needs_quoting", [t], "typ")
        elif r < 0.94:
            v = _value(rng) if rng.random() < 0.7 else G.degenerate_str_value(rng)
            add("quote", [v], "quote")
            if isinstance(v, str):
                add("unquote", [rng.choice([v, '"%s"' % v, "'%s'" % v, "'", '"', '""'])], "unquote")
                add("code_quoted", [v], "code_quoted")
        else:
            c = G.prose(rng, spice=0.5)
            elems = [rng.choice(G.ANNOUNCE + ["", "x", c[:3], c[-4:], c]) for _ in range(rng.randint(0, 3))]
            add("location_within", [c, elems, rng.random() < 0.6], "locate")
    return cases


# ------------------------------------------------------------------ wire
def request(case):
    fn, a = case["fn"], case["args"]
    if fn == "extract_default":
        line, rs, ann, typ, emit = a
        return dumps([Sym(fn), line, rs, opt(ann), opt(typ), emit])
    if fn == "set_default_doc":
        name, p, emit = a
        return dumps([Sym(fn), name, _param_wire(p), emit])
    if fn == "remove_default_from_param":
        p, prop = a
        return dumps([Sym(fn), _param_wire(p), prop])
    if fn == "needs_quoting":
        return dumps([Sym(fn), opt(a[0])])
    if fn == "quote":
        return dumps([Sym(fn), enc_pyval(a[0])])
    if fn in ("unquote", "code_quoted"):
        return dumps([Sym(fn), a[0]])
    if fn == "location_within":
        return dumps([Sym(fn), a[0], a[1], a[2]])
    raise KeyError(fn)


def run_impl(case):
    m = impl()
    fn, a = case["fn"], copy.deepcopy(case["args"])
    du, pu = m.defaults_utils, m.pure_utils
    if fn == "extract_default":
        line, rs, ann, typ, emit = a
        return dumps(outcome(
            lambda: du.extract_default(line, rstrip_default=rs, default_search_announce=ann, typ=typ,
                                       emit_default_doc=emit),
            lambda r: [r[0], opt(r[1], enc_pyval)]))
    if fn == "set_default_doc":
        name, p, emit = a
        return dumps(outcome(lambda: du.set_default_doc((name, p), emit_default_doc=emit)[1], _param_result))
    if fn == "remove_default_from_param":
        p, prop = a
        return dumps(outcome(lambda: du._remove_default_from_param(("x", p), emit_default_prop=prop)[1], _param_result))
    if fn == "needs_quoting":
        return dumps(outcome(lambda: du.needs_quoting(a[0]), lambda b: bool(b)))
    if fn == "quote":
        return dumps(outcome(lambda: pu.quote(a[0]), enc_pyval))
    if fn == "unquote":
        return dumps(pu.unquote(a[0]))
    if fn == "code_quoted":
        return dumps(bool(pu.code_quoted(a[0])))
    if fn == "location_within":
        c, elems, fold = a
        from operator import eq
        cmp = (lambda x, y: x.casefold() == y.casefold()) if fold else eq
        s, e, f = pu.location_within(c, elems, cmp=cmp)
        return dumps(Sym("none") if s == -1 else [Sym("some"), [s, e, f]])
    raise KeyError(fn)


def nontrivial(case):
    """a case is non-trivial when it exercises an announced default, a param with >= 2 keys, or a compound type"""
    fn, a = case["fn"], case["args"]
    if fn == "extract_default":
        return "announced" in case["tags"] or "custom-announce" in case["tags"]
    if fn in ("set_default_doc", "remove_default_from_param"):
        p = a[1] if fn == "set_default_doc" else a[0]
        return len(p) >= 2
    if fn == "needs_quoting":
        return a[0] is not None and "[" in a[0]
    return True
