"""Correspondence family `docemit`: docstring_utils.emit_param_str, emit.docstring, emitter_utils.to_docstring
vs coq/model/DocEmit.v.  Compared: the text byte for byte AND the post-call param / IR (all three functions
now work on copies of the param dicts, so the post-call value must be the input; the model says so and the
comparison would show any write into the caller's object).  The wrapping width is read by doctrans at import, so cases with an explicit `width` run in a child
process started with DOCTRANS_LINE_LENGTH=<width>; cases with width None run in-process at the module default."""
import copy
import json
import os
import subprocess
import sys
from collections import OrderedDict

HERE = os.path.dirname(os.path.abspath(__file__))
if HERE not in sys.path:
    sys.path.insert(0, HERE)

from common import Sym, dumps, enc_pyval, outcome, impl, VENV_PY, REPO  # noqa: E402
import gen_text as G  # noqa: E402
import gen_ir  # noqa: E402
import irwire  # noqa: E402

NAME = "docemit"
STYLES = ["rest", "numpydoc", "google"]
CHILD_WIDTHS = [20, 40, 60, 79, 80, 120]


# ------------------------------------------------------------------ wire
def _param_wire(p):
    def fld(d, k):
        if k not in d:
            return Sym("missing")
        if d[k] is None:
            return Sym("none")
        return [Sym("has"), d[k]]
    return [fld(p, "doc"), fld(p, "typ"),
            [Sym("some"), enc_pyval(p["default"])] if "default" in p else Sym("none")]


def inproc_width():
    return int(impl().pure_utils.line_length)


def case_width(case):
    w = case.get("width")
    return inproc_width() if w is None else int(w)


def _scalar(v):
    return v is None or isinstance(v, (bool, int, float, str))


def request(case):
    if case["fn"] == "fill_at":
        return dumps([Sym("fill_at"), case["args"]["w"], case["args"]["s"]])
    fn, a, w = case["fn"], case["args"], case_width(case)
    if fn == "emit_param_str":
        p = a["p"]
        if "default" in p and not _scalar(p["default"]):
            # the model's param record carries scalar defaults only: ask through a one-parameter IR instead
            raise KeyError("non-scalar default in emit_param_str case")
        return dumps([Sym(fn), w, a["name"], _param_wire(p), Sym(a["style"]), a["emit_doc"], a["emit_type"],
                      a["word_wrap"], a["emit_default_doc"]])
    if fn == "emit_docstring":
        return dumps([Sym(fn), w, Sym(a["style"]), a["word_wrap"], a["emit_default_doc"], irwire.enc_ir(_od(a["ir"]))])
    if fn == "to_docstring":
        return dumps([Sym(fn), w, irwire.enc_ir(_od(a["ir"])), a["emit_default_doc"], Sym(a["style"]), a["indent_level"],
                      a["emit_types"], a["emit_separating_tab"], a["word_wrap"]])
    raise KeyError(fn)


def _od(ir):
    """cases are JSON-able dicts; the implementation wants OrderedDicts for params / returns"""
    ir = copy.deepcopy(ir)
    if isinstance(ir.get("params"), dict):
        ir["params"] = OrderedDict(ir["params"].items())
    if isinstance(ir.get("returns"), dict):
        ir["returns"] = OrderedDict(ir["returns"].items())
    return ir


def run_direct(case):
    """call the real code in THIS process (its width is whatever this process imported)"""
    m = impl()
    fn, a = case["fn"], copy.deepcopy(case["args"])
    if fn == "fill_at":
        # doctrans.pure_utils.fill is functools.partial(textwrap.fill, width=line_length, <options>): call the same
        # function with the same options as the module has them NOW, at this case's width
        pf = m.pure_utils.fill
        kw = dict(pf.keywords, width=a["w"])
        return dumps(outcome(lambda: pf.func(a["s"], *pf.args, **kw), lambda s: s))
    if fn == "emit_param_str":
        p = a["p"]

        def call():
            s = m.docstring_utils.emit_param_str((a["name"], p), style=a["style"], emit_doc=a["emit_doc"],
                                                 emit_type=a["emit_type"], word_wrap=a["word_wrap"],
                                                 emit_default_doc=a["emit_default_doc"])
            return s
        return dumps(outcome(call, lambda s: [s, _param_wire(p)]))
    if fn == "emit_docstring":
        ir = _od(a["ir"])
        return dumps(outcome(lambda: m.emit.docstring(ir, docstring_format=a["style"], word_wrap=a["word_wrap"],
                                                      emit_default_doc=a["emit_default_doc"]),
                             lambda s: [s, irwire.enc_ir(ir)]))
    if fn == "to_docstring":
        ir = _od(a["ir"])
        return dumps(outcome(lambda: m.emitter_utils.to_docstring(ir, emit_default_doc=a["emit_default_doc"],
                                                                  docstring_format=a["style"],
                                                                  indent_level=a["indent_level"],
                                                                  emit_types=a["emit_types"],
                                                                  emit_separating_tab=a["emit_separating_tab"],
                                                                  word_wrap=a["word_wrap"]),
                             lambda s: [s, irwire.enc_ir(ir)]))
    raise KeyError(fn)


# ------------------------------------------------------------------ child processes (one per width)
_WORKERS = {}


def worker(width):
    """a persistent child python with DOCTRANS_LINE_LENGTH=width; one JSON case per line in, one wire line out"""
    p = _WORKERS.get(width)
    if p is not None and p.poll() is None:
        return p
    env = dict(os.environ)
    env.update({"PYTHONPATH": REPO, "PYTHONHASHSEED": "0", "PYTHONDONTWRITEBYTECODE": "1"})
    if width is None:
        env.pop("DOCTRANS_LINE_LENGTH", None)
    else:
        env["DOCTRANS_LINE_LENGTH"] = str(width)
    p = subprocess.Popen([VENV_PY, os.path.abspath(__file__), "--worker"], stdin=subprocess.PIPE,
                         stdout=subprocess.PIPE, env=env, text=True, bufsize=1)
    hello = json.loads(p.stdout.readline())
    assert hello["line_length"] == (100 if width is None else width), (hello, width)
    _WORKERS[width] = p
    return p


def run_in_child(width, case):
    p = worker(width)
    p.stdin.write(json.dumps(case) + "\n")
    p.stdin.flush()
    line = p.stdout.readline()
    if not line:
        raise RuntimeError("docemit worker for width %r died" % (width,))
    return line.rstrip("\n")


def close_workers():
    for p in _WORKERS.values():
        try:
            p.stdin.close()
            p.wait(timeout=5)
        except Exception:  # noqa
            p.kill()
    _WORKERS.clear()


import atexit  # noqa: E402
atexit.register(close_workers)


def run_impl(case):
    w = case.get("width")
    if w is None:
        return run_direct(case)
    return run_in_child(int(w), case)


def _worker_main():
    m = impl()
    sys.stdout.write(json.dumps({"line_length": m.pure_utils.line_length}) + "\n")
    sys.stdout.flush()
    for line in sys.stdin:
        case = json.loads(line)
        try:
            out = run_direct(case)
        except Exception as e:  # noqa
            out = "(harness-exception %s)" % type(e).__name__
        sys.stdout.write(out + "\n")
        sys.stdout.flush()


# ------------------------------------------------------------------ generation
LONG_TYPES = ["Optional[Literal['np', 'tf', 'adam', 'sgd', 'mnist', 'rmsprop', 'adagrad', 'adadelta', 'adamax', 'nadam']]",
              "Union[str, int, float, bool, List[str], List[int], Tuple[str, int], Optional[Literal['a', 'b']]]",
              "Callable[[int, str, float, bool, Optional[str], Optional[int]], Tuple[np.ndarray, np.ndarray]]"]


def long_prose(rng, lo, hi, terminal="."):
    return G.clean_prose(rng, min_words=lo, max_words=hi, terminal=terminal)


def stretch_ir(rng, ir, width):
    """make some summaries / prose / types shorter than, about equal to and much longer than the width"""
    w = width or 100
    for p in list(ir["params"].values()) + ([ir["returns"]["return_type"]] if ir.get("returns") else []):
        r = rng.random()
        if r < 0.5 and p.get("doc"):
            p["doc"] = long_prose(rng, max(3, w // 8), max(6, w // 2))
        elif r < 0.6 and p.get("doc"):
            p["doc"] = long_prose(rng, 3, 6) + "\n" + long_prose(rng, max(3, w // 8), max(6, w // 3))
        if rng.random() < 0.25 and p.get("typ"):
            p["typ"] = rng.choice(LONG_TYPES)
    if rng.random() < 0.5:
        ir["doc"] = "\n".join(long_prose(rng, max(2, w // 10), max(4, w // 3), terminal=rng.choice([".", ""]))
                              for _ in range(rng.choice([1, 1, 2, 3])))
    return ir


def spoil_ir(rng, ir):
    """the malformed stream: shapes just outside the supported domain"""
    tags = []
    ps = list(ir["params"].values())
    k = rng.choice(["doc-none", "doc-empty", "typ-empty", "typ-none", "ws-doc", "multiline-doc", "announce-doc",
                    "tab-doc", "hyphen-doc", "ir-doc-none", "ir-doc-missing", "ir-doc-empty", "ir-doc-trailing-nl",
                    "returns-empty", "returns-missing", "nonscalar-default", "long-word", "indented-doc",
                    "default-nonestr", "ir-doc-ws"])
    tags.append("spoil:" + k)
    p = rng.choice(ps) if ps else None
    if k == "doc-none" and p is not None:
        p["doc"] = None
    elif k == "doc-empty" and p is not None:
        p["doc"] = ""
    elif k == "typ-empty" and p is not None:
        p["typ"] = ""
    elif k == "typ-none" and p is not None:
        p["typ"] = None
    elif k == "ws-doc" and p is not None:
        p["doc"] = rng.choice([" ", "  ", "\n", " \n ", ". "])
    elif k == "multiline-doc" and p is not None:
        p["doc"] = "\n".join(G.prose(rng) for _ in range(rng.randint(2, 3)))
    elif k == "indented-doc" and p is not None:
        p["doc"] = G.clean_prose(rng) + "\n    " + G.clean_prose(rng) + rng.choice(["", "\n", "\n  x."])
    elif k == "announce-doc" and p is not None:
        p["doc"] = G.clean_prose(rng) + " " + rng.choice(G.ANNOUNCE) + str(G.value(rng, ("int", "float", "bool", "str"))) \
            + rng.choice(["", ".", ". More.", ".\n"])
    elif k == "tab-doc" and p is not None:
        p["doc"] = G.clean_prose(rng).replace(" ", "\t", 1)
    elif k == "hyphen-doc" and p is not None:
        p["doc"] = rng.choice(["a well-known value.", "use --flag here.", "range 1-5 of x.", "pre-trained model name.",
                               "non-negative.", "x - y.", "e-mail of the user."])
    elif k == "long-word" and p is not None:
        p["doc"] = "see https://example.com/" + "a/very/long/path/segment" * rng.randint(1, 6) + " for details."
    elif k == "default-nonestr" and p is not None:
        p["default"] = rng.choice(["```(None)```", "```None```", "None", None])
    elif k == "nonscalar-default" and p is not None:
        p["default"] = rng.choice([[], [1, 2], {}])
    elif k == "ir-doc-none":
        ir["doc"] = None
    elif k == "ir-doc-missing":
        ir.pop("doc", None)
    elif k == "ir-doc-empty":
        ir["doc"] = ""
    elif k == "ir-doc-ws":
        ir["doc"] = rng.choice([" ", "\n", "  x  ", "x \t"])
    elif k == "ir-doc-trailing-nl":
        ir["doc"] = (ir.get("doc") or "x") + rng.choice(["\n", "\n  ", "\n\t", " \n"])
    elif k == "returns-empty":
        ir["returns"] = rng.choice([OrderedDict(), OrderedDict((("return_type", {}),))])
    elif k == "returns-missing":
        ir.pop("returns", None)
    return ir, tags


FILL_WORDS = ["a", "I", "of", "the", "data", "model", "x,", "(see", "docs)", "e.g.,", "0.5", "-1", "-", "--", "x-", "-y",
              "3-4", "1e-07", "well-known", "pre-trained", "a--b", "end.", "`code`", "[a,", "b]", ":param", "x:", "```int```",
              "https://example.com/a/b", "dataset_name", "it's", "\"hi\"", "UPPER", "non-negative", "e-mail", "a-", "-b-"]


def gen_fill(rng):
    """text for pure_utils.fill (= textwrap.fill with break_long_words=False, break_on_hyphens=False) itself:
    words of assorted shapes (hyphenated, longer than the width), blanks of assorted kinds, every width;
    a tab (the only thing Fill.v declines) in about 4% of the cases"""
    tabs = rng.random() < 0.04
    n = rng.randint(0, 14)
    parts = []
    for i in range(n):
        parts.append(rng.choice(FILL_WORDS) if rng.random() < 0.7 else G.word(rng))
        r = rng.random()
        blanks = ["  ", "\n", "\n    ", "   ", " \n", "\n\n", " " * rng.randint(4, 30)] + (["\t"] if tabs else [])
        parts.append(" " if r < 0.75 else rng.choice(blanks))
    s = "".join(parts)
    r = rng.random()
    if r < 0.15:
        s = rng.choice([" ", "  ", "\n", "    "]) + s
    elif r < 0.5:
        s = s.rstrip()
    w = rng.choice([1, 2, 3, 5, 8, 10, 12, 15, 20, 25, 30, 40, 60, 79, 80, 100, 120]) if rng.random() < 0.8 else rng.randint(1, 130)
    longest = max([len(x) for x in s.split()] + [0])
    tags = ["fill-width:%s" % ("<10" if w < 10 else "<40" if w < 40 else ">=40"),
            "fill:" + ("overflowing-word" if longest > w else "words-fit")]
    return {"fam": NAME, "fn": "fill_at", "width": None, "tags": tags, "args": {"s": s, "w": w}}


def _flags(rng):
    return rng.random() < 0.6, rng.random() < 0.6


def gen_one(rng, width, tier="quick"):
    """one case at the given width (None = in-process default)"""
    r = rng.random()
    tags = ["width:%s" % ("default" if width is None else width)]
    clean = rng.random() < 0.4
    ir, t2 = gen_ir.gen_ir(rng, clean=clean)
    tags += ["clean" if clean else "general"] + [t for t in t2 if t.startswith(("params:", "returns:"))]
    if rng.random() < 0.45:
        ir = stretch_ir(rng, ir, width)
        tags.append("stretched")
    if rng.random() < 0.18:
        ir, t3 = spoil_ir(rng, ir)
        tags += t3
    ww, edd = _flags(rng)
    tags.append("wrap:%s" % ("on" if ww else "off"))
    tags.append("edd:%s" % ("on" if edd else "off"))
    if r < 0.30:
        # emit_param_str on one entry of the IR
        items = list(ir["params"].items()) + ([("return_type", ir["returns"]["return_type"])]
                                              if ir.get("returns") and "return_type" in ir["returns"] else [])
        if not items:
            items = [(G.ident(rng), {"doc": G.clean_prose(rng), "typ": "str"})]
        name, p = rng.choice(items)
        if "default" in p and not _scalar(p["default"]):
            del p["default"]
        style = rng.choice(STYLES)
        tags.append("style:" + style)
        return {"fam": NAME, "fn": "emit_param_str", "width": width, "tags": tags,
                "args": {"name": name, "p": p, "style": style, "emit_doc": rng.random() < 0.8,
                         "emit_type": rng.random() < 0.8, "word_wrap": ww, "emit_default_doc": edd}}
    if r < 0.65:
        style = rng.choice(STYLES)
        tags.append("style:" + style)
        return {"fam": NAME, "fn": "emit_docstring", "width": width, "tags": tags,
                "args": {"ir": ir, "style": style, "word_wrap": ww, "emit_default_doc": edd}}
    style = "rest" if rng.random() < 0.95 else rng.choice(["numpydoc", "google"])
    il = rng.choice([0, 1, 2])
    tags += ["style:" + style, "indent:%d" % il]
    return {"fam": NAME, "fn": "to_docstring", "width": width, "tags": tags,
            "args": {"ir": ir, "emit_default_doc": edd, "style": style, "indent_level": il,
                     "emit_types": rng.random() < 0.5, "emit_separating_tab": rng.random() < 0.5, "word_wrap": ww}}


def gen(rng, n, tier="quick"):
    """about 55% in-process (default width), the rest spread over the child widths"""
    cases = []
    for i in range(n):
        if rng.random() < 0.12:
            cases.append(gen_fill(rng))
            continue
        width = None if rng.random() < 0.55 else rng.choice(CHILD_WIDTHS)
        c = gen_one(rng, width, tier)
        # JSON-able: OrderedDicts become dicts (insertion order is kept by json)
        cases.append(json.loads(json.dumps(c)))
    return cases


def nontrivial(case):
    a = case["args"]
    if case["fn"] == "fill_at":
        return len(a["s"]) > a["w"]
    if case["fn"] == "emit_param_str":
        return len(a["p"]) >= 2
    ir = a["ir"]
    return bool(ir.get("params")) or bool(ir.get("returns"))


if __name__ == "__main__":
    if "--worker" in sys.argv:
        _worker_main()
    else:
        import random
        import corr
        from common import DEFAULT_SEED
        n = int(sys.argv[1]) if len(sys.argv) > 1 else 3000
        rng = random.Random(int(os.environ.get("VERIF_SEED") or DEFAULT_SEED))
        cases = gen(rng, n)
        res = corr.run_family(sys.modules[__name__], cases)
        close_workers()
        print("cases", res["total"], "agree", res["agree"], "unmodelled", res["unmodelled"], "mismatches",
              len(res["mismatches"]), "nontrivial", res["nontrivial_distinct"], "model_error", res["model_error"])
        um = {k: v for k, v in res["histogram"].items() if k.startswith("unmodelled")}
        print(um)
        for mm in res["mismatches"][:int(os.environ.get("SHOW", "5"))]:
            print(json.dumps(mm["case"]))
            print(" model:", mm["model"][:600])
            print(" impl :", mm["impl"][:600])
