#!/usr/bin/env python3
"""Regenerate /verif/MANIFEST.json from the integrated property modules (harness/prop_Cxx.py whose
coq/props/Cxx.v is tracked) and harness/manifest_texts.json."""
import importlib
import json
import os
import subprocess
import sys

HERE = os.path.dirname(os.path.abspath(__file__))
VERIF = os.path.dirname(HERE)
sys.path.insert(0, HERE)

texts = json.load(open(os.path.join(HERE, "manifest_texts.json")))
props = [json.loads(l) for l in open(os.path.join(VERIF, "properties.jsonl"))]
tracked = {"coq/" + l.strip() for l in open(os.path.join(VERIF, "coq", "INTEGRATED.txt")) if l.strip() and not l.startswith("#")} | {"harness/" + f for f in os.listdir(HERE)}

checks, na = [], []
for p in props:
    pid = p["id"]
    ok = ("harness/prop_%s.py" % pid) in tracked and ("coq/props/%s.v" % pid) in tracked and pid in texts
    if not ok:
        na.append({"property_id": pid, "reason": texts.get(pid, {}).get(
            "na_reason", "not claimed yet: the Coq model/theorems/correspondence for this property are not integrated in this commit (see DESIGN.md section 6); the technique applies")})
        continue
    t = texts[pid]
    mod = importlib.import_module("prop_" + pid)
    checks.append({
        "property_id": pid,
        "quick_cmd": "python3 harness/check.py --property %s --tier quick" % pid,
        "thorough_cmd": "python3 harness/check.py --property %s --tier thorough" % pid,
        "evidence_file": "evidence/%s.json" % pid,
        "replay_cmd_template": "python3 harness/replay.py {path}",
        "engine": "coq-model+correspondence",
        "level_claimed": {"category": "proof", "text": t["level_text"], "design_ref": t.get("design_ref", "DESIGN.md section 6")},
        "level_note": t["level_note"],
        "technique": getattr(mod, "TECHNIQUE", t.get("technique", "Coq proof + differential correspondence")),
    })

manifest = {
    "version": 1,
    "setup_cmd": "python3 harness/setup.py",
    "hooks": {
        "guard": "DOCTRANS_VERIF",
        "enable": "no source hooks are needed: the harness wraps builtins.open / emit.file / public entry points from outside; the guard name is reserved",
        "baseline_off_cmd": "python3 harness/baseline_check.py /repo",
        "source_commits": [],
        "add_only": True,
    },
    "engines": [{
        "name": "coq-model+correspondence", "path": "harness/check.py",
        "serves_properties": [c["property_id"] for c in checks],
        "kind_free_text": "Coq 8.16 hand-written executable model of doctrans (coq/model), theorems (coq/proofs, coq/props) re-checked on every run; "
                          "model tied to /repo by regenerated constants (Extracted.v) and by differential correspondence of the extracted model "
                          "against the implementation; property oracle on the implementation classifies failures with the extracted Coq guard",
    }],
    "checks": checks,
    "notes": "Known findings (genuine defects recorded, not repaired) are in KNOWN_FINDINGS.txt with witnesses under findings/; "
             "repairs are `fix:` commits in /repo listed there as fixed:. See DESIGN.md.",
    "not_applicable": na,
}
json.dump(manifest, open(os.path.join(VERIF, "MANIFEST.json"), "w"), indent=1)
print("checks:", [c["property_id"] for c in checks], "not claimed:", [n["property_id"] for n in na])
