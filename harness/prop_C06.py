"""C06 - emitted code is valid Python that behaves as the IR says.  Judged by CPython itself.

For every generated IR x emitter x option combination:
  validity   ast.unparse + compile + exec of the emitted artefact in a scratch namespace (typing names, np/tf/torch stubbed);
  tree       ast.parse(ast.unparse(node)) has the same ast.dump as the node;
  file       emit.file(node, tmp, skip_black in {True, False}) writes text that parses back to the same tree;
  behaviour  function: inspect.signature (names, order, kinds, defaults, annotations, **kwargs, return annotation) against
             the IR's own projection; class: __annotations__ order/values and attribute values; argparse: run against a real
             argparse.ArgumentParser: description and the action table (option strings, order, help, choices, default);
  run        argparse, for the parameters whose explicit default is data of the declared type: the registered type takes the
             default written as text and gives it back, the registered default read through the registered type (as argparse
             does when the option is left out) is the default, parse_args with the required options / with every option given
             as the text of its own default neither exits nor raises and fills in the defaults (`loads` is json.loads);
  spec-table inside the Coq guards guard_C06_argparse / guard_C06_class / guard_C06_function_types the really emitted tree is
             compared with the value-level spec computed from the IR alone by coq/model/C06Values.v (family run_c06values):
             option string, type, choices, action, help, required, default of every add_argument call; name, annotation and
             value of every class attribute; well-formedness of the function.
Failures are classified by finding_class_C06_r (coq/model/C06Spec2.v, which keeps every class of finding_class_C06 in
coq/model/C06Spec.v) through the driver.  The old classifier does not know the clause names of `run` and `spec-table`; the
refined one names two shapes of the IR, each for the clauses it explains only: a parameter whose declared type mentions List
with an explicit list-display / scalar default (argparse-list-default-unusable: the option is registered with
action='append' next to a default that is not a list) and a class attribute declared with the bare type `dict` and a default
(class-bare-dict-default-lost).  It is told which parameters a failing check speaks of and how the check failed (a failed
parse_args: the options on the command line, raised / exited; a wrong value: the option).  Every other failure of the run and
spec-table clauses is unclassified (a violation)."""
import argparse
import ast
import collections
import contextlib
import copy
import inspect
import io
import json
import math
import os
import tempfile
import textwrap
import typing
from collections import OrderedDict

from common import Sym, dumps, loads, opt, impl, run_model, unhx, exc_kind
import astwire
import irwire
import gen_ir
import gen_text as G
import fam_emitast

ID = "C06"
COQ_PROP = "C06"
FAMILIES = [(fam_emitast, 4000, 40000)]
TECHNIQUE = ("Coq proof of the emitter's side (argument-list well-formedness, names/order/kinds, every parameter carries a "
             "default node, attribute and option names/order; unbounded in the parameter list) + differential correspondence "
             "of EmitAst.v + CPython as judge (compile, exec, inspect.signature, class __dict__/__annotations__, a real "
             "ArgumentParser incl. parse_args on the options' own defaults, unparse/re-parse, emit.file with and without black) + "
             "inside the value-level guards the emitted tree against the Coq spec table of C06Values.v")
TRUSTED = [
    "CPython's side (what compile/exec/inspect/argparse do with the emitted tree) is validated by execution, not modelled",
    "to_docstring / emit.docstring results and ast.parse on code strings are inputs of the EmitAst model",
    "black.format_str preserves the tree: checked per case by re-parsing the written file",
]


# ------------------------------------------------------------------ scratch namespace
class Stub:
    """stands for np / tf / torch ...: attribute access, subscription and calls give stable child stubs"""

    def __init__(self, name):
        self._name = name
        self._kids = {}

    def _kid(self, k):
        if k not in self._kids:
            self._kids[k] = Stub("%s%s" % (self._name, k))
        return self._kids[k]

    def __getattr__(self, a):
        if a.startswith("__") and a.endswith("__"):
            raise AttributeError(a)
        return self._kid("." + a)

    def __getitem__(self, i):
        return self._kid("[%r]" % (i,))

    def __call__(self, *a, **k):
        return self._kid("(%r,%r)" % (a, sorted(k.items())))

    def __repr__(self):
        return "<stub %s>" % self._name

    def __eq__(self, other):
        return isinstance(other, Stub) and other._name == self._name

    def __hash__(self):
        return hash(self._name)


def namespace():
    ns = {k: getattr(typing, k) for k in ("Optional", "List", "Literal", "Union", "Tuple", "Dict", "Callable", "Any", "AnyStr")}
    ns["typing"] = typing
    for n in ("np", "tf", "torch", "os", "math", "foo", "x", "bar"):
        ns[n] = Stub(n)
    ns["math"] = math
    ns["ArgumentParser"] = argparse.ArgumentParser
    ns["loads"] = json.loads       # README: the emitted argparse function is used with `from json import loads`
    ns["pickle"] = Stub("pickle")
    return ns


NS_EVAL = namespace()


def ev(src):
    return eval(src, NS_EVAL)  # noqa: S307  (generated input only)


def same_value(a, b):
    if isinstance(a, float) and isinstance(b, float):
        return repr(a) == repr(b)
    return type(a) is type(b) and a == b


NONE_LIKE = (None, "None", "```(None)```")


def is_code(v):
    return isinstance(v, str) and len(v) > 6 and v.startswith("```") and v.endswith("```")


def expected_default(p):
    """('absent',) | ('value', v) | ('uneval',)"""
    if "default" not in p:
        return ("absent",)
    d = p["default"]
    if isinstance(d, str) and d in NONE_LIKE or d is None:
        return ("value", None)
    if is_code(d):
        try:
            return ("value", ev(d.strip("`")))
        except Exception:  # noqa
            return ("uneval",)
    return ("value", d)


# ------------------------------------------------------------------ generic checks
def tree(node):
    """canonical tree text: the wire form of PyAst (positions, contexts and 3.12's empty type_params ignored)"""
    try:
        return dumps(astwire.enc_stmt(node))
    except Exception:  # noqa
        return ast.dump(node)


PRE_BODIES = ["VERSION = (1, 2)", "import os", "x = 1\ny = 2", "def g():\n    return 1", "class K:\n    a = 1",
              "if True:\n    z = 3", '"""module doc"""', "# only a comment", "", "s = 'text'\n\n\nt = [\n    1,\n]"]
PRE_ENDINGS = ["", "", "\n", " ", "\t", "\n    ", "  # trailing comment ", "\n\n", "\n# last line is a comment", "\r\n"]


def gen_filespec(rng):
    """how emit.file is exercised besides a fresh file: mode x what the file holds before the call"""
    r = rng.random()
    if r < 0.25:
        pre = None                                   # no file yet
    elif r < 0.5:
        pre = {"emitted": True, "skip_black": rng.random() < 0.5}    # the file emit.file itself wrote for this node just before
    else:
        pre = {"text": rng.choice(PRE_BODIES) + rng.choice(PRE_ENDINGS)}
    return {"mode": rng.choice(["a", "a", "a", "wt"]), "pre": pre}


def file_state_checks(node, src, spec):
    """emit.file(node, filename, mode) onto a file in a given pre-state, with and without formatting: the result parses, the
    statements the file held before are unchanged (mode 'a') or gone (mode 'wt'), and the last statement is the emitted tree"""
    m = impl()
    out = []
    want = tree(ast.parse(src).body[0])
    for skip_black in (True, False):
        clause = "file" if skip_black else "file-black"
        d = tempfile.mkdtemp(prefix="doctrans-verif-c06.")
        fn = os.path.join(d, "out.py")
        try:
            pre = spec["pre"]
            if pre is not None and pre.get("emitted"):
                m.emit.file(copy.deepcopy(node), fn, mode="a", skip_black=pre["skip_black"])
            elif pre is not None:
                with open(fn, "w", newline="") as f:
                    f.write(pre["text"])
            before = open(fn).read() if pre is not None else ""
            try:
                before_trees = [tree(s) for s in ast.parse(before).body]
            except SyntaxError:
                before_trees = None        # (not a pre-state this stratum speaks about)
            try:
                m.emit.file(copy.deepcopy(node), fn, mode=spec["mode"], skip_black=skip_black)
            except Exception as e:  # noqa
                out.append((clause, False, "emit.file(mode=%r) raised %s" % (spec["mode"], type(e).__name__)))
                continue
            if before_trees is None:
                continue
            text = open(fn).read()
            left = [f for f in os.listdir(d) if f != "out.py"]
            if left:
                out.append(("file-append", False, "emit.file left %r next to the file" % (left,)))
            try:
                body = ast.parse(text).body
            except SyntaxError as e:
                out.append(("file-append", False, "after emit.file(mode=%r) onto a file holding %r the file does not parse (%s, line %r)"
                            % (spec["mode"], before[-60:], e.msg, (e.text or "")[:80])))
                continue
            kept = before_trees if spec["mode"].startswith("a") else []
            ok = [tree(s) for s in body[:-1]] == kept and len(body) >= 1
            out.append(("file-append", ok, "" if ok else "emit.file(mode=%r): the %d statement(s) the file held before came back as %d"
                                                       " statement(s) / changed" % (spec["mode"], len(before_trees), len(body) - 1)))
            if body:
                ok = tree(body[-1]) == want
                out.append((clause, ok, "" if ok else "file text parses to a different tree (mode=%r, pre-state %r)" % (spec["mode"], spec["pre"])))
        finally:
            for f in os.listdir(d):
                os.remove(os.path.join(d, f))
            os.rmdir(d)
    return out


def validity_checks(node, filespec=None):
    """-> list of (clause, ok, what)"""
    out = []
    try:
        src = ast.unparse(ast.fix_missing_locations(node))
    except Exception as e:  # noqa
        return [("unparse", False, "ast.unparse raised %s" % type(e).__name__)], None, None
    out.append(("unparse", True, ""))
    try:
        code = compile(src, "<emitted>", "exec")
    except Exception as e:  # noqa
        out.append(("compile", False, "compile raised %s" % type(e).__name__))
        return out, src, None
    out.append(("compile", True, ""))
    ns = namespace()
    try:
        exec(code, ns)  # noqa: S102
    except Exception as e:  # noqa
        out.append(("exec", False, "exec raised %s" % type(e).__name__))
        return out, src, None
    out.append(("exec", True, ""))
    try:
        back = ast.parse(src).body[0]
        ok = tree(back) == tree(node)
        out.append(("reparse", ok, "" if ok else "unparse/re-parse gives a different tree"))
    except Exception as e:  # noqa
        out.append(("reparse", False, "re-parse raised %s" % type(e).__name__))
    m = impl()
    for skip_black in (True, False):
        d = tempfile.mkdtemp(prefix="doctrans-verif-c06.")
        fn = os.path.join(d, "out.py")
        try:
            m.emit.file(copy.deepcopy(node), fn, mode="wt", skip_black=skip_black)
            back = ast.parse(open(fn).read()).body[0]
            ok = tree(back) == tree(ast.parse(src).body[0])
            out.append(("file-black" if not skip_black else "file", ok, "" if ok else "file text parses to a different tree"))
        except Exception as e:  # noqa
            out.append(("file-black" if not skip_black else "file", False, "emit.file raised %s" % type(e).__name__))
        finally:
            for f in os.listdir(d):
                os.remove(os.path.join(d, f))
            os.rmdir(d)
    if filespec is not None:
        out += file_state_checks(node, src, filespec)
    return out, src, ns


# ------------------------------------------------------------------ behaviour: function
def function_checks(ir, o, ns, name):
    out = []
    f = ns[name]
    sig = inspect.signature(f)
    ps = list(sig.parameters.values())
    exp = []
    if o["function_type"] in ("self", "cls"):
        exp.append((o["function_type"], inspect.Parameter.POSITIONAL_OR_KEYWORD))
    kw = None
    for n, p in ir["params"].items():
        if n.endswith("kwargs"):
            kw = kw or n
            continue
        exp.append((n, inspect.Parameter.KEYWORD_ONLY if o["emit_as_kwonlyargs"] else inspect.Parameter.POSITIONAL_OR_KEYWORD))
    if kw:
        exp.append((kw, inspect.Parameter.VAR_KEYWORD))
    got = [(p.name, p.kind) for p in ps]
    # python orders keyword-only after positional and **kwargs last; names/kinds as a list
    ok = got == exp
    out.append(("names-order-kinds", ok, "" if ok else "signature names/kinds %r, IR says %r" % (got, exp)))
    byname = {p.name: p for p in ps}
    for n, p in ir["params"].items():
        if n.endswith("kwargs") or n not in byname:
            continue
        sp = byname[n]
        ed = expected_default(p)
        if ed[0] == "absent":
            ok = sp.default is inspect.Parameter.empty
            out.append(("default", ok, "" if ok else "parameter %s has no default in the IR but default %r in the signature" % (n, sp.default)))
        elif ed[0] == "value":
            ok = sp.default is not inspect.Parameter.empty and (same_value(sp.default, ed[1]) or sp.default is ed[1])
            out.append(("default", ok, "" if ok else "parameter %s: default %r, IR says %r" % (n, sp.default, ed[1])))
        if o["inline_types"] and p.get("typ"):
            try:
                want = ev(p["typ"])
            except Exception:  # noqa
                continue
            ok = sp.annotation is not inspect.Parameter.empty and sp.annotation == want
            out.append(("annotation", ok, "" if ok else "parameter %s: annotation %r, IR says %r" % (n, sp.annotation, want)))
        else:
            ok = sp.annotation is inspect.Parameter.empty
            out.append(("annotation", ok, "" if ok else "parameter %s: annotation %r but the IR declares no inline type" % (n, sp.annotation)))
    rt = ((ir.get("returns") or {}).get("return_type") or {}).get("typ")
    if o["inline_types"] and rt:
        try:
            want = ev(rt)
            ok = sig.return_annotation == want
            out.append(("return-annotation", ok, "" if ok else "return annotation %r, IR says %r" % (sig.return_annotation, want)))
        except Exception:  # noqa
            pass
    else:
        ok = sig.return_annotation is inspect.Signature.empty
        out.append(("return-annotation", ok, "" if ok else "return annotation present but not declared inline"))
    return out


# ------------------------------------------------------------------ behaviour: class
def class_checks(ir, o, ns, name):
    out = []
    c = ns[name]
    ann = c.__dict__.get("__annotations__", {})
    exp_names = list(ir["params"])
    rt = (ir.get("returns") or {}).get("return_type")
    if rt is not None and "return_type" not in exp_names:
        exp_names.append("return_type")
    ok = list(ann) == exp_names
    out.append(("attr-names-order", ok, "" if ok else "annotated attributes %r, IR says %r" % (list(ann), exp_names)))
    items = list(ir["params"].items()) + ([("return_type", rt)] if rt is not None and "return_type" not in ir["params"] else [])
    for n, p in items:
        if n not in ann:
            continue
        if p.get("typ"):
            try:
                want = ev(p["typ"])
                ok = ann[n] == want
                out.append(("attr-annotation", ok, "" if ok else "attribute %s: annotation %r, IR says %r" % (n, ann[n], want)))
            except Exception:  # noqa
                pass
        ed = expected_default(p)
        if ed[0] == "value" and ed[1] is not None:
            got = c.__dict__.get(n, "<missing>")
            ok = same_value(got, ed[1]) or got is ed[1]
            out.append(("attr-value", ok, "" if ok else "attribute %s = %r, IR says %r" % (n, got, ed[1])))
    return out


# ------------------------------------------------------------------ behaviour: argparse
def collapse(s):
    return " ".join((s or "").split())


def reflow(s, width=100):
    """what wrapping may do to prose: blanks become line breaks, lines as full as the width allows; words (however long,
    hyphenated or not) stay whole"""
    return textwrap.fill(s, width, break_long_words=False, break_on_hyphens=False)


def argparse_checks(ir, o, ns, name):
    out = []
    f = ns[name]
    parser = argparse.ArgumentParser(add_help=False)
    try:
        f(parser)
    except Exception as e:  # noqa
        return [("run", False, "running against an ArgumentParser raised %s" % type(e).__name__)]
    out.append(("run", True, ""))
    want_desc = reflow(ir["doc"]) if o["wrap_description"] else ir["doc"]
    ok = parser.description == want_desc
    out.append(("description", ok, "" if ok else "description %r, IR says %r" % (parser.description, want_desc)))
    acts = [a for a in parser._actions]
    got = [a.option_strings for a in acts]
    exp = [["--" + n] for n in ir["params"]]
    ok = got == exp
    out.append(("options-order", ok, "" if ok else "options %r, IR says %r" % (got, exp)))
    by = {a.option_strings[0]: a for a in acts if a.option_strings}
    for n, p in ir["params"].items():
        a = by.get("--" + n)
        if a is None:
            continue
        ed = expected_default(p)
        if ed[0] == "value" and ed[1] is not None and not isinstance(ed[1], (list, tuple, dict, Stub)) and not is_code(p.get("default")):
            ok = same_value(a.default, ed[1])
            out.append(("option-default", ok, "" if ok else "option --%s default %r, IR says %r" % (n, a.default, ed[1])))
        d = p.get("doc")
        if d and not o["emit_default_doc"] and "efault" not in d:
            want = reflow(d) if o["word_wrap"] else d
            ok = a.help == want
            out.append(("option-help", ok, "" if ok else "option --%s help %r, IR says %r" % (n, a.help, want)))
            ok = isinstance(a.help, str) and a.help.split() == d.split()
            out.append(("help-words", ok, "" if ok else "option --%s help %r does not consist of the words of the IR's prose %r" % (n, a.help, d)))
        t = p.get("typ") or ""
        if t.startswith("Literal["):
            try:
                want = tuple(typing.get_args(ev(t)))
                ok = a.choices is not None and tuple(a.choices) == want
                out.append(("option-choices", ok, "" if ok else "option --%s choices %r, IR says %r" % (n, a.choices, want)))
            except Exception:  # noqa
                pass
        if t in ("int", "float", "bool", "str"):
            want = {"int": int, "float": float, "bool": bool, "str": None}[t]
            ok = a.type is want or (t == "str" and a.type is str)
            out.append(("option-type", ok, "" if ok else "option --%s type %r, IR says %s" % (n, a.type, t)))
    out += argparse_run_checks(ir, ns, parser, by)
    return out


# ---- the registered options at work: what the parser does with the IR's own defaults
def data_value(v):
    """is v a value a command line can carry (None, bool, int, float, str and list / tuple / str-keyed dict of such)"""
    if v is None or isinstance(v, (bool, int, str)):
        return True
    if isinstance(v, float):
        return v == v and v not in (float("inf"), float("-inf"))
    if isinstance(v, (list, tuple)):
        return all(data_value(x) for x in v)
    if isinstance(v, dict):
        return all(isinstance(k, str) and data_value(x) for k, x in v.items())
    return False


def plain(v):
    """the value with the list / tuple distinction dropped (JSON has one sequence type); floats by repr, bool is not int"""
    if isinstance(v, (list, tuple)):
        return ["seq"] + [plain(x) for x in v]
    if isinstance(v, dict):
        return ["map"] + sorted((k, plain(x)) for k, x in v.items())
    return [type(v).__name__, repr(v)]


def is_loads(t):
    return t is json.loads


def text_of(v, t):
    """how the value v is written on a command line for an option whose registered type is t"""
    if is_loads(t):
        return json.dumps(v)
    return v if isinstance(v, str) else str(v)


def dummy_text(a):
    """some text the option accepts (for a required option about whose value the IR says nothing)"""
    if a.choices:
        return text_of(list(a.choices)[0], a.type)
    for cand in ("5", "x", "null"):
        try:
            (a.type or str)(cand)
            return cand
        except Exception:  # noqa
            pass
    return "5"


def quiet_parse(parser, argv):
    """-> ('ok', dict) | ('exit', status, message) | ('raised', exception name)"""
    err = io.StringIO()
    try:
        with contextlib.redirect_stderr(err), contextlib.redirect_stdout(io.StringIO()):
            return ("ok", vars(parser.parse_args(argv)))
    except SystemExit as e:
        return ("exit", e.code, err.getvalue().strip().split("\n")[-1][:160])
    except Exception as e:  # noqa
        return ("raised", type(e).__name__)


def conforms(v, tp):
    """is the value v one the declared type tp (a typing object / class) admits?  None only under Optional / Union with None;
    bool is not an int; an int is not a float (the text of an int read back as float is another value)"""
    if tp is typing.Any:
        return True
    if tp is type(None):
        return v is None
    if tp in (int, float, str, bool):
        return type(v) is tp
    if tp in (list, tuple, dict):
        return type(v) is tp
    origin, args = typing.get_origin(tp), typing.get_args(tp)
    if origin is typing.Union:
        return any(conforms(v, a) for a in args)
    if origin is typing.Literal:
        return any(type(v) is type(a) and v == a for a in args)
    if origin is list:
        return isinstance(v, list) and (not args or all(conforms(x, args[0]) for x in v))
    if origin is tuple:
        if not isinstance(v, (tuple, list)) or not args:
            return isinstance(v, (tuple, list))
        if len(args) == 2 and args[1] is Ellipsis:
            return all(conforms(x, args[0]) for x in v)
        return len(v) == len(args) and all(conforms(x, a) for x, a in zip(v, args))
    if origin is dict:
        return isinstance(v, dict) and (len(args) != 2 or all(conforms(k, args[0]) and conforms(x, args[1]) for k, x in v.items()))
    return False


def ir_data_default(p):
    """what the run clauses demand of the parameter's option:
       None            nothing: no explicit default
       ('out', why)    nothing: a default that is not data of the declared type (back-tick quoted code that is not a literal
                       display, a value the declared type does not admit, an undeclared / opaque type)
       ('value', v)    the IR gives the explicit default v: a scalar or None, or a back-tick quoted literal display (list /
                       tuple / dict of data) - of the declared type
       ('odd', why)    an explicit default the run clauses do not speak about although it is data of the declared type
                       (the empty and the one-element sequence under a declared type that does not mention List, a tuple
                       under one that does)
    Under a declared type that mentions List (the option is registered with action='append') a list display of any length
    is a 'value', and so is a scalar the element type admits (the IR doctrans' own argparse reader gives for
    action='append' with a default): the recorded finding argparse-list-default-unusable."""
    if "default" not in p:
        # (prose that itself announces a default: the emitter reads one out of it)
        return ("out", "prose-announces-default") if "efault" in (p.get("doc") or "") else None
    d = p["default"]
    if d is None or isinstance(d, str) and d in NONE_LIKE:
        v = None
    elif is_code(d):
        try:
            v = ast.literal_eval(d.strip("`"))
        except Exception:  # noqa
            return ("out", "code-not-a-literal")
    else:
        v = d
    if not data_value(v):
        return ("out", "not-data")
    try:
        tp = ev(p["typ"]) if p.get("typ") else None
    except Exception:  # noqa
        tp = None
    if tp is None or isinstance(tp, Stub):
        return ("out", "undeclared-or-opaque-type")
    try:
        if not conforms(v, tp):
            if v is not None and not isinstance(v, (list, tuple, dict)) and appends(p["typ"]) and list_elem_admits(v, tp):
                return ("value", v)
            return ("out", "not-of-the-declared-type")
    except Exception:  # noqa
        return ("out", "undeclared-or-opaque-type")
    if isinstance(v, list) and appends(p["typ"]):
        return ("value", v)
    if isinstance(v, (list, tuple)) and len(v) < 2:
        return ("odd", "sequence-of-%d" % len(v))
    if isinstance(v, (list, tuple)) and "List" in ast.dump(ast.parse(p["typ"])):
        return ("odd", "sequence-under-List")
    return ("value", v)


def appends(typ):
    """does the declared type mention the name List (ast_utils._parse_node_for_arg then chooses action='append')"""
    try:
        return any(isinstance(n, ast.Name) and n.id == "List" for n in ast.walk(ast.parse(typ)))
    except SyntaxError:
        return False


def list_elem_admits(v, tp):
    """is v a value the element type of a List inside tp (List[T], Optional[List[T]], Union[.., List[T]]) admits"""
    origin, args = typing.get_origin(tp), typing.get_args(tp)
    if origin is list:
        return not args or conforms(v, args[0])
    if origin is typing.Union:
        return any(list_elem_admits(v, a) for a in args)
    return False


def argparse_run_checks(ir, ns, parser, by):
    """The registered options at work, for the parameters whose explicit default is data of the declared type (ir_data_default):
    default-accepted  the registered `type` applied to the default written as text gives the default back (a bool only has to
                      be accepted: bool('False') is True), and a registered `choices` contains it;
    registered-default the registered default - read through the registered type when it is a str, as argparse does when the
                      option is left out - is the default;
    parse-defaults    parse_args with (only) the required options given - each as the text of its own default, or, where the IR
                      gives none, some text its type accepts - does not exit or raise, and every such parameter that was not
                      given comes out with its default;
    parse-given       parse_args with every such option given as the text of its own default does not exit or raise and gives
                      the defaults back.
    The two parse clauses speak when every explicit default of the IR is of that kind.
    A check of these clauses carries a fourth component: the parameters it speaks of (the option; for a parse_args that exited
    or raised the options that were on the command line) and how it failed - what the refined Coq classifier is told."""
    out = []
    opts = []
    for n, p in ir["params"].items():
        a = by.get("--" + n)
        if a is None or a.option_strings != ["--" + n]:
            return out                                     # options-order already failed
        opts.append((n, p, a, ir_data_default(p)))
    for n, p, a, dv in opts:
        if dv is None or dv[0] != "value" or dv[1] is None:
            continue
        conv = a.type or str
        v = dv[1]
        ok, what = True, ""
        try:
            got = conv(text_of(v, a.type))
        except Exception as e:  # noqa
            ok, what = False, "option --%s: the registered type %s rejects the parameter's own default %r (%s)" % (
                n, getattr(a.type, "__name__", a.type), v, type(e).__name__)
        else:
            if not isinstance(v, bool) and plain(got) != plain(v):
                ok, what = False, "option --%s: the registered type %s turns the default %r, written as text, into %r" % (
                    n, getattr(a.type, "__name__", a.type), v, got)
            elif a.choices is not None and got not in a.choices:
                ok, what = False, "option --%s: the default %r is not among the registered choices %r" % (n, v, tuple(a.choices))
        out.append(("default-accepted", ok, what, {"entries": [n], "mode": "other"}))
        # what argparse itself does with a registered default that is a str: the registered type is applied to it at parse time
        try:
            reg = conv(a.default) if isinstance(a.default, str) else a.default
            ok = plain(reg) == plain(v)
            what = "" if ok else "option --%s: the registered default %r, read through the registered type %s as argparse does, is %r; " \
                                 "the IR's default is %r" % (n, a.default, getattr(a.type, "__name__", a.type), reg, v)
        except Exception as e:  # noqa
            ok, what = False, "option --%s: the registered type %s rejects the registered default %r (%s); the IR's default is %r" % (
                n, getattr(a.type, "__name__", a.type), a.default, type(e).__name__, v)
        out.append(("registered-default", ok, what, {"entries": [n], "mode": "other"}))
    if any(dv is not None and dv[0] != "value" for n, p, a, dv in opts):
        out.append(("parse-skipped", True, ""))
        return out

    def has_value(dv):
        return dv is not None and dv[1] is not None

    def run(clause, which):
        argv, own = [], set()
        for n, p, a, dv in opts:
            if which(a, dv):
                if has_value(dv):
                    argv += ["--" + n, text_of(dv[1], a.type)]
                    own.add(n)
                else:
                    argv += ["--" + n, dummy_text(a)]
                    own.add(n + "/dummy")
        res = quiet_parse(parser, argv)
        if res[0] != "ok":
            out.append((clause, False, "parse_args(%r) %s" % (argv, "exited with status %r: %s" % res[1:] if res[0] == "exit"
                                                           else "raised %s" % res[1]),
                        {"entries": sorted(x.split("/")[0] for x in own), "mode": "exited" if res[0] == "exit" else "raised"}))
            return
        out.append((clause, True, ""))
        for n, p, a, dv in opts:
            if dv is None or n + "/dummy" in own or (n in own and isinstance(dv[1], bool)):
                continue
            got = res[1].get(a.dest, "<missing>")
            ok = plain(got) == plain(dv[1])
            out.append((clause, ok, "" if ok else "parse_args(%r): %s = %r, the IR's default is %r" % (argv, n, got, dv[1]),
                        {"entries": [n], "mode": "value"}))

    run("parse-defaults", lambda a, dv: a.required)
    run("parse-given", lambda a, dv: a.required or has_value(dv))
    return out


# ------------------------------------------------------------------ driver
def table_region_ir(rng):
    """an IR on which the value-level spec of the class and argparse emitters is defined and (mostly) inside its guard: every
    parameter declared T / Optional[T] / List[T] over a scalar T or Literal of two or more words, prose that announces no
    default, no default or a plain default of type T (None under Optional)"""
    tags = ["stratum:table-region"]
    params, used = OrderedDict(), set()
    for _ in range(rng.choice([1, 2, 2, 3, 4, 6])):
        name = G.ident(rng)
        while name in used:
            name = G.ident(rng)
        used.add(name)
        shape = rng.choice(["scalar", "scalar", "optional", "optional", "list", "literal"])
        sc = rng.choice(G.SCALAR_TYPES)
        words = rng.sample(["np", "tf", "adam", "sgd", "mnist"], rng.randint(2, 3))
        typ = {"scalar": sc, "optional": "Optional[%s]" % sc, "list": "List[%s]" % sc,
               "literal": "Literal[%s]" % ", ".join(repr(w) for w in words)}[shape]
        p = {"doc": G.clean_prose(rng, terminal=rng.choice([".", ".", ",", ""])), "typ": typ}
        dk = rng.choice(["absent", "value", "value", "value", "none"] if shape == "optional" else ["absent", "value", "value"])
        if dk == "none":
            p["default"] = None
        elif dk == "value":
            p["default"] = rng.choice(words) if shape == "literal" else fam_emitast.scalar_value_of(rng, sc)
        if rng.random() < 0.1:
            del p["doc"]
        params[name] = p
        tags += ["typ:" + shape, "default:" + dk]
    ret = None
    if rng.random() < 0.2:
        ret = OrderedDict((("return_type", {"typ": rng.choice(["int", "str", "List[float]"]), "doc": G.clean_prose(rng)}),))
    doc = "\n".join(G.clean_prose(rng, max_words=7, terminal=rng.choice([".", ""])) for _ in range(rng.choice([1, 1, 2])))
    return {"name": None, "type": "static", "doc": doc, "params": params, "returns": ret}, tags


# ---- strata of the two recorded shapes (drawn seldom: a case that carries one fails its clauses as a known finding)
P_LIST_DEFAULT = 0.06      # of the argparse cases
P_BARE_DICT = 0.05         # of the class cases


def list_default_param(rng, tags):
    """a parameter declared List[T] / Optional[List[T]] over a scalar T with an explicit default: a back-tick quoted list
    display of no, one, two or more elements of T, or a scalar of T (what doctrans' argparse reader produces for
    action='append' with a default)"""
    sc = rng.choice(G.SCALAR_TYPES)
    typ = "List[%s]" % sc
    if rng.random() < 0.4:
        typ = "Optional[%s]" % typ
    shape = rng.choice(["seq0", "seq1", "seqN", "scalar"])
    if shape == "scalar":
        default = fam_emitast.scalar_value_of(rng, sc)
    else:
        k = {"seq0": 0, "seq1": 1, "seqN": rng.choice([2, 2, 3])}[shape]
        default = "```[%s]```" % ", ".join(repr(fam_emitast.scalar_value_of(rng, sc)) for _ in range(k))
    tags.append("stratum:list-default:%s" % shape)
    return {"doc": G.clean_prose(rng), "typ": typ, "default": default}


def bare_dict_param(rng, tags):
    """a parameter declared with the bare type `dict` and a default: a back-tick quoted dict display (mostly), a plain word,
    a number, None"""
    shape = rng.choice(["display", "display", "display", "word", "number", "none"])
    if shape == "display":
        keys = rng.sample(["a", "b", "key", "lr", "name"], rng.choice([1, 2]))
        default = "```{%s}```" % ", ".join("%r: %r" % (k, fam_emitast.scalar_value_of(rng, rng.choice(["int", "str", "bool"])))
                                           for k in keys)
    else:
        default = {"word": rng.choice(fam_emitast.PLAIN_WORDS), "number": rng.randint(1, 9), "none": None}[shape]
    tags.append("stratum:bare-dict-default:%s" % shape)
    return {"doc": G.clean_prose(rng), "typ": "dict", "default": default}


def gen_cases(rng, n):
    cases = []
    for _ in range(n):
        kind = rng.choice(["function", "class", "argparse"])
        if kind != "function" and rng.random() < 0.3:
            ir, tags = table_region_ir(rng)
        else:
            ir, tags = gen_ir.gen_ir(rng, clean=rng.random() < 0.45)
        spec = {"name": "f", "type": "static", "doc": ir["doc"],
                "params": OrderedDict((k, dict(v)) for k, v in ir["params"].items()),
                "returns": None if ir["returns"] is None else OrderedDict((k, dict(v)) for k, v in ir["returns"].items())}
        if rng.random() < 0.06 and spec["params"]:
            # what parse.function leaves for an unannotated, undocumented argument
            k0 = rng.choice(list(spec["params"]))
            spec["params"][k0] = {"doc": None, "typ": None, **({"default": 5} if rng.random() < 0.5 else {})}
        # strata: an explicit default of the type of any member of a Union (also inside Optional); a back-tick quoted list /
        # tuple / dict display of two or more elements of one or of several types, under a declared type that admits it
        if rng.random() < 0.16:
            fam_emitast.add_param(rng, spec, fam_emitast.union_default_param(rng, tags))
        if rng.random() < 0.16:
            fam_emitast.add_param(rng, spec, fam_emitast.literal_display_param(rng, tags))
        # strata of the recorded shapes: List type with a list-display / scalar default (argparse), bare dict with a default (class)
        if kind == "argparse" and rng.random() < P_LIST_DEFAULT:
            fam_emitast.add_param(rng, spec, list_default_param(rng, tags))
        if kind == "class" and rng.random() < P_BARE_DICT:
            fam_emitast.add_param(rng, spec, bare_dict_param(rng, tags))
        if kind == "function":
            o = {"function_name": "f", "function_type": rng.choice(["static", "self", "cls"]),
                 "word_wrap": rng.random() < 0.5, "emit_default_doc": rng.random() < 0.5,
                 "indent_level": rng.choice([0, 1, 2]), "emit_separating_tab": rng.random() < 0.5,
                 "inline_types": rng.random() < 0.5, "emit_as_kwonlyargs": rng.random() < 0.5}
        elif kind == "class":
            o = {"emit_call": False, "class_name": "C", "word_wrap": rng.random() < 0.5, "emit_default_doc": rng.random() < 0.5}
        else:
            o = {"emit_default_doc": rng.random() < 0.5, "word_wrap": rng.random() < 0.5,
                 "wrap_description": rng.random() < 0.5, "function_name": "set_cli_args", "function_type": "static"}
        # strata: a token longer than the wrap width in a summary line / in prose; emit.file onto a file in some pre-state
        if rng.random() < 0.3:
            fam_emitast._maybe_long_token(rng, spec, tags, p_doc=0.5, p_param=0.4)
        case = {"kind": kind, "ir": spec, "opts": o, "tags": tags}
        if rng.random() < 0.5:
            case["file"] = gen_filespec(rng)
            tags.append("file:%s:%s" % (case["file"]["mode"], "none" if case["file"]["pre"] is None else
                                        "emitted" if case["file"]["pre"].get("emitted") else "text"))
        cases.append(case)
    return cases


def spec_request(case, ir, rec, node):
    """the request that asks the Coq value-level spec (coq/model/C06Values.v, family run_c06values) about this point:
    -> (guard?, does the really emitted tree carry exactly the table / attributes / well-formedness the spec computes from the IR?)"""
    kind, o = case["kind"], case["opts"]
    i = irwire.enc_ir(ir)
    art = astwire.enc_stmt(node)
    if kind == "argparse":
        return dumps([Sym("c06v_argparse"), i, bool(o["word_wrap"]), art])
    if kind == "class":
        strings = set()
        fam_emitast._strings_of_ir(ir, strings)
        for snap in rec.irs:
            fam_emitast._strings_of_ir(snap, strings)
        return dumps([Sym("c06v_class"), i, fam_emitast.parse_table(strings), art])
    return dumps([Sym("c06v_function"), i, opt(o["function_type"] or ir.get("type")), art])


SPEC_WHAT = {"argparse": "inside guard_C06_argparse the add_argument calls of the emitted function (option string, type, choices, action, "
                         "help, required, default) are not the table spec_argparse_table computes from the IR",
             "class": "inside guard_C06_class the annotated assignments of the emitted class (name, annotation, value) are not "
                      "spec_class_attrs of the IR",
             "function": "inside guard_C06_function_types / _names the emitted function is not well-formed Python (wf_python)"}


def spec_verdicts(reqs):
    """[request or None] -> [None (not asked / not answered) | (in_guard, agrees)]"""
    idx = [n for n, r in enumerate(reqs) if r is not None]
    out = [None] * len(reqs)
    for n, r in zip(idx, run_model([reqs[n] for n in idx])):
        e = loads(r)
        if isinstance(e, list) and len(e) == 2 and all(x in ("true", "false") for x in e):
            out[n] = (e[0] == "true", e[1] == "true")
    return out


def evaluate(case, with_spec=False):
    """-> (list of (clause, ok, what), node or None[, spec request or None])"""
    kind, o = case["kind"], case["opts"]
    ir = fam_emitast.materialise_ir(case["ir"])
    res, rec = fam_emitast.call_emitter(kind, copy.deepcopy(ir), o)
    node = rec.node
    if node is None:
        r = [("emit", False, "the emitter raised %s" % exc_kind(rec.exc), None)], None
        return r + (None,) if with_spec else r
    checks, src, ns = validity_checks(node, case.get("file"))
    if ns is not None:
        try:
            if kind == "function":
                checks += function_checks(ir, o, ns, "f")
            elif kind == "class":
                checks += class_checks(ir, o, ns, "C")
            else:
                checks += argparse_checks(ir, o, ns, "set_cli_args")
        except Exception as e:  # noqa
            checks.append(("behaviour", False, "reading the executed artefact raised %s" % type(e).__name__))
    checks = [c if len(c) == 4 else tuple(c) + (None,) for c in checks]
    if not with_spec:
        return checks, node
    try:
        req = spec_request(case, ir, rec, node)
    except Exception:  # noqa  IR or artefact outside the wire
        req = None
    return checks, node, req


def check_case(case):
    checks, _, req = evaluate(case, with_spec=True)
    for clause, ok, what, _info in checks:
        if not ok:
            return False, "%s: %s" % (clause, what)
    v = spec_verdicts([req])[0]
    if v is not None and v[0] and not v[1]:
        return False, "spec-table: " + SPEC_WHAT[case["kind"]]
    return True, ""


def class_request(case, clause, node, info=None):
    """the request to the refined classifier (coq/model/C06Spec2.v): the arguments of the old one, the parameters the
    failing check speaks of and how it failed.  An artefact that is not a well-formed tree (the wire cannot carry it: what
    ast.unparse raises on) is sent as none."""
    o = case["opts"]
    ir = irwire.enc_ir(fam_emitast.materialise_ir(case["ir"]))
    try:
        art = opt(node, astwire.enc_stmt)
    except Exception:  # noqa
        art = Sym("none")
    info = info or {}
    return dumps([Sym("c06_class_r"), Sym(case["kind"]), Sym(clause.replace("-", "_")), ir,
                  bool(o.get("inline_types", False)), bool(o.get("emit_as_kwonlyargs", False)),
                  bool(o.get("emit_default_doc", False)), bool(o.get("word_wrap", False)), art,
                  list(info.get("entries") or []), Sym(info.get("mode") or "other")])


def oracle(rng, tier):
    n = 700 if tier == "quick" else 6000
    cases = gen_cases(rng, n)
    failures, hist, seen = [], collections.Counter(), set()
    pending, reqs = [], []
    evaluations = 0
    results = [evaluate(c, with_spec=True) for c in cases]
    verdicts = spec_verdicts([r[2] for r in results])
    for c, (checks, node, _), v in zip(cases, results, verdicts):
        for t in c["tags"]:
            if t.startswith("stratum:"):
                hist[t] += 1
        if v is None:
            hist["spec-table:%s:not-asked" % c["kind"]] += 1
        elif not v[0]:
            hist["spec-table:%s:outside-guard" % c["kind"]] += 1
        else:
            # inside the Coq guard the theorem (C06_argparse_partial / C06_class_partial / C06_function_wf_types) speaks about
            # the model; the really emitted tree must agree with the spec computed from the IR alone
            checks = checks + [("spec-table", v[1], "" if v[1] else SPEC_WHAT[c["kind"]], None)]
        evaluations += len(checks)
        allok = True
        for clause, ok, what, info in checks:
            hist["%s:%s:%s" % (c["kind"], clause, "ok" if ok else "FAIL")] += 1
            if not ok:
                allok = False
                try:
                    reqs.append(class_request(c, clause, node, info))
                    pending.append((c, clause, what))
                except Exception:  # noqa  artefact outside the wire
                    hist["skipped-unencodable"] += 1
        if allok and (len(c["ir"]["params"]) >= 2 or c["ir"].get("returns")):
            seen.add(dumps(irwire.enc_ir(fam_emitast.materialise_ir(c["ir"]))) + c["kind"])
    outs = run_model(reqs)
    kept = collections.Counter()
    for (c, clause, what), o in zip(pending, outs):
        e = loads(o)
        cls = None if e == "none" else (unhx(e[1]) if isinstance(e, list) else str(e))
        hist["fails:%s:%s:%s" % (c["kind"], clause, cls or "in-guard")] += 1
        kept[(c["kind"], clause, cls)] += 1
        if cls is None or kept[(c["kind"], clause, cls)] <= 10:
            failures.append({"case": {k: c[k] for k in ("kind", "ir", "opts", "file") if k in c}, "what": "%s: %s" % (clause, what), "class": cls})
    return {
        "evaluations": evaluations,
        "distinct_nontrivial": len(seen),
        "rule": "generated IRs x {function, class, argparse} x option combinations; every clause (validity, tree identity, "
                "file emission onto a fresh file and, for half the cases, in mode a / wt onto a file in a drawn pre-state, behaviour) "
                "counted; a third of the IRs carry a token longer than the wrap width in the summary or in prose; strata: a Union / Optional[Union] "
                "parameter whose default has the type of any member, a back-tick quoted list / tuple / dict display of two or more "
                "(mixed) elements under a type that admits it, (seldom) a List-typed option with an empty / one-element / longer list "
                "display or a scalar as default and a class attribute of the bare type dict with a default (the two recorded shapes), descriptions inside the value-level guards (spec-table clause); non-trivial = distinct (IR, kind) with >= 2 parameters or a return entry "
                "on which every clause holds",
        "failures": failures,
        "histogram": dict(hist),
        "samples": [{k: c[k] for k in ("kind", "opts")} for c in cases[:5]],
    }


if __name__ == "__main__":
    import random
    import sys
    import time
    tier = sys.argv[1] if len(sys.argv) > 1 else "quick"
    seed = int(sys.argv[2]) if len(sys.argv) > 2 else 1
    t0 = time.time()
    res = oracle(random.Random(seed), tier)
    print({k: res[k] for k in ("evaluations", "distinct_nontrivial")}, "%.1fs" % (time.time() - t0))
    for k, v in sorted(res["histogram"].items()):
        if "FAIL" in k or k.startswith(("fails:", "stratum:", "spec")):
            print("   %-70s %d" % (k, v))
    bad = [f for f in res["failures"] if f["class"] is None]
    print("failures with class None:", len(bad))
    for f in bad[:int(sys.argv[3]) if len(sys.argv) > 3 else 12]:
        print("  VIOLATION", json.dumps(f, default=str)[:1500])
