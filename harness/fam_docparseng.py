"""Correspondence family `docparseng`: the numpydoc and google path of docstring_parsers.parse_docstring
(scan phase, parse phase, whole function) vs coq/model/DocParseNG.v; plus the C01 oracle for these two styles."""
import collections
import copy
from collections import OrderedDict

from common import Sym, dumps, loads, outcome, impl, is_ascii_text, run_model, unhx
import gen_text as G
import gen_ir
import irwire

NAME = "docparseng"
STYLES = ("google", "numpydoc")
FLAG_GRID = [(a, b, c, d) for a in (False, True) for b in (False, True) for c in (False, True) for d in (False, True)]


# ------------------------------------------------------------------ the implementation side
def _style_enum(name):
    return getattr(impl().docstring_parsers.Style, name)


def forced_parse(text, style, infer_type, word_wrap, emit_default_prop, emit_default_doc):
    """parse_docstring with the detected style replaced by `style` (the body of parse_docstring, lines 98-155)"""
    from functools import partial
    dp = impl().docstring_parsers
    st = _style_enum(style)
    ir = {"name": None, "type": "static", "doc": "", "params": OrderedDict(), "returns": None}
    if not text:
        return ir
    scanned = dp._scan_phase(text, style=st)
    dp._parse_phase(ir, scanned, emit_default_doc=emit_default_doc, emit_default_prop=emit_default_prop,
                    word_wrap=word_wrap, default_search_announce=None, infer_type=infer_type, style=st)
    if not emit_default_prop:
        ir.update({k: OrderedDict(map(partial(dp._remove_default_from_param, emit_default_prop=emit_default_prop),
                                      ir[k].items())) if ir[k] else ir[k] for k in ("params", "returns")})
    return ir


def detected_style(text):
    ds = impl().docstring_utils
    if any(t in text for t in ds.TOKENS.rest):
        return "rest"
    if any(t in text for t in ds.TOKENS.google):
        return "google"
    return "numpydoc"


def observed_style(text):
    """the style the REAL parse_docstring dispatches on for this text (not a re-implementation of the cascade)"""
    import fam_docparse
    return fam_docparse._style_sym(text)


# the section / field tokens of the three styles as they were when the finding `text-contains-section-token` was recorded:
# that class absorbs a text field that holds one of THESE; a field that is read as a section header of another style although
# it holds none of them is a different failure (style confusion on plain prose)
RECORDED_TOKENS = ((":param", ":cvar", ":ivar", ":var", ":type", ":return", ":rtype"),
                   ("Args:", "Kwargs:", "Raises:", "Returns:"),
                   ("Parameters\n----------", "Returns\n-------"))


def text_fields(ir):
    """the text fields the classifier inspects for section tokens: summary, prose and type of every entry"""
    out = [ir.get("doc")]
    r = (ir.get("returns") or {}).get("return_type")
    for p in list(ir["params"].values()) + ([r] if r else []):
        out += [p.get("doc"), p.get("typ")]
    return [x for x in out if isinstance(x, str)]


def holds_recorded_token(ir):
    return any(t in f for f in text_fields(ir) for group in RECORDED_TOKENS for t in group)


def _enc_scanned(sc, style):
    ds = impl().docstring_utils
    a = getattr(ds.ARG_TOKENS, style)[0]
    r = getattr(ds.RETURN_TOKENS, style)[0]
    rv = sc[r]
    if rv and all(isinstance(x, str) for x in rv):
        ret = [Sym("lines"), list(rv)]
    else:
        ret = [Sym("units"), [list(u) for u in rv]]
    aft = sc.get("scanned_afterward")
    return [sc["doc"], [list(u) for u in sc[a]], ret,
            Sym("none") if aft is None else [Sym("some"), list(aft)]]


def emit_text(ir, style, word_wrap, emit_default_doc):
    return impl().emit.docstring(copy.deepcopy(ir), docstring_format=style, word_wrap=word_wrap,
                                 emit_default_doc=emit_default_doc)


# ------------------------------------------------------------------ hand-written-style generators
SECTION_WORDS = ["Usage:", "Example:", "Examples:", "Reference:", "References:", "Notes:", "Note:", "Raises:",
                 "Yields:", "See Also:", "Attributes:"]
GOOGLE_TYPS = ["str", "int", "float", "bool", "float, optional", "int, optional", "str or int", "callable",
               "string, optional", "Tuple[float, float], optional", "iterable", "Optional[dict]", "Literal['np', 'tf']",
               "bool, optional", "dict", "List[str]", "np.ndarray", "a or b or c"]
NP_TYPS = ["str", "int", "float", "bool", "int, optional", "array_like", "Optional[bool]", "Literal['np', 'tf']",
           "Optional[dict]", "{'a', 'b'}", "np.ndarray", "dict", "List[int]", "str, optional"]


def _doc_sentence(rng):
    r = rng.random()
    d = G.prose(rng, spice=0.2)
    if r < 0.30:
        v = G.value(rng, kinds=("none", "int", "float", "bool", "str"))
        sv = repr(v) if isinstance(v, str) and rng.random() < 0.5 else str(v)
        if rng.random() < 0.3:
            sv = "`%s`" % sv
        d = d.rstrip(".,") + rng.choice([". ", ", ", " "]) + rng.choice(G.ANNOUNCE[:5]) + sv + rng.choice(["", ".", ". More."])
    elif r < 0.38:
        d = rng.choice(["(Optional) ", "Optional ", "Optional. "]) + d
    elif r < 0.42:
        d = d + " (default: %s)" % rng.choice(["1e-3", "0", "True", "(0.9, 0.999)"])
    return d


def _cont_lines(rng, indent):
    n = rng.choice([0, 0, 0, 1, 2, 3])
    return [" " * (indent + rng.choice([0, 2, 2, 4])) + G.prose(rng, spice=0.15) for _ in range(n)]


def _google_arg(rng, indent, names):
    name = G.ident(rng)
    while name in names:
        name = G.ident(rng)
    names.add(name)
    r = rng.random()
    if r < 0.06:
        name = rng.choice(["**kwargs", "kwargs", "*args", "model_kwargs"])
    head = " " * indent + name
    r = rng.random()
    if r < 0.45:
        head += " (%s)" % rng.choice(GOOGLE_TYPS)
    elif r < 0.48:
        head += rng.choice([" (int", " int)", " ()", " (", " (a) b"])
    r = rng.random()
    if r < 0.04:
        return [head]                                   # no colon at all
    if r < 0.10:
        first = head + ":"                              # nothing after the colon
    elif r < 0.15 and "(" in head:
        first = head + ": " + rng.choice(["{'none', 'mean', 'sum'}", "{'a'}", "{x}", "{'it''s', \"q\"}", "{}", "{ab}"])
    else:
        first = head + ": " + _doc_sentence(rng)
    return [first] + _cont_lines(rng, indent + 1)


def _google_returns(rng, indent):
    r = rng.random()
    ind = " " * indent
    if r < 0.35:
        return ["Returns:", ind + rng.choice(["int", "str", "Union[int, str]", "np.ndarray", "Tuple[int, int]"]) + ":",
                ind + " " + _doc_sentence(rng)]
    if r < 0.55:
        return ["Returns:", ind + G.prose(rng)]
    if r < 0.70:
        return ["Returns:", ind + "int:"]
    if r < 0.80:
        return ["Returns:", ind + "A thing:", ind + "  " + G.prose(rng), ind + "  " + G.prose(rng)]
    if r < 0.88:
        return ["Returns:", ind + "int:", ind + " first.", ind + "second"]
    if r < 0.94:
        return ["Returns:"]
    return ["Returns:", " " * (indent + 2)]


def _after_section(rng):
    w = rng.choice(SECTION_WORDS)
    n = rng.randint(0, 3)
    body = []
    for _ in range(n):
        body.append(rng.choice(["", "  ", ">>> ", "- ", "    "]) + G.prose(rng, spice=0.3))
    return [w] + body


def gen_google_hand(rng):
    lines = []
    ns = rng.choice([0, 1, 1, 2, 3])
    for i in range(ns):
        lines.append(G.prose(rng, spice=0.1))
        if rng.random() < 0.3:
            lines.append("")
    if rng.random() < 0.5:
        lines.append("")
    indent = rng.choice([0, 2, 2, 2, 4])
    has_args = rng.random() < 0.88
    names = set()
    if has_args:
        lines.append(rng.choice(["Args:", "Args:", "Args:", "Args:", "Arguments:", "Kwargs:", "  Args:"]))
        for _ in range(rng.choice([0, 1, 2, 2, 3, 5])):
            lines += _google_arg(rng, indent, names)
    r = rng.random()
    if r < 0.5:
        if rng.random() < 0.7:
            lines.append("")
        lines += _google_returns(rng, indent)
    r = rng.random()
    if r < 0.45:
        if rng.random() < 0.6:
            lines.append("")
        for _ in range(rng.choice([1, 1, 2])):
            lines += _after_section(rng)
    if rng.random() < 0.15:
        if rng.random() < 0.6:
            lines.append("")
        lines += _google_returns(rng, indent)
    text = "\n".join(lines)
    if rng.random() < 0.7:
        text += "\n"
    if rng.random() < 0.3:
        text = "\n" + text
    return text


def _numpy_arg(rng, names):
    name = G.ident(rng)
    while name in names:
        name = G.ident(rng)
    names.add(name)
    if rng.random() < 0.06:
        name = rng.choice(["**kwargs", "kwargs", "model_kwargs"])
    r = rng.random()
    if r < 0.75:
        head = "%s : %s" % (name, rng.choice(NP_TYPS))
    elif r < 0.82:
        head = "%s:%s" % (name, rng.choice(NP_TYPS))
    elif r < 0.90:
        head = name
    elif r < 0.94:
        head = name + " :"
    else:
        head = ": " + name
    out = [head]
    for _ in range(rng.choice([0, 1, 1, 1, 2, 3])):
        out.append(" " * rng.choice([4, 4, 4, 2, 8]) + _doc_sentence(rng))
    return out


def _numpy_returns(rng):
    r = rng.random()
    if r < 0.5:
        return ["Returns", "-------", rng.choice(["int", "np.ndarray", "Union[int, str]"]), "    " + _doc_sentence(rng)]
    if r < 0.65:
        return ["Returns", "-------", "int"]
    if r < 0.75:
        return ["Returns", "-------", "    " + G.prose(rng)]
    if r < 0.85:
        return ["Returns", "-------", "x : int", "    " + G.prose(rng), "y : int", "    " + G.prose(rng)]
    if r < 0.92:
        return ["Returns", "-------"]
    return ["Returns", "------", "int", "    " + G.prose(rng)]


def gen_numpy_hand(rng):
    lines = []
    for i in range(rng.choice([0, 1, 1, 2])):
        lines.append(G.prose(rng, spice=0.1))
    if rng.random() < 0.6:
        lines.append("")
    names = set()
    if rng.random() < 0.88:
        lines += ["Parameters", rng.choice(["----------", "----------", "----------", "---------", "-----------"])]
        for _ in range(rng.choice([0, 1, 2, 2, 3, 5])):
            lines += _numpy_arg(rng, names)
    if rng.random() < 0.6:
        if rng.random() < 0.8:
            lines.append("")
        lines += _numpy_returns(rng)
    if rng.random() < 0.3:
        if rng.random() < 0.8:
            lines.append("")
        w = rng.choice(["Notes", "Examples", "Raises", "See Also"])
        lines += [w, "-" * len(w)] + [rng.choice(["", ">>> ", "    "]) + G.prose(rng) for _ in range(rng.randint(0, 3))]
    if rng.random() < 0.5:
        lines.append("")
    text = "\n".join(lines)
    if rng.random() < 0.7:
        text += "\n"
    if rng.random() < 0.3:
        text = "\n" + text
    if rng.random() < 0.1:
        text = "\n".join("    " + l if l else l for l in text.split("\n"))
    return text


def _mock_texts():
    impl()
    import doctrans.tests.mocks.docstrings as M
    out = []
    for k in sorted(dir(M)):
        v = getattr(M, k)
        if k.startswith("docstring_") and isinstance(v, str) and is_ascii_text(v) and detected_style(v) != "rest":
            out.append((k, v))
    return out


def mutate_text(rng, text):
    lines = text.split("\n")
    r = rng.random()
    if not lines:
        return text
    i = rng.randrange(len(lines))
    if r < 0.25:
        del lines[i]
    elif r < 0.45:
        lines[i] = " " * rng.choice([0, 1, 2, 3, 4, 6]) + lines[i].lstrip()
    elif r < 0.60:
        lines.insert(i, rng.choice(["", "Returns:", "Args:", "Returns", "-------", "Parameters", "----------", "Usage:",
                                    "  x: y", "x : int", "    more"]))
    elif r < 0.75:
        lines = lines[:i]
    elif r < 0.85:
        lines = lines[i:]
    else:
        lines[i] = lines[i].replace(":", "", 1)
    return "\n".join(lines)


MAL_VOCAB = ["Args:", "Returns:", "Kwargs:", "Raises:", "Parameters", "----------", "Returns", "-------", "", " ", "  ",
             "    ", "x", "x:", "x: y", "  x: y", "  x (int): y", "  x (int):", "  (int): y", "x : int", "x :", ": int",
             "    doc", "  doc. Defaults to 5", "int:", "  int:", "   res.", "y (str or int): {'a', 'b'}",
             "  z (float, optional): Optional thing", "**kwargs: more", "  a_kwargs (dict): k", "\t", "\tx: y",
             "Args: x", "Returns: int", "  Returns:", "a (b", "a b): c", "Defaults to", "  q: Defaults to 'x'.",
             "Usage:", ">>> f()", "x : str", "    Defaults to None", "x : complex", "  c (complex): z"]


def gen_malformed(rng):
    n = rng.randint(0, 9)
    lines = []
    for _ in range(n):
        if rng.random() < 0.8:
            lines.append(rng.choice(MAL_VOCAB))
        else:
            lines.append(G.junk_line(rng, 20).replace("\n", " "))
    text = "\n".join(lines)
    if rng.random() < 0.5:
        text += "\n"
    return text


# ------------------------------------------------------------------ IRs as JSON-able cases
def ir_to_json(ir):
    """an IR with scalar defaults as plain JSON (floats keep their repr through a tagged pair)"""
    def pj(p):
        q = dict(p)
        if "default" in q and isinstance(q["default"], float):
            q["default"] = {"float": repr(q["default"])}
        return q
    r = ir.get("returns")
    return {"doc": ir["doc"], "params": [[k, pj(v)] for k, v in ir["params"].items()],
            "returns": None if not r else pj(r["return_type"])}


def ir_from_json(j):
    def pj(p):
        q = dict(p)
        if isinstance(q.get("default"), dict):
            q["default"] = float(q["default"]["float"])
        return q
    return {"name": None, "type": "static", "doc": j["doc"],
            "params": OrderedDict((k, pj(v)) for k, v in j["params"]),
            "returns": None if j["returns"] is None else OrderedDict((("return_type", pj(j["returns"])),))}


PERTURB_PROSE = ["", " lead.", "trail. ", "two\nlines.", "{a, b}", "{'x', 'y'}", "key:", "Optional thing.", "(Optional) x.",
                 "see Args: here.", "has :param in it.", "Returns: x.", "Defaults to 5.", "x. defaults to 3", "the defaults.",
                 "Raises: E.", "a: b.", "Parameters\n----------", "x.", "x,", "x"]
PERTURB_TYP = ["not a type", "a b", "str", "str", "Optional[str]", "", " int", "int ", "str or int", "int, optional", "Dict[str: int]", "x:", "a(b)", "Literal['a:b']", "complex",
               "dict", "Optional[dict]", "Literal['Args:']", "object"]
PERTURB_DEFAULT = ["```x```", "```x```", "'quoted'", '"dq"', "None", "```(None)```", None, 0, -3, 2.5, True, "", "a b", "x.", "```[1]```", "5"]


def perturb_ir(rng, ir):
    """leave the well-behaved shapes: awkward prose, types, names, defaults, return entries"""
    ir = copy.deepcopy(ir)
    for _ in range(rng.choice([1, 1, 2])):
        r = rng.random()
        keys = list(ir["params"])
        if r < 0.12:
            ir["doc"] = rng.choice([" " + ir["doc"], ir["doc"] + "\n", "a\n\nb.", "See Returns: x", "Args: none", ":param x",
                                    "Parameters\n----------\nfoo", "", "x\n  y", ir["doc"] + "\n\nmore."])
        elif r < 0.55 and keys:
            p = ir["params"][rng.choice(keys)]
            what = rng.choice(["doc", "doc", "typ", "default", "deldoc", "deltyp", "deldefault"])
            if what == "doc":
                p["doc"] = rng.choice(PERTURB_PROSE)
            elif what == "typ":
                p["typ"] = rng.choice(PERTURB_TYP)
            elif what == "default":
                p["default"] = rng.choice(PERTURB_DEFAULT)
            else:
                p.pop(what[3:], None)
        elif r < 0.70:
            k = rng.choice(["kwargs", "model_kwargs", "**kwargs", "xkwargs"])
            ir["params"][k] = rng.choice([{"doc": "more.", "typ": "dict"}, {"doc": "more."}, {"typ": "Optional[dict]", "default": None},
                                          {"doc": "k.", "typ": "int", "default": 5},
                                          {"doc": "k.", "typ": "Optional[dict]", "default": "```(None)```"}])
            if rng.random() < 0.5:
                ir["params"]["after_kw"] = {"doc": "x.", "typ": "int"}
        elif r < 0.90:
            rr = {}
            if rng.random() < 0.8:
                rr["typ"] = rng.choice(["int", "np.ndarray", "Args", "Returns", "x:", "Tuple[int, int]", " int"])
            if rng.random() < 0.8:
                rr["doc"] = rng.choice(PERTURB_PROSE + ["the result.", "the result."])
            if rng.random() < 0.2:
                rr["default"] = rng.choice(["```x```", 5, "y", "", "a b"])
            ir["returns"] = OrderedDict((("return_type", rr),))
        else:
            ir["returns"] = None
    return ir


# ------------------------------------------------------------------ case generation
def _flags(rng):
    return list(rng.choice(FLAG_GRID))


def gen(rng, n, tier="quick"):
    cases = []
    mocks = _mock_texts()

    def add(text, *tags):
        if not is_ascii_text(text):
            return
        r = rng.random()
        if r < 0.70:
            cases.append({"fam": NAME, "fn": "ng_parse_docstring", "args": _flags(rng) + [text], "tags": list(tags)})
        elif r < 0.85:
            st = detected_style(text)
            st = rng.choice(STYLES) if st == "rest" or rng.random() < 0.25 else st
            cases.append({"fam": NAME, "fn": "ng_parse", "args": [st] + _flags(rng) + [text], "tags": list(tags) + ["forced:" + st]})
        else:
            st = detected_style(text)
            st = rng.choice(STYLES) if st == "rest" or rng.random() < 0.25 else st
            cases.append({"fam": NAME, "fn": "ng_scan", "args": [st, text], "tags": list(tags) + ["scan:" + st]})

    # every mock once with every flag combination
    for k, v in mocks:
        if detected_style(v) == "rest":
            continue
        for fl in FLAG_GRID:
            cases.append({"fam": NAME, "fn": "ng_parse_docstring", "args": list(fl) + [v], "tags": ["mock:" + k]})
    while len(cases) < n:
        r = rng.random()
        if r < 0.12:
            ir, tags = gen_ir.gen_ir(rng, clean=rng.random() < 0.4)
            if rng.random() < 0.15:
                ir = perturb_ir(rng, ir)
            cases.append({"fam": NAME, "fn": "c01_text_ng", "args": [rng.choice(STYLES), ir_to_json(ir)],
                          "tags": ["text_of"] + [t for t in tags if t.startswith(("params:", "returns:"))]})
        elif r < 0.45:
            clean = rng.random() < 0.4
            ir, tags = gen_ir.gen_ir(rng, clean=clean)
            style = rng.choice(STYLES)
            ww, edd = rng.random() < 0.3, rng.random() < 0.75
            try:
                text = emit_text(ir, style, ww, edd)
            except Exception:  # noqa  the emitter rejects this IR (e.g. a non-str default under a str type)
                continue
            add(text, "emitted:" + style, "clean" if clean else "general", "ww:%d" % ww, "edd:%d" % edd)
        elif r < 0.62:
            add(gen_google_hand(rng), "hand:google")
        elif r < 0.78:
            add(gen_numpy_hand(rng), "hand:numpydoc")
        elif r < 0.88:
            k, v = rng.choice(mocks)
            t = v
            for _ in range(rng.choice([1, 1, 2, 3])):
                t = mutate_text(rng, t)
            add(t, "mock-mutant")
        elif r < 0.93:
            style = rng.choice(STYLES)
            ir, tags = gen_ir.gen_ir(rng)
            try:
                t = emit_text(ir, style, False, True)
            except Exception:  # noqa
                continue
            add(mutate_text(rng, t), "emitted-mutant:" + style)
        else:
            add(gen_malformed(rng), "malformed")
    # texts emitted from clean IRs whose summary / prose holds a section-header look-alike of some style (`Note:`, `Yields:`,
    # `See Also:`, `:raises E:` ...), in either style, through the whole parse_docstring (style detection included)
    for kind, ir in gen_header_word_irs(rng, max(4, n // 25)):
        style = rng.choice(STYLES)
        try:
            text = emit_text(ir, style, rng.random() < 0.2, rng.random() < 0.75)
        except Exception:  # noqa
            continue
        if is_ascii_text(text):
            cases.append({"fam": NAME, "fn": "ng_parse_docstring", "args": _flags(rng) + [text],
                          "tags": ["emitted:" + style, kind]})
    return cases


# ------------------------------------------------------------------ wire
def request(case):
    fn, a = case["fn"], case["args"]
    if fn in ("c01_text_ng", "c01_class_ng", "c01_holds_ng"):
        return dumps([Sym(fn), Sym(a[0]), irwire.enc_ir(ir_from_json(a[1]))])
    if fn == "ng_parse_docstring":
        return dumps([Sym(fn)] + a[:4] + [a[4]])
    if fn == "ng_parse":
        return dumps([Sym(fn), Sym(a[0])] + a[1:5] + [a[5]])
    if fn == "ng_scan":
        return dumps([Sym(fn), Sym(a[0]), a[1]])
    if fn == "ng_detect_style":
        return dumps([Sym(fn), a[0]])
    raise KeyError(fn)


def run_impl(case):
    m = impl()
    fn, a = case["fn"], copy.deepcopy(case["args"])
    if fn == "c01_text_ng":
        ir = ir_from_json(a[1])
        snap = copy.deepcopy(ir)
        return dumps(outcome(lambda: emit_text(ir, a[0], False, True), lambda t: t))
    if fn == "ng_parse_docstring":
        it, ww, prop, edd, text = a
        return dumps(outcome(
            lambda: m.docstring_parsers.parse_docstring(text, infer_type=it, word_wrap=ww, emit_default_prop=prop,
                                                        emit_default_doc=edd, default_search_announce=None),
            irwire.enc_ir))
    if fn == "ng_parse":
        st, it, ww, prop, edd, text = a
        return dumps(outcome(lambda: forced_parse(text, st, it, ww, prop, edd), irwire.enc_ir))
    if fn == "ng_scan":
        st, text = a
        return dumps(outcome(lambda: m.docstring_parsers._scan_phase(text, style=_style_enum(st)),
                             lambda sc: _enc_scanned(sc, st)))
    if fn == "ng_detect_style":
        return dumps(Sym(detected_style(a[0])))
    raise KeyError(fn)


def nontrivial(case):
    if case["fn"] == "c01_text_ng":
        return bool(case["args"][1]["params"])
    text = case["args"][-1]
    return any(t in text for t in ("Args:", "Returns:", "Parameters\n----------", "Returns\n-------"))


# ------------------------------------------------------------------ C01 oracle for numpydoc / google
NONE_LIKE = (None, "None", "```(None)```")


def _same_value(a, b):
    """pyval_eqb, or both spell `no value` (IR.default_eqb of C01SpecNG.v)"""
    if type(a) is type(b):
        if isinstance(a, float):
            if repr(a) == repr(b):
                return True
        elif a == b:
            return True
    na = (a is None) or (isinstance(a, str) and a in NONE_LIKE)
    nb = (b is None) or (isinstance(b, str) and b in NONE_LIKE)
    return na and nb


def _same_entry(p, q):
    out = []
    if p.get("typ") != q.get("typ"):
        out.append("typ")
    if p.get("doc") != q.get("doc"):
        out.append("doc")
    if ("default" in p) != ("default" in q):
        out.append("default-presence")
    elif "default" in p and not _same_value(p["default"], q["default"]):
        out.append("default-value")
    return out


def same_interface(ir, ir2):
    """mirror of C01SpecNG.same_interface; returns the list of differences"""
    out = []
    if ir.get("doc") != ir2.get("doc"):
        out.append("summary")
    if list(ir["params"]) != list(ir2["params"]):
        out.append("names")
    else:
        for k in ir["params"]:
            out += ["param-" + x for x in _same_entry(ir["params"][k], ir2["params"][k])]
    r1 = (ir.get("returns") or {}).get("return_type")
    r2 = (ir2.get("returns") or {}).get("return_type")
    if (r1 is None) != (r2 is None):
        out.append("returns-presence")
    elif r1 is not None:
        out += ["returns-" + x for x in _same_entry(r1, r2)]
    return sorted(set(out))


def impl_roundtrip(ir, style):
    """C01 at one (IR, style) on the real code: (holds, what)"""
    m = impl()
    try:
        text = emit_text(ir, style, False, True)
    except Exception as e:  # noqa
        return False, "emit raises " + type(e).__name__
    read_as = observed_style(text)
    if read_as != style:
        return False, "text read as " + read_as
    try:
        ir2 = m.parse.docstring(text, emit_default_doc=False)
    except Exception as e:  # noqa
        return False, "parse raises " + type(e).__name__
    diff = same_interface(ir, ir2)
    if diff:
        return False, "differs: " + ",".join(diff)
    return True, ""


def gen_oracle_irs(rng, n):
    out = []
    for _ in range(n):
        r = rng.random()
        if r < 0.40:
            ir, tags = gen_ir.gen_ir(rng, clean=True, returns=rng.choice([None, "none", "none", "both"]))
            if rng.random() < 0.5:
                ir = order_defaults_last(ir)
            kind = "clean"
        elif r < 0.75:
            ir, tags = gen_ir.gen_ir(rng)
            kind = "general"
        else:
            ir, tags = gen_ir.gen_ir(rng, clean=rng.random() < 0.7)
            ir = perturb_ir(rng, ir)
            kind = "perturbed"
        out.append((kind, ir))
    return out


def gen_header_word_irs(rng, n):
    """[(kind, ir)]: IRs of the proved shape (typed parameters, clean one-line prose, type-consistent defaults, defaulted
    parameters last) in which the summary, one parameter's prose or the prose of the return entry holds a word followed by a
    colon that looks like a section header of some docstring style (`Note:`, `Yields:`, `Example:`, `See Also:`,
    `Attributes:` ...), a bare header word, or a ReST field look-alike (`:raises E:`, `:keyword k:`)"""
    out = []
    words = G.HEADER_WORDS * 3 + G.HEADER_BARE + G.REST_FIELD_LOOKALIKES
    for _ in range(n):
        ir, _ = gen_ir.gen_ir(rng, nparams=rng.choice([1, 2, 2, 3]), clean=True, kwargs=False,
                              returns=rng.choice(["none", "none", "both"]))
        ir = order_defaults_last(ir)
        if ir["returns"]:
            # (a return entry after a defaulted parameter is a recorded finding of its own: keep these points inside the guard)
            for q in ir["params"].values():
                q.pop("default", None)
        sites = ["param"] * 3 + ["summary"] * 2 + (["return"] if ir["returns"] else [])
        site = rng.choice(sites)
        t = G.header_word_prose(rng, words=words)
        if site == "param":
            ir["params"][rng.choice(list(ir["params"]))]["doc"] = t
        elif site == "return":
            ir["returns"]["return_type"]["doc"] = t
        else:
            k = rng.random()
            lines = ir["doc"].split("\n")
            if k < 0.4:
                lines.append(t)
            elif k < 0.6:
                lines.insert(0, t)
            else:
                lines = [t]
            ir["doc"] = "\n".join(lines)
        out.append(("header-words:" + site, ir))
    return out


def order_defaults_last(ir):
    """reorder so that parameters with a default follow those without (the order Python signatures impose)"""
    ir = copy.deepcopy(ir)
    items = list(ir["params"].items())
    kw = [kv for kv in items if kv[0].endswith("kwargs")]
    rest = [kv for kv in items if not kv[0].endswith("kwargs")]
    ir["params"] = OrderedDict([kv for kv in rest if "default" not in kv[1]] + [kv for kv in rest if "default" in kv[1]] + kw)
    return ir


def oracle_ng(rng, n, style):
    """prop-module oracle format: real emitter -> real parser -> same_interface -> classify (Coq finding_class_C01_ng)"""
    pts = gen_oracle_irs(rng, n) + gen_header_word_irs(rng, max(1, n // 5))
    reqs = [dumps([Sym("c01_class_ng"), Sym(style), irwire.enc_ir(ir)]) for _, ir in pts]
    reqs2 = [dumps([Sym("c01_holds_ng"), Sym(style), irwire.enc_ir(ir)]) for _, ir in pts]
    reqs3 = [dumps([Sym("c01_scan_link_ng"), Sym(style), irwire.enc_ir(ir)]) for _, ir in pts]
    outs = run_model(reqs + reqs2 + reqs3)
    classes, mholds, links = outs[:len(pts)], outs[len(pts):2 * len(pts)], outs[2 * len(pts):]
    failures, hist, seen, disagree, samples = [], collections.Counter(), set(), [], {}
    link_checked = 0
    for (kind, ir), c, mh, lk in zip(pts, classes, mholds, links):
        ce = loads(c)
        if ce == "out-of-domain":
            hist["out-of-domain"] += 1
            continue
        cls = None if ce == "none" else unhx(ce[1])
        ok, what = impl_roundtrip(ir, style)
        if cls == "text-contains-section-token" and not holds_recorded_token(ir):
            # the classifier follows the token tables of the tree under test; the recorded finding is about the tokens recorded
            hist["section-token-class-without-recorded-token:" + ("holds" if ok else "fails")] += 1
            cls = None
            if not ok:
                what += " [no text field holds a section token of the recorded finding text-contains-section-token]"
        if kind.startswith("header-words"):
            hist[kind + ":" + ("holds" if ok else "fails") + ":" + (cls or "in-guard")] += 1
        hist[("holds" if ok else "fails") + ":" + (cls or "in-guard")] += 1
        case = {"style": style, "ir": ir_to_json(ir)}
        key = dumps(irwire.enc_ir(ir))
        if cls is None and ir["params"] and key not in seen:
            seen.add(key)
        mhe = loads(mh)
        if mhe != "unmodelled":
            m_ok = mhe == "true"
            if m_ok != ok:
                disagree.append({"case": case, "model_holds": mh, "impl_holds": ok, "what": what, "class": cls})
        else:
            hist["model-unmodelled:" + ("holds" if ok else "fails")] += 1
        if not ok:
            failures.append({"case": case, "what": what, "class": cls})
            samples.setdefault(cls or "VIOLATION", case)
        if cls is None:
            # the hypothesis of the partial theorem (scanner output = scanned_of, text over the alphabet), evaluated in
            # the model on every point inside the guard
            link_checked += 1
            if lk != "true":
                hist["scan-link-false"] += 1
                failures.append({"case": case, "what": "model: scan_ng (text_of ir) differs from scanned_of ir "
                                                       "(hypothesis of C01_ng_partial_modulo_scan)", "class": None})
    return {
        "scan_link_checked": link_checked,
        "evaluations": len(pts),
        "distinct_nontrivial": len(seen),
        "rule": "IRs from gen_ir (clean, general), perturbed shapes and clean IRs whose summary / prose holds a section-header "
                "look-alike of any style (the text must be read back as %s: the style the real parse_docstring dispatches on is "
                "observed); %s text from the real emit.docstring(word_wrap=False), "
                "read by the real parse.docstring(emit_default_doc=False), compared with same_interface; non-trivial = "
                "distinct IR with >= 1 parameter inside guard_C01_ng" % (style, style),
        "failures": failures,
        "model_impl_property_disagreements": disagree,
        "histogram": dict(hist),
        "samples": samples,
    }
