"""C08 — conversion is a normalisation that stabilises after one pass.

Oracle on the REAL code: for each kind in {rest, numpydoc, google, class, function, method, argparse} and each emitter
option combination:  t1 = emit(ir);  t2 = emit(parse(t1));  t3 = emit(parse(t2));  the property requires t2 == t3
byte for byte, and that nothing raises once t1 was produced.  Every point is classified by the extracted Coq function
C08Spec.finding_class_C08 (through the driver): None = inside the region on which the fixed point must be reached
for every option combination (then a failure is a violation), otherwise the named reason the IR falls outside."""
import ast
import collections
import copy
import difflib
import json
import os
import random
from collections import OrderedDict
from multiprocessing import Pool

from common import Sym, dumps, loads, impl, run_model, unhx
import gen_ir
import irwire
import sync_lab
import fam_defaults
import fam_docemit
import fam_docparse
import prop_C05

ID = "C08"
COQ_PROP = "C08"
import fam_docparseng  # noqa: E402  (the fixed point is reached by every kind's own emitter and parser)
import fam_emitast  # noqa: E402
import fam_parseast  # noqa: E402
import fam_parsesig  # noqa: E402

FAMILIES = [(fam_defaults, 1500, 40000), (fam_docemit, 800, 10000), (fam_docparse, 1000, 15000), (fam_docparseng, 800, 10000),
            (fam_emitast, 1000, 12000), (fam_parseast, 1000, 12000), (fam_parsesig, 800, 10000)]
TECHNIQUE = ("Coq proof of the local idempotence lemmas (quote, unquote, set_default_doc, to_docstring text a function of the "
             "interface fields, the options and indent_level only) and of the fixed-point theorem from round-trip laws (second and "
             "third emission equal by rewriting), instantiated for the ReST docstring kind from the C01 ReST theorem; the "
             "2nd-vs-3rd emission byte comparison is executed on the real emitters and parsers for every kind and every emitter "
             "option combination, classified exactly by the extracted Coq guard")
TRUSTED = [
    "the laws of the fixed-point theorem (parse_k (emit_k o i) = Ok (N i), N idempotent, the region closed under N) are hypotheses; "
    "for the ReST kind they are reduced to the C01 ReST theorem plus two stated obligations (closure of the guard, emission invariant "
    "under same_interface); for all kinds the conclusion t2 = t3 is what this oracle executes on the real code",
    "modelled, not verified: ast.unparse / ast.parse between emitter and parser of the code kinds (performed for real by the oracle)",
    "option combinations: docstring kinds word_wrap x emit_default_doc (x the parser's emit_default_doc); class word_wrap x emit_default_doc; "
    "function/method word_wrap x emit_default_doc x inline_types x emit_as_kwonlyargs x indent_level 0..2 x emit_separating_tab; "
    "argparse word_wrap x emit_default_doc x wrap_description; docstring_format of the code kinds is rest (the others raise "
    "NotImplementedError)",
]

KINDS = prop_C05.KINDS
DOC_KINDS = prop_C05.DOC_KINDS
B = (False, True)


def combos(kind):
    if kind in DOC_KINDS:
        return [{"word_wrap": w, "emit_default_doc": e, "parse_emit_default_doc": p} for w in B for e in B for p in B]
    if kind == "class":
        return [{"word_wrap": w, "emit_default_doc": e} for w in B for e in B]
    if kind == "argparse":
        return [{"word_wrap": w, "emit_default_doc": e, "wrap_description": d} for w in B for e in B for d in B]
    return [{"word_wrap": w, "emit_default_doc": e, "inline_types": i, "emit_as_kwonlyargs": k, "indent_level": n,
             "emit_separating_tab": t} for w in B for e in B for i in B for k in B for n in (0, 1, 2) for t in B]


_od = prop_C05._od


def emit(kind, ir, o):
    m = impl()
    ir = _od(ir)
    if kind in DOC_KINDS:
        return m.emit.docstring(ir, docstring_format=kind, word_wrap=o["word_wrap"], emit_default_doc=o["emit_default_doc"])
    if kind == "class":
        node = m.emit.class_(ir, class_name="ConfigClass", **o)
    elif kind == "argparse":
        node = m.emit.argparse_function(ir, function_name="set_cli_args", **o)
    else:
        node = m.emit.function(ir, function_name="f", function_type="static" if kind == "function" else "self", **o)
    return ast.unparse(ast.fix_missing_locations(node))


def parse(kind, text, o):
    m = impl()
    if kind in DOC_KINDS:
        return m.parse.docstring(text, emit_default_doc=o["parse_emit_default_doc"])
    node = ast.parse(text).body[0]
    if kind == "class":
        return m.parse.class_(node, word_wrap=o["word_wrap"])
    if kind == "argparse":
        return m.parse.argparse_ast(node)
    return m.parse.function(node, word_wrap=o["word_wrap"])


def evaluate(kind, ir, o):
    """-> (status, what): status 'skip' (no first emission), 'ok', 'raise', 'diff'"""
    try:
        t1 = emit(kind, ir, o)
    except Exception as e:  # noqa
        return "skip", "the first emission raised %s" % type(e).__name__
    stage = "parse(t1)"
    try:
        i1 = parse(kind, t1, o)
        stage = "emit(parse(t1))"
        t2 = emit(kind, i1, o)
        stage = "parse(t2)"
        i2 = parse(kind, t2, o)
        stage = "emit(parse(t2))"
        t3 = emit(kind, i2, o)
    except Exception as e:  # noqa
        return "raise", "%s raised %s: %s" % (stage, type(e).__name__, str(e)[:100])
    if t2 != t3:
        delta = list(difflib.unified_diff(t2.split("\n"), t3.split("\n"), lineterm="", n=0))[2:8]
        return "diff", "second and third emission differ: " + " | ".join(delta)[:400]
    return "ok", ""


def check_case(case):
    st, what = evaluate(case["kind"], prop_C05._from_case(case["ir"]), case["opts"])
    return st in ("ok", "skip"), what


# ------------------------------------------------------------------ the class of model/C08Spec2.v
# (the refined classifier finding_class_C08_r = finding_class_C08 where that names a class, otherwise the class below)
NEW_CLASSES = ("text-quoted-three-deep",)


def _stages(kind, ir, o):
    """(t1, i1, t2, i2, t3) on the real code, or None when anything raises"""
    try:
        t1 = emit(kind, ir, o)
        i1 = parse(kind, t1, o)
        t2 = emit(kind, i1, o)
        i2 = parse(kind, t2, o)
        return t1, i1, t2, i2, emit(kind, i2, o)
    except Exception:  # noqa
        return None


def _strip_pair(ir, qsum, qhelps):
    """a copy of the description with one outer pair of quote marks removed from the summary and from the prose of every
    parameter that is wrapped in one (what one more emission does to each of them); None when the summary (qsum) / the prose
    of a parameter named in qhelps is not wrapped in a pair of the same quote mark"""
    def cut(t):
        return t[1:-1] if isinstance(t, str) and len(t) > 2 and t[0] == t[-1] and t[0] in "'\"" else None
    exp = copy.deepcopy(ir)
    if cut(exp.get("doc")) is not None:
        exp["doc"] = cut(exp["doc"])
    elif qsum:
        return None
    for n, p in (exp.get("params") or {}).items():
        if cut(p.get("doc")) is not None:
            p["doc"] = cut(p["doc"])
        elif n in qhelps:
            return None
    if any(n not in (exp.get("params") or {}) for n in qhelps):
        return None
    return exp


def described_by_new_class(kind, ir, o, qsum, qhelps):
    """the new class stands for the failure it describes only: nothing raises, and the description the third text is emitted
    from (parse of the second emission) is the description the second text was emitted from (parse of the first emission)
    with ONE more outer pair of quote marks removed from the summary and every prose still wrapped in one (among them the
    summary / the prose of the named parameters, which were wrapped in three pairs or more) and nothing else changed - as descriptions (summary, names, order, types, prose, defaults with their Python type) and as emitted text (the
    third emission is the emission of that stripped description).  Every other difference is not what the class describes"""
    st = _stages(kind, ir, o)
    if st is None:
        return False
    _, i1, t2, i2, t3 = st
    exp = _strip_pair(i1, qsum, qhelps)
    if exp is None or t2 == t3:
        return False
    J = prop_C05._jsonable
    if json.dumps(J(exp), default=str) != json.dumps(J(i2), default=str):
        return False
    try:
        return emit(kind, exp, o) == t3
    except Exception:  # noqa
        return False


def _absorb(failures):
    """failures reported under the NEW class keep it only when the failure is what the class describes (otherwise class None:
    a violation)"""
    idx = [k for k, f in enumerate(failures) if f["class"] in NEW_CLASSES]
    reqs = [dumps([Sym("c08_new_classes"), Sym(failures[k]["case"]["kind"]),
                   irwire.enc_ir(_od(prop_C05._from_case(failures[k]["case"]["ir"])))]) for k in idx]
    hist = collections.Counter()
    for k, r in zip(idx, run_model(reqs)):
        e = loads(r)
        f = failures[k]
        c = f["case"]
        if not (e[0] == "true" and described_by_new_class(c["kind"], prop_C05._from_case(c["ir"]), c["opts"], e[1] == "true",
                                                          [unhx(x) for x in e[2]])):
            f["what"] += " [not what the recorded class %s describes]" % f["class"]
            hist["new-class-not-described:" + f["class"]] += 1
            f["class"] = None
    return hist


def new_shape_ir(rng):
    """a description inside the region of the argparse kind given one of the shapes proofs found inside the first
    classifiers' regions: the summary and / or the prose of a parameter wrapped in 1..4 pairs of single quote marks (one and
    two pairs stabilise, three or more do not), or a float default -0.0 (stabilises as 0.0 after one pass through the class
    kind)"""
    ir, _ = prop_C05.region_ir(rng, ["argparse"])
    names = list(ir["params"])
    if not names:
        names = ["x"]
        ir["params"]["x"] = {"typ": "int", "doc": "the x.", "default": 1}
    shape = rng.choice(["quoted-summary", "quoted-summary", "quoted-prose", "quoted-prose", "quoted-both", "negzero"])
    depth = rng.choice([1, 2, 3, 3, 3, 4])
    if shape in ("quoted-summary", "quoted-both"):
        ir["doc"] = prop_C05.sq_text(rng, depth, terminal=rng.random() < 0.3)
    if shape in ("quoted-prose", "quoted-both"):
        ir["params"][rng.choice(names)]["doc"] = prop_C05.sq_text(rng, depth if shape == "quoted-prose" else rng.randint(1, 4),
                                                                   terminal=rng.random() < 0.5)
    if shape == "negzero":
        p = ir["params"][rng.choice(names)]
        p["typ"], p["default"] = rng.choice(["float", "float", "Optional[float]"]), -0.0
    return ir, ["region", "new-shape", shape if shape == "negzero" else "%s:%d" % (shape, depth)]


def gen_points(rng, tier):
    pts = []
    side = prop_C05._side_rng(rng)
    n_ir = 500 if tier == "quick" else 1500
    for _ in range(n_ir):
        r = rng.random()
        if r < 0.15:
            ir, tags = sync_lab.safe_ir(rng, with_returns=rng.random() < 0.3), ["safe_ir"]
        elif r < 0.5:
            ir, tags = gen_ir.gen_ir(rng, clean=rng.random() < 0.3)
            tags = ["gen_ir"] + [t for t in tags if t.startswith(("params:", "returns:"))]
        elif r < 0.75:
            ir, tags = prop_C05.near_ir(rng)
        else:
            ir, tags = prop_C05.region_ir(rng, [rng.choice(KINDS)])
        for kind in KINDS:
            cs = combos(kind)
            if tier == "quick":
                cs = rng.sample(cs, min(len(cs), 4 if kind in ("function", "method") else 3))
            elif kind in ("function", "method"):
                cs = rng.sample(cs, 24)
            for o in cs:
                pts.append((ir, kind, o, tags))
    # the shapes of new_shape_ir: about one description in twenty, every kind (quick: 3-4 option combinations each)
    for _ in range(28 if tier == "quick" else 80):
        ir, tags = new_shape_ir(side)
        for kind in KINDS:
            cs = combos(kind)
            if tier == "quick":
                cs = side.sample(cs, min(len(cs), 4 if kind in ("function", "method") else 3))
            elif kind in ("function", "method"):
                cs = side.sample(cs, 24)
            for o in cs:
                pts.append((ir, kind, o, tags))
    if tier == "thorough":
        # every option combination of every kind on descriptions inside the region of that kind
        for kind in KINDS:
            for _ in range(12):
                ir, tags = prop_C05.region_ir(rng, [kind])
                for o in combos(kind):
                    pts.append((ir, kind, o, tags))
    return pts


def _work(chunk):
    return [evaluate(kind, ir, o) for ir, kind, o in chunk]


def oracle(rng, tier):
    pts = gen_points(rng, tier)
    # classification: one request per distinct (kind, description)
    key_of, reqs, keys = {}, [], []
    for ir, kind, o, _ in pts:
        k = (kind, id(ir))
        if k in key_of:
            continue
        try:
            w = dumps([Sym("c08_class_r"), Sym(kind), irwire.enc_ir(_od(ir))])
        except Exception:  # noqa
            key_of[k] = "unencodable"
            continue
        key_of[k] = None
        reqs.append(w)
        keys.append(k)
    for k, r in zip(keys, run_model(reqs)):
        e = loads(r)
        key_of[k] = ("out-of-domain",) if e == "out-of-domain" else ((None,) if e == "none" else (unhx(e[1]),))
    nproc = max(1, min(12, (os.cpu_count() or 2) - 1))
    work = [(ir, kind, o) for ir, kind, o, _ in pts]
    size = max(1, len(work) // (nproc * 8))
    chunks = [work[i:i + size] for i in range(0, len(work), size)]
    impl()
    if nproc > 1:
        with Pool(nproc) as pool:
            results = [r for ch in pool.map(_work, chunks) for r in ch]
    else:
        results = [r for ch in map(_work, chunks) for r in ch]
    failures, hist, seen, disagree = [], collections.Counter(), set(), []
    model_reqs, model_idx = [], []
    evaluations = 0
    for (ir, kind, o, tags), (st, what) in zip(pts, results):
        c = key_of[(kind, id(ir))]
        if c == "unencodable" or c == ("out-of-domain",):
            hist["out-of-domain"] += 1
            continue
        cls = c[0]
        if st == "skip":
            hist["no-first-emission:" + (cls or "in-region")] += 1
            if cls is None:
                failures.append({"case": {"kind": kind, "ir": prop_C05._jsonable(ir), "opts": o},
                                 "what": "inside the region but " + what, "class": None})
            continue
        evaluations += 1
        ok = st == "ok"
        case = {"kind": kind, "ir": prop_C05._jsonable(ir), "opts": o}
        hist[kind + ":" + ("holds" if ok else "fails") + ":" + (cls or "in-region")] += 1
        if cls is None:
            seen.add(json.dumps(case, sort_keys=True, default=str))
        if not ok:
            failures.append({"case": case, "what": what, "class": cls})
        # the ReST kind over the models (emit: word_wrap off, default sentences on; parse: sentences read back out)
        if kind == "rest" and o == {"word_wrap": False, "emit_default_doc": True, "parse_emit_default_doc": False}:
            model_reqs.append(dumps([Sym("c08_holds_rest"), irwire.enc_ir(_od(ir))]))
            model_idx.append((case, ok))
    for (case, ok), r in zip(model_idx, run_model(model_reqs)):
        if r in ("true", "false") and (r == "true") != ok:
            disagree.append({"case": case, "model_holds": r, "impl_holds": ok})
        hist["rest-model:" + r] += 1
    hist.update(_absorb(failures))
    for (ir, kind, o, tags), (st, what) in zip(pts, results):
        c = key_of[(kind, id(ir))]
        if "new-shape" in tags and isinstance(c, tuple) and c != ("out-of-domain",):
            hist["new-shapes:%s:%s:%s:%s" % (tags[-1], kind, "holds" if st in ("ok", "skip") else "fails", c[0] or "in-region")] += 1
    return {
        "evaluations": evaluations,
        "distinct_nontrivial": len(seen),
        "rule": "interface descriptions (sync_lab.safe_ir with and without return entry, gen_ir general and clean, the near-region "
                "generator of prop_C05, descriptions inside the region) x the seven kinds x emitter option combinations (quick: 3-4 "
                "sampled per kind; thorough: all for docstring / class / argparse kinds, 24 of 96 for function and method, and all 96 on "
                "in-region descriptions); t1 = emit, t2 = emit(parse(t1)), t3 = emit(parse(t2)) on the real code; holds = nothing raises "
                "after t1 and t2 == t3 byte for byte; non-trivial = distinct (kind, description, options) inside the guard; "
                "classification by the refined classifier C08Spec2.finding_class_C08_r; a stratum of the shapes proofs found inside "
                "the first classifiers' regions (summary / prose wrapped in one to four pairs of single quote marks, a float default "
                "-0.0) on every kind; the new class stands only for the difference it describes (the description parsed from the "
                "second emission is the one parsed from the first with one more pair of quote marks removed, nothing else changed)",
        "failures": failures,
        "model_impl_property_disagreements": disagree,
        "histogram": dict(hist),
        "samples": [{"kind": pts[i][1], "ir": prop_C05._jsonable(pts[i][0]), "opts": pts[i][2]} for i in range(0, min(len(pts), 4000), 500)],
        "exhaustive": False,
    }


if __name__ == "__main__":
    import sys
    import time
    tier = sys.argv[1] if len(sys.argv) > 1 else "quick"
    seed = int(sys.argv[2]) if len(sys.argv) > 2 else 1
    t0 = time.time()
    res = oracle(random.Random(seed), tier)
    print({k: res[k] for k in ("evaluations", "distinct_nontrivial")}, "%.1fs" % (time.time() - t0))
    agg = collections.Counter()
    for k, v in res["histogram"].items():
        agg[k.split(":", 1)[1] if k.split(":")[0] in KINDS else k] += v
    for k, v in sorted(agg.items()):
        print("   %-60s %d" % (k, v))
    bad = [f for f in res["failures"] if f["class"] is None]
    print("failures with class None:", len(bad), " disagreements:", len(res["model_impl_property_disagreements"]))
    for f in bad[:8]:
        print("  VIOLATION", json.dumps(f, default=str)[:1200])
    for d in res["model_impl_property_disagreements"][:6]:
        print("  DISAGREE", json.dumps(d, default=str)[:1200])
    if len(sys.argv) > 3:
        wit = {}
        for f in res["failures"]:
            if f["class"] is None:
                continue
            size = len(json.dumps(f["case"], default=str))
            if f["class"] not in wit or size < wit[f["class"]][0]:
                wit[f["class"]] = (size, f)
        json.dump({k: v[1] for k, v in wit.items()}, open(sys.argv[3], "w"), indent=1, default=str)
