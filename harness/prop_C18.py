"""C18 - word-wrapping and line-length configuration are semantically transparent.

Oracle on the implementation: for every width in the sweep (the variable is read at import, so each width runs in
its own child process), for generated IRs whose summaries / prose / types are shorter than, about equal to and much
longer than the width, every emitter (emit.docstring x3, emit.class_, emit.function, emit.argparse_function) is run
with word_wrap on and off and the artefact parsed back; the two parsed interfaces must agree (names, order, types,
defaults with their Python type, return entry; prose modulo runs of whitespace).  An input on which the UNWRAPPED
pipeline itself raises is outside the property (it is some other property's finding) and counted as `baseline`.
Failures are classified by the extracted Coq classifier C18Spec.finding_class_C18 (w, emitter, ir)."""
import ast
import collections
import copy
import json
import os
import subprocess
import sys

HERE = os.path.dirname(os.path.abspath(__file__))
if HERE not in sys.path:
    sys.path.insert(0, HERE)

from common import Sym, dumps, loads, impl, run_model, unhx, VENV_PY, REPO  # noqa: E402
import gen_text as G  # noqa: E402
import gen_ir  # noqa: E402
import irwire  # noqa: E402
import fam_docemit  # noqa: E402

ID = "C18"
COQ_PROP = "C18"
FAMILIES = [(fam_docemit, 2500, 30000)]
TECHNIQUE = ("Coq proof (model of pure_utils.fill = textwrap.fill without long-word / hyphen breaking: every line fits or "
             "is a single over-long word, word preservation, clean line edges, for every width and unbounded text; ReST "
             "prose re-join transparency; whole-docstring word preservation in three styles; byte-identity of wrapped and "
             "unwrapped docstrings when nothing needs wrapping) + differential correspondence of DocEmit.v/Fill.v against "
             "the emitters at the default width in-process and at six other widths in child processes + oracle sweep "
             "over widths")
TRUSTED = [
    "Fill.v models pure_utils.fill (textwrap.fill, break_long_words=False, break_on_hyphens=False) on text without "
    "tabs; tab expansion is column dependent and declined (oracle inputs with a tab are skipped as unmodelled)",
    "the parsers (doctrans.parse.*, docstring_parsers) are not modelled by this layer: parse-level transparency is "
    "established by the oracle sweep, and by proof only where wrapped and unwrapped text are byte-identical",
    "finding_class_C18 is a syntactic over-approximation of the inputs whose wrapping is not transparent "
    "(documented in coq/model/C18Spec.v), evaluated through the extracted driver",
]
EMITTERS = ["docstring-rest", "docstring-numpydoc", "docstring-google", "class", "function", "argparse"]
WIDTHS_QUICK = [None, 20, 40, 60, 79, 80, 100, 120, 200]
WIDTHS_THOROUGH = [None, 12, 16, 20, 25, 30, 35, 40, 50, 60, 70, 79, 80, 90, 100, 110, 120, 150, 200, 300]


# ------------------------------------------------------------------ evaluation of the property (runs in a child)
def norm_ws(s):
    return None if s is None else " ".join(s.split())


def iface(ir):
    def par(p):
        d = dict(p)
        out = {"typ": d.get("typ"), "doc": norm_ws(d.get("doc")), "has_default": "default" in d}
        if "default" in d:
            v = d["default"]
            out["default"] = [type(v).__name__, ast.dump(v) if isinstance(v, ast.AST) else repr(v)]
        return out
    return {"doc": norm_ws(ir.get("doc")),
            "params": [[k, par(v)] for k, v in (ir.get("params") or {}).items()],
            "returns": [[k, par(v)] for k, v in (ir.get("returns") or {}).items()]}


def _emitters():
    m = impl()
    E, P = m.emit, m.parse
    tbl = {}
    for st in ("rest", "numpydoc", "google"):
        tbl["docstring-" + st] = ((lambda ir, ww, st=st: E.docstring(ir, docstring_format=st, word_wrap=ww)),
                                  (lambda t: P.docstring(t)))
    tbl["class"] = ((lambda ir, ww: E.class_(ir, word_wrap=ww)), (lambda n: P.class_(n)))
    tbl["function"] = ((lambda ir, ww: E.function(ir, function_name="f", function_type="static", word_wrap=ww)),
                       (lambda n: P.function(n)))
    tbl["argparse"] = ((lambda ir, ww: E.argparse_function(ir, word_wrap=ww)), (lambda n: P.argparse_ast(n)))
    return tbl


def _diff(a, b):
    """first difference between two interfaces, as text"""
    if a["doc"] != b["doc"]:
        return "summary: %r vs %r" % (a["doc"], b["doc"])
    na, nb = [k for k, _ in a["params"]], [k for k, _ in b["params"]]
    if na != nb:
        return "parameter names: %r vs %r" % (na, nb)
    for (k, x), (_, y) in zip(a["params"] + a["returns"], b["params"] + b["returns"]):
        for f in ("typ", "doc", "has_default", "default"):
            if x.get(f) != y.get(f):
                return "%s.%s: %r vs %r" % (k, f, x.get(f), y.get(f))
    if a["returns"] != b["returns"]:
        return "returns: %r vs %r" % (a["returns"], b["returns"])
    return "?"


def eval_ir(ir, emitters=None):
    """-> [(emitter, status, what, wrapping_changed_artefact)], status in ok / fail / baseline"""
    res = []
    tbl = _emitters()
    for name in emitters or EMITTERS:
        emit, parse = tbl[name]
        r, arts = {}, {}
        for ww in (True, False):
            try:
                art = emit(fam_docemit._od(ir), ww)
            except Exception as e:  # noqa
                r[ww] = ("emit-raised", type(e).__name__)
                continue
            arts[ww] = art if isinstance(art, str) else ast.dump(art)
            try:
                r[ww] = ("ok", iface(parse(art)))
            except Exception as e:  # noqa
                r[ww] = ("parse-raised", type(e).__name__)
        a, b = r[True], r[False]
        changed = arts.get(True) != arts.get(False)
        if b[0] != "ok":
            res.append((name, "baseline", "unwrapped pipeline: %s %s" % b[:2], changed))
        elif a[0] != "ok":
            res.append((name, "fail", "wrapped %s %s, unwrapped parses" % a[:2], changed))
        elif a[1] == b[1]:
            res.append((name, "ok", "", changed))
        else:
            res.append((name, "fail", "wrapped vs unwrapped " + _diff(a[1], b[1]), changed))
    return res


def _child_main():
    m = impl()
    sys.stdout.write(json.dumps({"line_length": m.pure_utils.line_length}) + "\n")
    sys.stdout.flush()
    for line in sys.stdin:
        req = json.loads(line)
        try:
            out = eval_ir(req["ir"], req.get("emitters"))
        except Exception as e:  # noqa
            out = [("*", "harness-exception", type(e).__name__ + ": " + str(e)[:200], False)]
        sys.stdout.write(json.dumps(out) + "\n")
        sys.stdout.flush()


def run_width(width, reqs):
    """evaluate a batch in one child process started at that width; returns the list of per-IR results"""
    env = dict(os.environ)
    env.update({"PYTHONPATH": REPO, "PYTHONHASHSEED": "0", "PYTHONDONTWRITEBYTECODE": "1"})
    env.pop("DOCTRANS_LINE_LENGTH", None)
    if width is not None:
        env["DOCTRANS_LINE_LENGTH"] = str(width)
    data = "".join(json.dumps(r) + "\n" for r in reqs)
    p = subprocess.Popen([VENV_PY, os.path.abspath(__file__), "--child"], stdin=subprocess.PIPE,
                         stdout=subprocess.PIPE, env=env, text=True)
    return p, data


def collect(p, data, width, n):
    out, _ = p.communicate(data, timeout=3000)
    lines = out.split("\n")
    hello = json.loads(lines[0])
    assert hello["line_length"] == (100 if width is None else width), (hello, width)
    res = [json.loads(x) for x in lines[1:] if x]
    assert len(res) == n, "child for width %r answered %d of %d" % (width, len(res), n)
    return res


# ------------------------------------------------------------------ inputs
def gen_input(rng, width):
    w = width or 100
    clean = rng.random() < 0.6
    ir, tags = gen_ir.gen_ir(rng, clean=clean)
    tags = ["clean" if clean else "general"]
    r = rng.random()
    if r < 0.55:
        ir = fam_docemit.stretch_ir(rng, ir, w)
        tags.append("stretched")
    elif r < 0.70:
        # prose of exactly the width, one less, one more (the ":param name: " prefix counted)
        for name, p in ir["params"].items():
            if p.get("doc"):
                target = max(1, w + rng.choice([-1, 0, 1]) - len(":param %s: " % name))
                d = fam_docemit.long_prose(rng, max(2, w // 5), max(3, w // 4))
                while len(d) < target:
                    d = d[:-1] + " " + G.word(rng) + "."
                p["doc"] = d[:target - 1].rstrip() + "."
        tags.append("at-width")
    ps = list(ir["params"].values())
    r = rng.random()
    if ps and r < 0.06:
        rng.choice(ps)["doc"] = "see https://example.com/" + "a/very/long/path" * rng.randint(1, 5) + " for details."
        tags.append("long-word")
    elif ps and r < 0.12:
        rng.choice(ps)["doc"] = rng.choice(["a well-known value of the thing that is used in the model for the data.",
                                             "use the pre-trained weights when the value is given and then the list.",
                                             "non-negative number of items per step."])
        tags.append("hyphen")
    return json.loads(json.dumps(ir)), tags


def classify(points):
    """points: [(width, emitter, ir)] -> class name or None, via the extracted Coq classifier"""
    reqs = [dumps([Sym("c18_class"), (100 if w is None else w), Sym(e), irwire.enc_ir(fam_docemit._od(ir))])
            for w, e, ir in points]
    out = []
    for r in run_model(reqs):
        e = loads(r)
        out.append(None if e == "none" else unhx(e[1]))
    return out


def check_case(case):
    """replay one witness {width, emitter, ir}"""
    if "ir" not in case:
        return True, ""
    p, data = run_width(case.get("width"), [{"ir": case["ir"], "emitters": [case["emitter"]]}])
    res = collect(p, data, case.get("width"), 1)[0]
    name, status, what, _ = res[0]
    return status != "fail", what


def oracle(rng, tier):
    widths = WIDTHS_QUICK if tier == "quick" else WIDTHS_THOROUGH
    n = 110 if tier == "quick" else 350
    batches = {}
    for w in widths:
        batches[w] = [gen_input(rng, w) for _ in range(n)]
    procs = {w: run_width(w, [{"ir": ir} for ir, _ in batches[w]]) for w in widths}
    results = {w: collect(procs[w][0], procs[w][1], w, n) for w in widths}
    points, meta = [], []
    for w in widths:
        for (ir, tags), res in zip(batches[w], results[w]):
            for name, status, what, changed in res:
                points.append((w, name, ir))
                meta.append((w, name, ir, tags, status, what, changed))
    classes = classify(points)
    failures, hist, seen = [], collections.Counter(), set()
    for (w, name, ir, tags, status, what, changed), cls in zip(meta, classes):
        wl = "unset" if w is None else str(w)
        hist["%s:%s:%s" % (name, status, cls or "in-guard")] += 1
        hist["width:%s:%s" % (wl, status)] += 1
        if status == "harness-exception":
            failures.append({"case": {"width": w, "emitter": name, "ir": ir}, "what": what, "class": None})
            continue
        if status == "baseline":
            continue
        if cls == "unmodelled":
            hist["skipped-unmodelled:" + status] += 1
            continue
        if status == "ok" and cls is None and changed:
            seen.add(dumps([wl, name, json.dumps(ir, sort_keys=True)]))
        if status == "fail":
            failures.append({"case": {"width": w, "emitter": name, "ir": ir}, "what": what, "class": cls})
    return {
        "evaluations": len(points),
        "distinct_nontrivial": len(seen),
        "rule": "widths %s x word_wrap on/off x generated IRs (gen_ir clean and general; prose/summaries/types stretched "
                "to below, at and far above the width; words longer than the width and hyphenated words seeded) x six emitters, one child "
                "process per width; non-trivial = distinct (width, emitter, IR) inside the guard on which wrapping changed "
                "the artefact and both pipelines parsed to the same interface" % (["unset" if w is None else w for w in widths],),
        "failures": failures,
        "histogram": dict(hist),
        "samples": [{"width": w, "emitter": name, "ir": ir} for (w, name, ir, _, _, _, _) in meta[:40:8]],
    }


if __name__ == "__main__":
    if "--child" in sys.argv:
        _child_main()
    else:
        import random
        from common import DEFAULT_SEED
        tier = sys.argv[1] if len(sys.argv) > 1 else "quick"
        o = oracle(random.Random(int(os.environ.get("VERIF_SEED") or DEFAULT_SEED)), tier)
        print("evaluations", o["evaluations"], "nontrivial", o["distinct_nontrivial"], "failures", len(o["failures"]))
        by = collections.Counter(f["class"] or "UNCLASSIFIED" for f in o["failures"])
        print(dict(by))
        print({k: v for k, v in sorted(o["histogram"].items()) if not k.startswith("width:")})
        shown = collections.Counter()
        for f in o["failures"]:
            k = (f["class"], f["case"]["emitter"])
            shown[k] += 1
            if f["class"] is None and shown[k] <= int(os.environ.get("SHOW", "3")):
                print(json.dumps(f)[:1500])
