"""C18 - word-wrapping and line-length configuration are semantically transparent.

Oracle on the implementation: for every width in the sweep (the variable is read at import, so each width runs in
its own child process), for generated IRs whose summaries / prose / types are shorter than, about equal to and much
longer than the width, every emitter (emit.docstring x3, emit.class_, emit.function, emit.argparse_function) is run
with word_wrap on and off and the artefact parsed back; the two parsed interfaces must agree (names, order, types,
defaults with their Python type, return entry; prose modulo runs of whitespace).  An input on which the UNWRAPPED
pipeline itself raises is outside the property (it is some other property's finding) and counted as `baseline`.
Failures are classified by the extracted Coq classifier C18Spec.finding_class_C18 (w, emitter, ir).

Besides the six default-option pairs the oracle runs the option variants of the AST emitters (VARIANTS: emit.class_ /
emit.function / emit.argparse_function with emit_default_doc=True, emit.function with inline_types=False, i.e. with the
types carried by the docstring, and both together), each read back by its own parser.  The Coq classifier knows the six
default-option emitters; a variant is classified by the queries that describe the lines its docstring is made of
(variant_queries).  Two input streams: (1) per width of a short list, many random IRs; (2) the dense sweep: a few IRs
(typed parameters with defaults, prose of every length, types with blanks inside quoted Literal members) evaluated
at EVERY width of a range with every pair - the property quantifies over widths and a break position that matters
(inside a quoted choice, inside a default sentence, right after a token that ends in a hyphen or another punctuation
character: gen_text.edge_prose, tag edge-punct, in both streams) is hit by a few widths only."""
import ast
import collections
import copy
import json
import os
import subprocess
import sys

HERE = os.path.dirname(os.path.abspath(__file__))
if HERE not in sys.path:
    sys.path.insert(0, HERE)

from common import Sym, dumps, loads, impl, run_model, unhx, VENV_PY, REPO  # noqa: E402
import gen_text as G  # noqa: E402
import gen_ir  # noqa: E402
import irwire  # noqa: E402
import fam_docemit  # noqa: E402

ID = "C18"
COQ_PROP = "C18"
FAMILIES = [(fam_docemit, 2500, 30000)]
TECHNIQUE = ("Coq proof (model of pure_utils.fill = textwrap.fill without long-word / hyphen breaking: every line fits or "
             "is a single over-long word, word preservation, clean line edges, for every width and unbounded text; ReST "
             "prose re-join transparency; whole-docstring word preservation in three styles; byte-identity of wrapped and "
             "unwrapped docstrings when nothing needs wrapping) + differential correspondence of DocEmit.v/Fill.v against "
             "the emitters at the default width in-process and at six other widths in child processes + oracle sweep "
             "over widths")
TRUSTED = [
    "Fill.v models pure_utils.fill (textwrap.fill, break_long_words=False, break_on_hyphens=False) on text without "
    "tabs; tab expansion is column dependent and declined (oracle inputs with a tab are skipped as unmodelled)",
    "the parsers (doctrans.parse.*, docstring_parsers) are not modelled by this layer: parse-level transparency is "
    "established by the oracle sweep, and by proof only where wrapped and unwrapped text are byte-identical",
    "finding_class_C18 is a syntactic over-approximation of the inputs whose wrapping is not transparent "
    "(documented in coq/model/C18Spec.v), evaluated through the extracted driver",
]
EMITTERS = ["docstring-rest", "docstring-numpydoc", "docstring-google", "class", "function", "argparse"]
# option variants of the AST emitters: name -> keyword arguments of the emitter that differ from the defaults
VARIANTS = collections.OrderedDict([
    ("class+defaults", {"emit_default_doc": True}),
    ("function+doctypes", {"inline_types": False}),
    ("function+defaults", {"emit_default_doc": True}),
    ("function+doctypes+defaults", {"inline_types": False, "emit_default_doc": True}),
    ("argparse+defaults", {"emit_default_doc": True}),
])
ALL_PAIRS = EMITTERS + list(VARIANTS)
SWEEP_QUICK = (list(range(40, 141)), 6)       # (widths, number of IRs): every width, few IRs
SWEEP_THOROUGH = (list(range(20, 201)), 16)
MAX_CHILDREN = 12
WIDTHS_QUICK = [None, 20, 40, 60, 79, 80, 100, 120, 200]
WIDTHS_THOROUGH = [None, 12, 16, 20, 25, 30, 35, 40, 50, 60, 70, 79, 80, 90, 100, 110, 120, 150, 200, 300]


# ------------------------------------------------------------------ evaluation of the property (runs in a child)
def norm_ws(s):
    return None if s is None else " ".join(s.split())


def iface(ir):
    def par(p):
        d = dict(p)
        out = {"typ": d.get("typ"), "doc": norm_ws(d.get("doc")), "has_default": "default" in d}
        if "default" in d:
            v = d["default"]
            out["default"] = [type(v).__name__, ast.dump(v) if isinstance(v, ast.AST) else repr(v)]
        return out
    return {"doc": norm_ws(ir.get("doc")),
            "params": [[k, par(v)] for k, v in (ir.get("params") or {}).items()],
            "returns": [[k, par(v)] for k, v in (ir.get("returns") or {}).items()]}


def _emitters():
    m = impl()
    E, P = m.emit, m.parse
    tbl = {}
    for st in ("rest", "numpydoc", "google"):
        tbl["docstring-" + st] = ((lambda ir, ww, st=st: E.docstring(ir, docstring_format=st, word_wrap=ww)),
                                  (lambda t: P.docstring(t)))
    for name in ["class", "function", "argparse"] + list(VARIANTS):
        kw = dict(VARIANTS.get(name, {}))
        base = name.split("+")[0]
        if base == "class":
            tbl[name] = ((lambda ir, ww, kw=kw: E.class_(ir, word_wrap=ww, **kw)), (lambda n: P.class_(n)))
        elif base == "function":
            tbl[name] = ((lambda ir, ww, kw=kw: E.function(ir, function_name="f", function_type="static", word_wrap=ww, **kw)),
                         (lambda n: P.function(n)))
        else:
            tbl[name] = ((lambda ir, ww, kw=kw: E.argparse_function(ir, word_wrap=ww, **kw)), (lambda n: P.argparse_ast(n)))
    return tbl


def _squeeze_types(face):
    """the interface with every run of whitespace in the type strings collapsed to one blank: what is left to compare
    once the documented effect of a wrapped :type line (newline + indent inside the type string read back, in the place
    of a blank) is put aside.  (Removing the blanks altogether, as this used to do, also hid a reader that joins the
    wrapped lines of a type WITHOUT the blank - 'download andprepare' - seeded change C18-14.)"""
    f = copy.deepcopy(face)
    for _, d in f["params"] + f["returns"]:
        if isinstance(d.get("typ"), str):
            d["typ"] = " ".join(d["typ"].split())
    return f


def _diff(a, b):
    """first difference between two interfaces, as text"""
    if a["doc"] != b["doc"]:
        return "summary: %r vs %r" % (a["doc"], b["doc"])
    na, nb = [k for k, _ in a["params"]], [k for k, _ in b["params"]]
    if na != nb:
        return "parameter names: %r vs %r" % (na, nb)
    for (k, x), (_, y) in zip(a["params"] + a["returns"], b["params"] + b["returns"]):
        for f in ("typ", "doc", "has_default", "default"):
            if x.get(f) != y.get(f):
                return "%s.%s: %r vs %r" % (k, f, x.get(f), y.get(f))
    if a["returns"] != b["returns"]:
        return "returns: %r vs %r" % (a["returns"], b["returns"])
    return "?"


def eval_ir(ir, emitters=None):
    """-> [(emitter, status, what, wrapping_changed_artefact, symptom)], status in ok / fail / baseline;
    symptom of a failure: "type-blanks" when the two interfaces differ only by blanks inside type strings, else "other" """
    res = []
    tbl = _emitters()
    for name in emitters or EMITTERS:
        emit, parse = tbl[name]
        r, arts = {}, {}
        for ww in (True, False):
            try:
                art = emit(fam_docemit._od(ir), ww)
            except Exception as e:  # noqa
                r[ww] = ("emit-raised", type(e).__name__)
                continue
            arts[ww] = art if isinstance(art, str) else ast.dump(art)
            try:
                r[ww] = ("ok", iface(parse(art)))
            except Exception as e:  # noqa
                r[ww] = ("parse-raised", type(e).__name__)
        a, b = r[True], r[False]
        changed = arts.get(True) != arts.get(False)
        if b[0] != "ok":
            res.append((name, "baseline", "unwrapped pipeline: %s %s" % b[:2], changed, ""))
        elif a[0] != "ok":
            res.append((name, "fail", "wrapped %s %s, unwrapped parses" % a[:2], changed, "other"))
        elif a[1] == b[1]:
            res.append((name, "ok", "", changed, ""))
        else:
            res.append((name, "fail", "wrapped vs unwrapped " + _diff(a[1], b[1]), changed,
                        "type-blanks" if _squeeze_types(a[1]) == _squeeze_types(b[1]) else "other"))
    return res


def _child_main():
    m = impl()
    sys.stdout.write(json.dumps({"line_length": m.pure_utils.line_length}) + "\n")
    sys.stdout.flush()
    for line in sys.stdin:
        req = json.loads(line)
        try:
            out = eval_ir(req["ir"], req.get("emitters"))
        except Exception as e:  # noqa
            out = [("*", "harness-exception", type(e).__name__ + ": " + str(e)[:200], False, "")]
        sys.stdout.write(json.dumps(out) + "\n")
        sys.stdout.flush()


def run_width(width, reqs):
    """evaluate a batch in one child process started at that width; returns the list of per-IR results"""
    env = dict(os.environ)
    env.update({"PYTHONPATH": REPO, "PYTHONHASHSEED": "0", "PYTHONDONTWRITEBYTECODE": "1"})
    env.pop("DOCTRANS_LINE_LENGTH", None)
    if width is not None:
        env["DOCTRANS_LINE_LENGTH"] = str(width)
    data = "".join(json.dumps(r) + "\n" for r in reqs)
    p = subprocess.Popen([VENV_PY, os.path.abspath(__file__), "--child"], stdin=subprocess.PIPE,
                         stdout=subprocess.PIPE, env=env, text=True)
    return p, data


def collect(p, data, width, n):
    out, _ = p.communicate(data, timeout=3000)
    lines = out.split("\n")
    hello = json.loads(lines[0])
    assert hello["line_length"] == (100 if width is None else width), (hello, width)
    res = [json.loads(x) for x in lines[1:] if x]
    assert len(res) == n, "child for width %r answered %d of %d" % (width, len(res), n)
    return res


def run_jobs(jobs):
    """jobs: {width: [request]} -> {width: [per-IR result]}; one child process per width, MAX_CHILDREN at a time"""
    from concurrent.futures import ThreadPoolExecutor

    def one(w):
        p, data = run_width(w, jobs[w])
        return w, collect(p, data, w, len(jobs[w]))
    with ThreadPoolExecutor(MAX_CHILDREN) as ex:
        return dict(ex.map(one, list(jobs)))


# ------------------------------------------------------------------ inputs
def blank_literal(rng):
    """a Literal type whose quoted members contain blanks (Literal['mean over batch', 'sum over batch']): the only
    blanks of a type string at which a :type line can be broken other than the one after a comma"""
    members = []
    for _ in range(rng.randint(2, 5)):
        m = " ".join(G.word(rng) for _ in range(rng.randint(2, 4)))
        if m not in members:
            members.append(m)
    t = "Literal[%s]" % ", ".join(repr(m) for m in members)
    if rng.random() < 0.25:
        t = "Optional[%s]" % t
    return t, members


def gen_input(rng, width):
    w = width or 100
    clean = rng.random() < 0.6
    ir, tags = gen_ir.gen_ir(rng, clean=clean)
    tags = ["clean" if clean else "general"]
    r = rng.random()
    if r < 0.55:
        ir = fam_docemit.stretch_ir(rng, ir, w)
        tags.append("stretched")
    elif r < 0.70:
        # prose of exactly the width, one less, one more (the ":param name: " prefix counted)
        for name, p in ir["params"].items():
            if p.get("doc"):
                target = max(1, w + rng.choice([-1, 0, 1]) - len(":param %s: " % name))
                d = fam_docemit.long_prose(rng, max(2, w // 5), max(3, w // 4))
                while len(d) < target:
                    d = d[:-1] + " " + G.word(rng) + "."
                p["doc"] = d[:target - 1].rstrip() + "."
        tags.append("at-width")
    ps = list(ir["params"].values())
    r = rng.random()
    if ps and r < 0.06:
        rng.choice(ps)["doc"] = "see https://example.com/" + "a/very/long/path" * rng.randint(1, 5) + " for details."
        tags.append("long-word")
    elif ps and r < 0.12:
        rng.choice(ps)["doc"] = rng.choice(["a well-known value of the thing that is used in the model for the data.",
                                             "use the pre-trained weights when the value is given and then the list.",
                                             "non-negative number of items per step."])
        tags.append("hyphen")
    if ps and rng.random() < 0.15:
        # tokens that end / begin in punctuation (suspended hyphens `left- or right-aligned`, `items;`, `(see`, a lone
        # `-`), dense enough that at any width some wrapped line ends in one of them
        for p in rng.sample(ps, rng.choice([1, 1, 2]) if len(ps) > 1 else 1):
            if p.get("doc"):
                p["doc"] = G.edge_prose(rng, max(6, w // 8), max(10, w // 3), density=rng.choice([0.2, 0.35, 0.5]),
                                        kinds=EDGE_KINDS_TRANSPARENT)
        if rng.random() < 0.3:
            ir["doc"] = G.edge_prose(rng, max(4, w // 10), max(8, w // 4), terminal=rng.choice([".", ""]),
                                     kinds=EDGE_KINDS_TRANSPARENT)
        tags.append("edge-punct")
    if ps and rng.random() < 0.12:
        p = rng.choice(ps)
        p["typ"], members = blank_literal(rng)
        if rng.random() < 0.8:
            p["default"] = rng.choice(members)
        else:
            p.pop("default", None)
        tags.append("blank-literal")
    return json.loads(json.dumps(ir)), tags


PROSE_LENGTHS = [(1, 4), (4, 10), (10, 20), (20, 40)]


# the edge_tokens kinds drawn by this oracle (see the note in gen_sweep_ir)
EDGE_KINDS_TRANSPARENT = G.EDGE_KINDS


def gen_sweep_ir(rng, edge=False):
    """an IR for the dense width sweep: mostly typed parameters with type-consistent defaults (so that every emitter
    that writes default sentences has some to write), prose of every length, ordinary / long / blank-in-quotes types.
    edge=True: the prose of every entry is long and dense in tokens that end / begin in punctuation (gen_text.edge_prose:
    suspended hyphens, `word;`, `(word`, lone `-`), types are short: over the widths of the sweep every such token is
    the last / first one of a wrapped line at some width"""
    used, params = set(), collections.OrderedDict()
    for _ in range(rng.randint(2, 4)):
        name = G.ident(rng)
        while name in used:
            name = G.ident(rng)
        used.add(name)
        if edge:
            p = {"doc": G.edge_prose(rng, 14, 45, density=rng.choice([0.25, 0.4, 0.5]),
                                     terminal=rng.choice([".", ".", ""]), kinds=EDGE_KINDS_TRANSPARENT)}
        else:
            p = {"doc": G.clean_prose(rng, **dict(zip(("min_words", "max_words"), rng.choice(PROSE_LENGTHS)),
                                                  terminal=rng.choice([".", ".", ",", ""])))}
        r = rng.random() if not edge else 1.0
        if r < 0.35:
            p["typ"], members = blank_literal(rng)
            if rng.random() < 0.85:
                p["default"] = rng.choice(members)
        elif r < 0.45:
            p["typ"] = rng.choice(fam_docemit.LONG_TYPES)
            if "'np'" in p["typ"] and rng.random() < 0.7:
                p["default"] = rng.choice(["np", "tf", "adam"])
        else:
            p["typ"] = gen_ir.typ_of_shape(rng, rng.choice(["scalar", "scalar", "optional", "list", "literal", "union", "absent"]))
            dk, dv = gen_ir.consistent_default(rng, p["typ"], ["absent", "value", "value", "value"])
            if p["typ"] is None:
                del p["typ"]
            if dk != "absent":
                p["default"] = dv
        params[name] = p
    ret = None
    k = rng.choice(["none", "both", "both", "doc", "typ"])
    if k != "none":
        r_ = {}
        if k in ("both", "typ"):
            r_["typ"] = gen_ir.typ_of_shape(rng, rng.choice(["scalar", "union", "tuple", "dotted", "list"]))
        if k in ("both", "doc"):
            r_["doc"] = G.clean_prose(rng, **dict(zip(("min_words", "max_words"), rng.choice(PROSE_LENGTHS))))
        ret = {"return_type": r_}
    doc = "\n".join(G.clean_prose(rng, **dict(zip(("min_words", "max_words"), rng.choice(PROSE_LENGTHS[:3]))),
                                  terminal=rng.choice([".", ""])) for _ in range(rng.choice([1, 1, 2])))
    if edge and rng.random() < 0.5:
        doc = G.edge_prose(rng, 10, 30, terminal=rng.choice([".", ""]), kinds=EDGE_KINDS_TRANSPARENT)
    ir = {"name": None, "type": "static", "doc": doc, "params": params, "returns": ret}
    return json.loads(json.dumps(ir)), ["sweep"] + (["edge-punct"] if edge else [])


def applicable(pair, ir):
    """the variants are drawn only where the unchanged implementation is known to keep the property apart from the
    listed finding classes.  Two shapes are kept out (both reported as findings of their own, neither is in a class
    the Coq classifier knows for these pairs):
    - class+defaults with a str default that contains a full stop ("a.b", "```x.y```"): the default sentence
      `Defaults to a.b` is read back only up to the stop also WITHOUT wrapping, the rest stays in the prose, and the
      re-joined wrapped text then differs from the unwrapped one by a blank before that rest;
    - argparse+defaults with prose that itself announces a default: the help text keeps the announcement, wrapping
      may break it (`default\nvalue is`), and the default is then no longer taken out of the help text."""
    ps = list((ir.get("params") or {}).values())
    if pair == "class+defaults":
        return not any(isinstance(p.get("default"), str) and "." in p["default"] for p in ps)
    if pair == "argparse+defaults":
        return not any("default" in (p.get("doc") or "").casefold() for p in ps)
    return True


# ------------------------------------------------------------------ classification (extracted Coq classifier)
def _entries(ir):
    return list((ir.get("params") or {}).values()) + list((ir.get("returns") or {}).values())


def _without_defaults(ir):
    ir = copy.deepcopy(ir)
    for p in _entries(ir):
        p.pop("default", None)
    return ir


def _fragile_entries_only(ir):
    """the entries whose default is searched before the wrapped lines are re-joined when the docstring carries no
    :type lines: parameters without a type, and the return entry"""
    ir = copy.deepcopy(ir)
    ir["params"] = {k: p for k, p in (ir.get("params") or {}).items() if not p.get("typ")}
    for p in (ir.get("returns") or {}).values():
        p.pop("typ", None)
    return ir


def _no_types(ir):
    ir = copy.deepcopy(ir)
    for p in _entries(ir):
        p.pop("typ", None)
    return ir


def _short_types(ir, short):
    ir = copy.deepcopy(ir)
    for p in _entries(ir):
        if p.get("typ"):
            p["typ"] = short
    return ir


def variant_queries(pair, ir):
    """the (emitter, IR) questions to the Coq classifier that describe the lines the docstring of this pair is made of.
    The classifier knows the six default-option emitters.  A variant's docstring is the one of its base emitter
    (headers, prose, default sentences already in the prose) plus the lines its options add, which are lines of the
    ReST docstring emitter: :type lines (inline_types=False) and appended default sentences (emit_default_doc=True).
    Without :type lines in the docstring a function parameter is an untyped one to the docstring reader (its type
    is in the signature, and a type inferred from a default found in the prose takes precedence over it); a class
    attribute keeps the annotated type, so only its really untyped entries are fragile."""
    if pair in EMITTERS:
        return [(pair, ir)]
    base, opts = pair.split("+")[0], VARIANTS[pair]
    q = [(base, ir)]
    doctypes, defaults = opts.get("inline_types") is False, bool(opts.get("emit_default_doc"))
    if base == "argparse":
        return q
    if doctypes and defaults:
        q.append(("docstring-rest", ir))
    elif doctypes:
        q.append(("docstring-rest", _without_defaults(ir)))
    elif defaults:
        q.append(("docstring-rest", _no_types(ir) if base == "function" else _fragile_entries_only(ir)))
    return q


def reader_keeps_sentence(pair):
    """what the reader of this pair's artefact does with a default sentence found in the prose: parse.docstring and
    parse.function read with emit_default_doc=True (the sentence stays in the prose and is searched again once the lines
    are re-joined); parse.class_ reads the class docstring with emit_default_doc=False and parse.argparse_ast reads every
    help text with parse_out_param(..., emit_default_doc=False): the sentence is cut out of the still wrapped text"""
    return pair.split("+")[0] not in ("class", "argparse")


def classify(points):
    """points: [(width, pair, ir)] -> class name or None, via the extracted Coq classifier (first class found among
    the queries of the pair).  The request is c18_class_r (C18Spec2.finding_class_C18_r): with keep=true it is
    finding_class_C18; with keep=false (readers that drop the sentence, see reader_keeps_sentence) every entry whose
    wrapped line announces a default is in class default-sentence-wrapped as well"""
    reqs, owner = [], []
    for i, (w, e, ir) in enumerate(points):
        keep = reader_keeps_sentence(e)
        for be, bir in variant_queries(e, ir):
            reqs.append(dumps([Sym("c18_class_r"), keep, (100 if w is None else w), Sym(be),
                               irwire.enc_ir(fam_docemit._od(bir))]))
            owner.append(i)
    out = [None] * len(points)
    for i, r in zip(owner, run_model(reqs)):
        e = loads(r)
        if out[i] is None and e != "none":
            out[i] = unhx(e[1])
    return out


def refine(failed):
    """failed: [(width, pair, ir, class, symptom)] -> class.  Class wrapped-type-line is the finding `newline + indent
    end up inside the type string read back`; a failure in it whose two interfaces differ by MORE than blanks inside
    type strings (another field differs, or the wrapped artefact no longer parses) is explained by a finding only if
    the same IR with types short enough to fit (one that makes a str default quoted, one that does not) is in some
    class too; otherwise it is reported unclassified."""
    idx = [i for i, f in enumerate(failed) if f[3] == "wrapped-type-line" and f[4] != "type-blanks"]
    out = [f[3] for f in failed]
    for i in idx:
        out[i] = None
    for short in ("str", "T"):
        again = classify([(failed[i][0], failed[i][1], _short_types(failed[i][2], short)) for i in idx])
        for i, c in zip(idx, again):
            out[i] = out[i] or c
    return out


def check_case(case):
    """replay one witness {width, emitter, ir}"""
    if "ir" not in case:
        return True, ""
    p, data = run_width(case.get("width"), [{"ir": case["ir"], "emitters": [case["emitter"]]}])
    res = collect(p, data, case.get("width"), 1)[0]
    name, status, what = res[0][:3]
    return status != "fail", what


def oracle(rng, tier):
    widths = WIDTHS_QUICK if tier == "quick" else WIDTHS_THOROUGH
    n = 110 if tier == "quick" else 350
    sweep_widths, n_sweep = SWEEP_QUICK if tier == "quick" else SWEEP_THOROUGH
    jobs = collections.OrderedDict()
    for w in widths:
        jobs[w] = []
        for _ in range(n):
            ir, tags = gen_input(rng, w)
            jobs[w].append((ir, tags, EMITTERS + [v for v in sorted(rng.sample(list(VARIANTS), 2)) if applicable(v, ir)]))
    sweep = [gen_sweep_ir(rng) for _ in range(n_sweep)] + [gen_sweep_ir(rng, edge=True) for _ in range(max(2, n_sweep // 3))]
    for w in sweep_widths:
        jobs.setdefault(w, []).extend((ir, tags, [e for e in ALL_PAIRS if applicable(e, ir)]) for ir, tags in sweep)
    results = run_jobs({w: [{"ir": ir, "emitters": ems} for ir, _, ems in js] for w, js in jobs.items()})
    points, meta = [], []
    for w, js in jobs.items():
        for (ir, tags, _), res in zip(js, results[w]):
            for name, status, what, changed, symptom in res:
                points.append((w, name, ir))
                meta.append((w, name, ir, tags, status, what, changed, symptom))
    classes = classify(points)
    fidx = [i for i, m in enumerate(meta) if m[4] == "fail"]
    for i, c in zip(fidx, refine([(meta[i][0], meta[i][1], meta[i][2], classes[i], meta[i][7]) for i in fidx])):
        if c != classes[i]:
            meta[i] = meta[i][:5] + (meta[i][5] + " [input in class %s, which explains blanks inside type strings only]"
                                     % classes[i],) + meta[i][6:]
            classes[i] = c
    failures, hist, seen = [], collections.Counter(), set()
    for (w, name, ir, tags, status, what, changed, _), cls in zip(meta, classes):
        wl = "unset" if w is None else str(w)
        stream = "sweep" if "sweep" in tags else "random"
        hist["%s:%s:%s" % (name, status, cls or "in-guard")] += 1
        hist["width:%s:%s" % (wl if stream == "random" else "sweep", status)] += 1
        for t in tags:
            if t in ("blank-literal", "sweep", "edge-punct"):
                hist["shape:%s:%s" % (t, status)] += 1
        if status == "harness-exception":
            failures.append({"case": {"width": w, "emitter": name, "ir": ir}, "what": what, "class": None})
            continue
        if status == "baseline":
            continue
        if cls == "unmodelled":
            hist["skipped-unmodelled:" + status] += 1
            continue
        if status == "ok" and cls is None and changed:
            seen.add(dumps([wl, name, json.dumps(ir, sort_keys=True)]))
        if status == "fail":
            failures.append({"case": {"width": w, "emitter": name, "ir": ir}, "what": what, "class": cls})
    return {
        "evaluations": len(points),
        "distinct_nontrivial": len(seen),
        "rule": "random stream: widths %s x word_wrap on/off x generated IRs (gen_ir clean and general; prose/summaries/types "
                "stretched to below, at and far above the width; words longer than the width, hyphenated words, prose dense "
                "in tokens that end / begin in punctuation (suspended hyphens `left- or right-aligned`, `items;`, `(see`, "
                "lone `-`) and Literal types with blanks inside quoted members seeded) x the six default-option pairs and two of the option "
                "variants %s; dense sweep: %d IRs + %d IRs whose prose is dense in punctuation-edged tokens x every width "
                "%d..%d x all %d pairs; one child process per width; "
                "non-trivial = distinct (width, pair, IR) inside the guard on which wrapping changed the artefact and both "
                "pipelines parsed to the same interface"
                % (["unset" if w is None else w for w in widths], list(VARIANTS), n_sweep, len(sweep) - n_sweep, sweep_widths[0], sweep_widths[-1],
                   len(ALL_PAIRS)),
        "failures": failures,
        "histogram": dict(hist),
        "samples": [{"width": m[0], "emitter": m[1], "ir": m[2]} for m in meta[:40:8]],
    }


if __name__ == "__main__":
    if "--child" in sys.argv:
        _child_main()
    else:
        import random
        from common import DEFAULT_SEED
        tier = sys.argv[1] if len(sys.argv) > 1 else "quick"
        o = oracle(random.Random(int(os.environ.get("VERIF_SEED") or DEFAULT_SEED)), tier)
        print("evaluations", o["evaluations"], "nontrivial", o["distinct_nontrivial"], "failures", len(o["failures"]))
        by = collections.Counter(f["class"] or "UNCLASSIFIED" for f in o["failures"])
        print(dict(by))
        print({k: v for k, v in sorted(o["histogram"].items()) if not k.startswith("width:")})
        shown = collections.Counter()
        for f in o["failures"]:
            k = (f["class"], f["case"]["emitter"])
            shown[k] += 1
            if f["class"] is None and shown[k] <= int(os.environ.get("SHOW", "3")):
                print(json.dumps(f)[:1500])
