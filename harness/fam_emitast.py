"""Correspondence family `emitast`: emit.class_ / emit.function / emit.argparse_function and their helpers
(param2ast, param2argparse_param, infer_type_and_default, RewriteName, get_internal_body, ast_parse_fix,
set_value) against coq/model/EmitAst.v.

Observation compared: the artefact tree (astwire.enc_stmt of the returned ClassDef/FunctionDef) AND the caller's
IR object after the call; exceptions by kind.

Boundary inputs of the model, recorded from the very call being compared:
  tds  what doctrans.emit.to_docstring returned (it works on copies of the param dicts: the model reads the IR the
       emitter was handed; the caller's IR after the call is part of the compared observation);
  ds   what doctrans.emit.docstring returned inside argparse_function;
  pt   ast.parse(s).body[0].value for every str default / type string of the IR (before and after to_docstring).
"""
import ast
import copy
from collections import OrderedDict

from common import Sym, dumps, opt, enc_pyval, outcome, impl, exc_kind
import astwire
import irwire
import gen_ir
import gen_text as G

NAME = "emitast"
NOT_CALLED = [Sym("err"), Sym("StopIteration")]   # placeholder when the boundary function was never reached


# ------------------------------------------------------------------ carried bodies
OTHER_NAMES = ["tmp0", "acc_", "q", "res_", "fn_", "obj_", "_i", "items_"]


def _e(rng, names, depth=0):
    """source of an expression in the modelled forms"""
    r = rng.random()
    if depth >= 2 or r < 0.35:
        return rng.choice(names)
    if r < 0.45:
        return rng.choice(["5", "'s'", "None", "True", "0.5", "-1"])
    if r < 0.55:
        return "%s.%s" % (rng.choice(names + ["f(q)", "q[0]"]), rng.choice(["shape", "T", "name"]))
    if r < 0.75:
        args = [_e(rng, names, depth + 1) for _ in range(rng.randint(0, 2))]
        kws = ["%s=%s" % (rng.choice(names + ["axis", "key"]), _e(rng, names, depth + 1)) for _ in range(rng.randint(0, 2))]
        seen, kws2 = set(), []
        for k in kws:
            n = k.split("=")[0]
            if n not in seen:
                seen.add(n)
                kws2.append(k)
        return "%s(%s)" % (rng.choice(["f", "np.sum", "print", "obj_.method", rng.choice(names)]), ", ".join(args + kws2))
    if r < 0.83:
        return "(%s, %s)" % (_e(rng, names, depth + 1), _e(rng, names, depth + 1))
    if r < 0.9:
        return "[%s]" % ", ".join(_e(rng, names, depth + 1) for _ in range(rng.randint(0, 2)))
    if r < 0.95:
        return "%s[%s]" % (rng.choice(names), _e(rng, names, depth + 1))
    return "-%s" % rng.choice(names)


def gen_body_src(rng, pnames, allow_opaque_params=False, kind="function"):
    """source text of a statement list (the body of a function), mostly in the modelled forms"""
    while True:
        src = _gen_body_src(rng, pnames, allow_opaque_params, kind)
        try:
            ast.parse("def _f():\n" + "\n".join("    " + l for l in src.split("\n")))
            return src
        except SyntaxError:
            continue


def _gen_body_src(rng, pnames, allow_opaque_params, kind):
    pn = list(pnames) or ["zz"]
    names = pn + OTHER_NAMES[:3]
    head_names = names if allow_opaque_params else OTHER_NAMES
    lines = []
    if rng.random() < 0.25:
        lines.append(rng.choice(['"""Inner doc"""', "'doc'", "fn_"]))
        if rng.random() < 0.4:
            lines.append(rng.choice(["argument_parser = make()", "argument_parser.description = 'x'", "res_ = 1"]))
    for _ in range(rng.randint(0, 4)):
        r = rng.random()
        if r < 0.3:
            lines.append("%s = %s" % (rng.choice(OTHER_NAMES + pn[:1]), _e(rng, names)))
        elif r < 0.4:
            lines.append("%s: int = %s" % (rng.choice(OTHER_NAMES), _e(rng, names)))
        elif r < 0.55:
            lines.append(_e(rng, names, 0) if rng.random() < 0.2 else "print(%s, sep=%s)" % (_e(rng, names), _e(rng, names)))
        elif r < 0.65:
            lines.append("if %s > 0:\n    return %s" % (rng.choice(head_names), _e(rng, names)))
        elif r < 0.75:
            lines.append("for _i in range(3):\n    acc_.append(%s)\n    %s = _i" % (_e(rng, names), rng.choice(OTHER_NAMES)))
        elif r < 0.85:
            a = rng.choice(pn + ["q"])
            lines.append("def inner(%s, k=%s):\n    return g(%s, key=%s)" % (a, _e(rng, names, 1), a, _e(rng, names, 1)))
        elif r < 0.92:
            lines.append("res_ = [fn_(_i) for _i in %s]" % rng.choice(head_names))
        elif r < 0.95 and kind == "argparse":
            # a call that only LOOKS like the emitter's own: add_argument on another receiver is a body statement
            lines.append(rng.choice(["grp_.add_argument('--zz', type=int)", "registry.add_argument('--flag')",
                                     "fn_.description = 'not the parser'"]))
        else:
            lines.append(rng.choice(["import os", "pass", "assert q", "while False:\n    break",
                                     "with open(q) as fh_:\n    res_ = fh_.read()"]))
    r = rng.random()
    if r < 0.55:
        lines.append("return %s" % _e(rng, names))
    elif r < 0.65:
        lines.append("return")
    elif r < 0.75 and kind == "argparse":
        lines.append("return argument_parser, %s" % _e(rng, names))
    if not lines:
        lines.append("pass")
    return "\n".join(lines)


# ------------------------------------------------------------------ IR plumbing
def materialise_ir(spec):
    """JSON-able IR spec -> the dict doctrans sees (OrderedDicts, parsed body)"""
    ir = {}
    for k, v in spec.items():
        if k == "params":
            ir[k] = OrderedDict((n, dict(p)) for n, p in v.items()) if v is not None else None
        elif k == "returns":
            ir[k] = OrderedDict((n, dict(p)) for n, p in v.items()) if v is not None else None
        elif k == "_internal":
            it = dict(v)
            if "body_src" in it:
                it["body"] = ast.parse(it.pop("body_src")).body
            ir[k] = it
        else:
            ir[k] = v
    return ir


def _strings_of_ir(ir, acc):
    def of_param(p):
        if not isinstance(p, dict):
            return
        d = p.get("default")
        if isinstance(d, str):
            acc.add(d)
            acc.add(d.strip("`"))
        t = p.get("typ")
        if isinstance(t, str):
            acc.add(t)
            if (t.count("[") + t.count("]")) & 1:
                acc.add(t + "]")
    if not isinstance(ir, dict):
        return
    for p in (ir.get("params") or {}).values():
        of_param(p)
    for p in (ir.get("returns") or {}).values():
        of_param(p)


def parse_table(strings):
    """the ast.parse oracle restricted to `strings`: [src, some expr | none(SyntaxError)]"""
    rows = []
    for s in sorted(strings):
        if not all((32 <= ord(c) < 127) or c in "\n\t" for c in s):
            continue
        try:
            m = ast.parse(s)
        except SyntaxError:
            rows.append([s, Sym("none")])
            continue
        except Exception:  # noqa  (ValueError: null bytes ...)
            continue
        if len(m.body) >= 1 and isinstance(m.body[0], ast.Expr):
            try:
                rows.append([s, [Sym("some"), astwire.enc_expr(m.body[0].value)]])
            except Exception:  # noqa
                pass
    return rows


class Recorder:
    """wraps emit.to_docstring / emit.docstring for the duration of one call"""

    def __init__(self, m):
        self.m = m
        self.tds = NOT_CALLED
        self.ds = NOT_CALLED
        self.irs = []

    def __enter__(self):
        m, rec = self.m, self
        self.orig_td, self.orig_ds = m.emit.to_docstring, m.emit.docstring

        def to_docstring(intermediate_repr, *a, **k):
            try:
                r = rec.orig_td(intermediate_repr, *a, **k)
            except Exception as e:  # noqa
                rec.tds = [Sym("err"), Sym(exc_kind(e))]
                raise
            snap = copy.deepcopy(intermediate_repr)
            rec.irs.append(snap)
            rec.tds = [Sym("ok"), r]
            rec.tds_text = r
            return r

        def docstring(intermediate_repr, *a, **k):
            try:
                r = rec.orig_ds(intermediate_repr, *a, **k)
            except Exception as e:  # noqa
                rec.ds = [Sym("err"), Sym(exc_kind(e))]
                raise
            rec.ds = [Sym("ok"), r]
            rec.ds_arg = copy.deepcopy(intermediate_repr)
            return r

        m.emit.to_docstring, m.emit.docstring = to_docstring, docstring
        return self

    def __exit__(self, *a):
        self.m.emit.to_docstring, self.m.emit.docstring = self.orig_td, self.orig_ds
        return False


def call_emitter(fn, ir, o):
    """run the real emitter on `ir` (mutated in place); returns (result wire, recorder)"""
    m = impl()
    with Recorder(m) as rec:
        def thunk():
            if fn == "class":
                kw = {}
                if "class_bases" in o:
                    kw["class_bases"] = tuple(o["class_bases"])
                if o.get("decorator_list") is not None:
                    kw["decorator_list"] = list(o["decorator_list"])
                return m.emit.class_(ir, emit_call=o["emit_call"], class_name=o["class_name"], word_wrap=o["word_wrap"],
                                     emit_default_doc=o["emit_default_doc"], **kw)
            if fn == "function":
                return m.emit.function(ir, function_name=o["function_name"], function_type=o["function_type"],
                                       word_wrap=o["word_wrap"], emit_default_doc=o["emit_default_doc"],
                                       indent_level=o["indent_level"], emit_separating_tab=o["emit_separating_tab"],
                                       inline_types=o["inline_types"], emit_as_kwonlyargs=o["emit_as_kwonlyargs"])
            if fn == "argparse":
                return m.emit.argparse_function(ir, emit_default_doc=o["emit_default_doc"],
                                                function_name=o["function_name"], function_type=o["function_type"],
                                                wrap_description=o["wrap_description"], word_wrap=o["word_wrap"])
            raise KeyError(fn)
        try:
            node = thunk()
            rec.node = node
        except Exception as e:  # noqa
            res = [Sym("err"), Sym(exc_kind(e))]
            rec.node = None
            rec.exc = e
            return res, rec
    try:
        res = [Sym("ok"), [astwire.enc_stmt(node), irwire.enc_ir(ir)]]
        dumps(res)
    except Exception as e:  # noqa  the artefact is outside what the wire can carry
        res = Sym("unencodable-%s" % type(e).__name__)
    return res, rec


def emitter_request(fn, ir_before, o, rec):
    strings = set()
    _strings_of_ir(ir_before, strings)
    for snap in rec.irs:
        _strings_of_ir(snap, strings)
    pt = parse_table(strings)
    i = irwire.enc_ir(ir_before)
    if fn == "class":
        return dumps([Sym("emitast_class"), i, o["emit_call"], o["class_name"], list(o.get("class_bases", ["object"])),
                      list(o.get("decorator_list") or []), o["word_wrap"], rec.tds, pt])
    if fn == "function":
        return dumps([Sym("emitast_function"), i, opt(o["function_name"]), opt(o["function_type"]), o["inline_types"],
                      o["emit_as_kwonlyargs"], rec.tds, pt])
    return dumps([Sym("emitast_argparse"), i, o["emit_default_doc"], opt(o["function_name"]), opt(o["function_type"]),
                  o["wrap_description"], o["word_wrap"], rec.ds, pt])


# ------------------------------------------------------------------ python values of infer_type_and_default
def enc_pyobj(v):
    if v is None or isinstance(v, (bool, int, float, str)):
        return [Sym("v"), enc_pyval(v)]
    if isinstance(v, (list, tuple)):
        return [Sym("seq"), isinstance(v, tuple), [enc_pyobj(x) for x in v]]
    if isinstance(v, dict):
        return [Sym("dict"), [[enc_pyobj(k), enc_pyobj(x)] for k, x in v.items()]]
    if isinstance(v, ast.expr):
        return [Sym("node"), astwire.enc_expr(v)]
    raise TypeError("not a modelled object: %r" % (v,))


def _dval_wire(v):
    return irwire.enc_dval(v)


# ------------------------------------------------------------------ generation
LONG = ("the quick brown fox jumps over the lazy dog and keeps running through the forest until it reaches the river "
        "where it stops to drink some water before going on")


def _maybe_long(rng, ir):
    if rng.random() < 0.15:
        ir["doc"] = ir["doc"] + " " + LONG + "."
    for p in ir["params"].values():
        if "doc" in p and rng.random() < 0.08:
            p["doc"] = p["doc"].rstrip(".") + " " + LONG + "."


def with_long_token(rng, text, kind=None):
    """text with one whitespace-free token longer than the wrap width (URL, path, dotted/underscored identifier, hyphenated
    compound, digits) put in place of / next to one of its words; the terminal punctuation stays"""
    tok = G.long_token(rng, kind)
    body = text.rstrip(".,")
    term = text[len(body):]
    ws = body.split(" ")
    i = rng.randrange(len(ws) + 1)
    if rng.random() < 0.3 and i < len(ws) and ws[i]:
        ws[i] = tok
    else:
        ws.insert(i, tok)
    return " ".join(ws) + term


def _maybe_long_token(rng, ir, tags, p_doc=0.06, p_param=0.04):
    """stratum: a token that no line of the wrap width can hold, in a summary line and / or in parameter / return prose"""
    hit = False
    if isinstance(ir.get("doc"), str) and ir["doc"] and rng.random() < p_doc:
        lines = ir["doc"].split("\n")
        i = rng.randrange(len(lines))
        lines[i] = with_long_token(rng, lines[i])
        ir["doc"] = "\n".join(lines)
        hit = True
    ps = list((ir.get("params") or {}).values()) + list((ir.get("returns") or {}).values())
    for p in ps:
        if isinstance(p.get("doc"), str) and p["doc"] and "\n" not in p["doc"] and "efault" not in p["doc"] and rng.random() < p_param:
            p["doc"] = with_long_token(rng, p["doc"])
            hit = True
    if hit:
        tags.append("long-token")
    return hit


# ------------------------------------------------------------------ strata: a default of any member type under a Union;
#                                                                     back-tick quoted literal displays with mixed elements
PLAIN_WORDS = ["mnist", "adam", "auto", "relu", "v1", "x", "cat", "dog", "sgd", "5", "a-b"]


def scalar_value_of(rng, t):
    """a plain value of the scalar type named t ('none' gives None)"""
    if t == "none":
        return None
    if t == "str":
        return rng.choice(PLAIN_WORDS)
    if t == "int":
        return G.int_value(rng)
    if t == "bool":
        return rng.choice([True, False])
    v = G.float_value(rng)
    while v in (float("inf"), float("-inf")) or v != v:
        v = G.float_value(rng)
    return v


def union_default_param(rng, tags):
    """Union[..] / Optional[Union[..]] over two or three scalar types in any order, with an explicit default of the type of
    one of the members - the first, a middle one or the last, each as often as the others"""
    members = rng.sample(G.SCALAR_TYPES, rng.choice([2, 2, 3]))
    typ = "Union[%s]" % ", ".join(members)
    if rng.random() < 0.4:
        typ = "Optional[%s]" % typ
    which = rng.randrange(len(members))
    tags.append("stratum:union-default:%s-member" % ("last" if which == len(members) - 1 else "earlier"))
    return {"doc": G.clean_prose(rng), "typ": typ, "default": scalar_value_of(rng, members[which])}


def _typ_of_elems(kinds):
    names = []
    for k in kinds:
        if k != "none" and k not in names:
            names.append(k)
    t = names[0] if len(names) == 1 else "Union[%s]" % ", ".join(names) if names else "str"
    return "Optional[%s]" % t if "none" in kinds else t


def literal_display_param(rng, tags):
    """an explicit default that is a back-tick quoted list / tuple / dict display of two or more elements - all of one scalar
    type or mixed (str, int, float, bool, None) - under a declared type that admits it"""
    n = rng.choice([2, 2, 3, 4])
    shape = rng.choice(["tuple", "tuple", "list", "list", "dict"])
    if rng.random() < 0.35:
        kinds = [rng.choice(G.SCALAR_TYPES)] * n
    else:
        kinds = [rng.choice(["str", "str", "int", "float", "bool", "bool", "none"]) for _ in range(n)]
    vals = [scalar_value_of(rng, k) for k in kinds]
    if shape == "tuple":
        text = "(%s)" % ", ".join(repr(v) for v in vals)
        typ = "Tuple[%s]" % ", ".join(_typ_of_elems([k]) if k != "none" else "Optional[int]" for k in kinds)
    elif shape == "list":
        text = "[%s]" % ", ".join(repr(v) for v in vals)
        typ = "List[%s]" % _typ_of_elems(kinds)
    else:
        keys = rng.sample(["a", "b", "key", "lr", "name"], n)
        text = "{%s}" % ", ".join("%r: %r" % (k, v) for k, v in zip(keys, vals))
        # (the bare spelling `dict` with a default is kept out: emit.class_ builds Dict(keys=[], values=<the default str>) for it)
        typ = "Dict[str, %s]" % _typ_of_elems(kinds)
    if rng.random() < 0.4:
        typ = "Optional[%s]" % typ
    tags.append("stratum:literal-display-default:%s:%s" % (shape, "same" if len(set(kinds)) == 1 else "mixed"))
    return {"doc": G.clean_prose(rng), "typ": typ, "default": "```%s```" % text}


def add_param(rng, ir, p):
    """put the parameter p under a fresh name at a random position of ir['params']"""
    name = G.ident(rng)
    while name in ir["params"]:
        name = G.ident(rng)
    items = list(ir["params"].items())
    kw = [kv for kv in items if kv[0].endswith("kwargs")]
    items = [kv for kv in items if not kv[0].endswith("kwargs")]
    items.insert(rng.randrange(len(items) + 1), (name, p))
    ir["params"] = OrderedDict(items + kw)
    return name


def gen_ir_spec(rng, tags, stream):
    clean = stream == "clean"
    ir, t = gen_ir.gen_ir(rng, clean=clean)
    tags += t
    ir = {"name": ir["name"], "type": ir["type"], "doc": ir["doc"],
          "params": OrderedDict((k, dict(v)) for k, v in ir["params"].items()),
          "returns": None if ir["returns"] is None else OrderedDict((k, dict(v)) for k, v in ir["returns"].items())}
    _maybe_long(rng, ir)
    _maybe_long_token(rng, ir, tags)
    # strata (see above): a default of any member type under a Union; literal displays of two or more (mixed) elements
    if rng.random() < 0.08:
        add_param(rng, ir, union_default_param(rng, tags))
    if rng.random() < 0.08:
        add_param(rng, ir, literal_display_param(rng, tags))
    if stream == "malformed":
        r = rng.random()
        tags.append("malformed")
        if r < 0.15:
            ir.pop(rng.choice(["name", "type", "doc", "returns"]))
        elif r < 0.3 and ir["params"]:
            k = rng.choice(list(ir["params"]))
            ir["params"][k]["typ"] = rng.choice([None, "", "List[str", "<class 'int'>", "dict", "*args", "complex", "Any",
                                                 "Tuple[int, ...]", "int or str", "X[a,]", "None"])
        elif r < 0.45 and ir["params"]:
            k = rng.choice(list(ir["params"]))
            ir["params"][k]["doc"] = rng.choice([None, "", "x", "Defaults to 5", "the value. Defaults to ```[1]```."])
        elif r < 0.6 and ir["params"]:
            k = rng.choice(list(ir["params"]))
            ir["params"][k]["default"] = rng.choice(["", " x", "```x```", "a b", "'q'", '"dq"', "x = 1", "pass", "5", 0, False,
                                                     "```'a b'```", "```'5'```", "```(5)```", "```[x]```", "```[f()]```",
                                                     "```[[1]]```", "```-x```", "```not x```", "```{1: 2}```", "```set()```",
                                                     "```()```", "```(1,)```", "```a[0]```", "```True```", "```1.5```",
                                                     "```-2.5```", "```\"s\"```", "```b'x'```", "```...```"])
        elif r < 0.7:
            ir["returns"] = rng.choice([OrderedDict((("return_type", {}),)), OrderedDict(),
                                        OrderedDict((("return_type", {"typ": "None"}),)),
                                        OrderedDict((("return_type", {"doc": "", "typ": "int"}),)),
                                        OrderedDict((("return_type", {"default": 5}),)),
                                        OrderedDict((("return_type", {"default": "5", "typ": "int"}),)),
                                        OrderedDict((("return_type", {"default": "", "doc": "x."}),)),
                                        OrderedDict((("return_type", {"default": "```f(```"}),)),
                                        OrderedDict((("return_type", {"doc": None, "typ": None, "default": None}),))])
        elif r < 0.8:
            ir["name"] = rng.choice(["", "g", None])
            ir["type"] = rng.choice(["", "self", "cls", None, "static"])
        elif r < 0.9:
            ir["doc"] = rng.choice([None, "", "x\n", "a\n\nb"])
        else:
            ir["params"]["return_type"] = {"doc": "clash.", "typ": "int"}
    return ir


def attach_body(rng, ir, tags, kind, target_name, target_type):
    """adds `_internal` (from_name/from_type matching the target or not)"""
    r = rng.random()
    if r < 0.45:
        tags.append("body:none")
        return
    pn = [k for k in (ir.get("params") or {})]
    src = gen_body_src(rng, pn, allow_opaque_params=rng.random() < 0.15, kind=kind)
    it = {"body_src": src, "from_name": target_name, "from_type": target_type}
    r = rng.random()
    if r < 0.12:
        it["from_name"] = "other_name"
        tags.append("body:name-mismatch")
    elif r < 0.2:
        it["from_type"] = "self" if target_type != "self" else "static"
        tags.append("body:type-mismatch")
    elif r < 0.23:
        it.pop(rng.choice(["from_name", "from_type"]))
        tags.append("body:key-missing")
    else:
        tags.append("body:match")
    ir["_internal"] = it


def gen_emitter_case(rng, fn, stream):
    tags = ["stream:" + stream]
    ir = gen_ir_spec(rng, tags, stream)
    if fn == "class":
        o = {"emit_call": rng.random() < 0.6, "class_name": rng.choice(["ConfigClass", "C", "Model"]),
             "word_wrap": rng.random() < 0.5, "emit_default_doc": rng.random() < 0.5}
        if rng.random() < 0.15:
            o["class_bases"] = rng.choice([["object"], ["Base", "Mixin"], []])
        if rng.random() < 0.15:
            o["decorator_list"] = rng.choice([["dataclass"], [], ["a", "b"]])
        attach_body(rng, ir, tags, "function", o["class_name"], "static")
    elif fn == "function":
        ft = rng.choice(["static", "self", "cls", "static", None])
        o = {"function_name": rng.choice(["f", "train", "f", None]), "function_type": ft,
             "word_wrap": rng.random() < 0.5, "emit_default_doc": rng.random() < 0.5,
             "indent_level": rng.choice([0, 1, 2]), "emit_separating_tab": rng.random() < 0.5,
             "inline_types": rng.random() < 0.5, "emit_as_kwonlyargs": rng.random() < 0.5}
        if o["function_name"] is None and (stream != "malformed" or rng.random() < 0.8):
            ir["name"] = "from_ir"
        if ft is None and rng.random() < 0.7:
            # the kind comes from the IR (what parse.function records for a method / classmethod)
            ir["type"] = rng.choice(["self", "cls", "static"])
            tags.append("type-from-ir:" + ir["type"])
        tn = o["function_name"] or ir.get("name")
        tt = o["function_type"] or ir.get("type")
        attach_body(rng, ir, tags, "function", tn, tt)
    else:
        o = {"emit_default_doc": rng.random() < 0.5, "word_wrap": rng.random() < 0.5,
             "wrap_description": rng.random() < 0.5,
             "function_name": rng.choice(["set_cli_args", "set_cli_args", "cli", None]),
             "function_type": rng.choice(["static", "static", None])}
        if o["function_name"] is None and (stream != "malformed" or rng.random() < 0.8):
            ir["name"] = "from_ir"
        tn = o["function_name"] or ir.get("name")
        tt = o["function_type"] or ir.get("type")
        attach_body(rng, ir, tags, "argparse", tn, tt)
    for k, v in sorted(o.items()):
        if isinstance(v, bool) or k in ("indent_level", "function_type"):
            tags.append("%s=%s" % (k, v))
    return {"fam": NAME, "fn": fn, "args": {"ir": ir, "opts": o}, "tags": tags}


CODE_SNIPPETS = ["x", "x.y", "math.pi", "[1, 2]", "(1, 2)", "{'a': 1}", "np.array([1])", "foo(bar=5)", "os.path.join('a', 'b')",
                 "(None)", "None", "-1", "[]", "()", "[5]", "['a']", "[None]", "(1,)", "[[1]]", "[x]", "[f()]", "5", "0.5",
                 "-2.5", "True", "'mnist'", "'5'", "\"it's\"", "a[0]", "a[1, 2]", "f(a, *b)", "lambda x: x", "1 + 2",
                 "{'a': [1, 2], 'b': None}", "{1: 2}", "(1, 'a', None, True, 2.5)", "-x", "not x", "~x", "+1", "f(x)(y).z",
                 "(np.empty(0), np.empty(0))", "Optional[int]", "dict(a=1, **k)", "[1, [2, 3]]", "(-1, -2.5)", "1e-07", "inf"]

TYPS = [None, "str", "int", "float", "bool", "Optional[str]", "Optional[int]", "List[str]", "List[int]", "Literal['a', 'b']",
        "Literal['a']", "Literal[1, 2]", "Union[int, float]", "Union[str, int]", "Tuple[int, str]", "np.ndarray", "dict", "Any",
        "Optional[List[str]]", "Optional[Literal['a', 'b']]", "Optional[Union[int, str]]", "Dict[str, int]",
        "Callable[[int], str]", "<class 'int'>", "<class 'str'>", "", "List[str", "object", "complex", "*args", "typing.Any",
        "Literal['a', None, 3]", "Literal[-1, 2]", "Optional[dict]", "AnyStr", "list", "Tuple", "torch.optim.Optimizer"]


def gen_param_case(rng):
    tags = []
    if rng.random() < 0.6:
        p = gen_ir.gen_param(rng, tags)
    else:
        p = {}
        t = rng.choice(TYPS)
        if rng.random() < 0.85:
            p["typ"] = t
        if rng.random() < 0.8:
            p["doc"] = rng.choice([G.prose(rng), G.clean_prose(rng), "", None, "x. Defaults to 5", "n. Default: 'a'.",
                                   "Defaults to ```[1, 2]```", LONG])
        if isinstance(p.get("doc"), str) and p["doc"] and "\n" not in p["doc"] and "efault" not in p["doc"] and rng.random() < 0.08:
            p["doc"] = with_long_token(rng, p["doc"])
            tags.append("long-token")
        if rng.random() < 0.75:
            p["default"] = rng.choice([G.value(rng), "```" + rng.choice(CODE_SNIPPETS) + "```", rng.choice(CODE_SNIPPETS),
                                       "```(None)```", None, 0, "", False, 0.0])
        tags.append("handmade")
    name = G.ident(rng, allow_kwargs=True) if rng.random() < 0.85 else rng.choice(["kwargs", "model_kwargs"])
    return name, p, tags


def gen(rng, n, tier="quick"):
    cases = []

    def add(fn, args, tags):
        cases.append({"fam": NAME, "fn": fn, "args": args, "tags": list(tags)})

    for _ in range(n):
        r = rng.random()
        if r < 0.60:
            fn = rng.choice(["class", "function", "argparse"])
            stream = rng.choice(["clean", "general", "general", "malformed"])
            cases.append(gen_emitter_case(rng, fn, stream))
        elif r < 0.70:
            name, p, tags = gen_param_case(rng)
            if rng.random() < 0.05:
                p["default"] = {"__const__": rng.choice([None, 5, "s", "None"])}
            add("param2ast", {"name": name, "param": p}, tags)
        elif r < 0.82:
            name, p, tags = gen_param_case(rng)
            add("param2argparse", {"name": name, "param": p, "word_wrap": rng.random() < 0.5,
                                   "emit_default_doc": rng.random() < 0.5}, tags)
        elif r < 0.90:
            d = rng.choice([G.value(rng), "```" + rng.choice(CODE_SNIPPETS) + "```", None, "```(None)```"])
            add("infer", {"action": rng.choice([None, None, "append"]), "default": d,
                          "typ": rng.choice([None, "str", "int", "float", "bool", "loads", "Any", "Optional[int]"]),
                          "required": rng.random() < 0.5}, ["infer"])
        elif r < 0.94:
            pn = [G.ident(rng) for _ in range(rng.randint(0, 3))]
            add("rewrite", {"ids": pn, "body_src": gen_body_src(rng, pn, allow_opaque_params=rng.random() < 0.3)}, ["rewrite"])
        elif r < 0.955:
            it = {"body_src": gen_body_src(rng, ["a"]) if rng.random() < 0.85 else None,
                  "from_name": rng.choice(["f", "g", None]), "from_type": rng.choice(["static", "self", None])}
            if it["body_src"] is None:
                it.pop("body_src")
                it["body"] = []
            if rng.random() < 0.15:
                it.pop(rng.choice(["from_name", "from_type"]))
            ir = {"name": "f", "type": "static", "doc": "d", "params": {}, "returns": None}
            if rng.random() < 0.9:
                ir["_internal"] = it
            add("internal_body", {"name": rng.choice(["f", "g", None]), "type": rng.choice(["static", "self", None]), "ir": ir},
                ["internal_body"])
        elif r < 0.97:
            s = rng.choice(CODE_SNIPPETS + [t for t in TYPS if t] + [" x", "\tx", "a b", "`x`", "x = 1", "a\n.b", "X[a,]", "f(",
                                                                    "List[int", "[[", "", "  "])
            add("parse_expr", {"src": s, "fix": rng.random() < 0.5}, ["parse_expr"])
        elif r < 0.99:
            add("unparse", {"src": rng.choice(CODE_SNIPPETS + [t for t in TYPS if t and "<" not in t and "*" not in t
                                                               and t.count("[") == t.count("]")])}, ["unparse"])
        else:
            add("set_value", {"v": rng.choice([G.value(rng), '"q"', "'q'", "''", '""', "'a\"", "'", "x'"])}, ["set_value"])
    return cases


# ------------------------------------------------------------------ running
_CACHE = {}


def safe_outcome(thunk, enc):
    """like common.outcome, but a failure to ENCODE the result is reported as such, not as an exception of the code"""
    try:
        r = thunk()
    except Exception as e:  # noqa
        return [Sym("err"), Sym(exc_kind(e))]
    try:
        w = [Sym("ok"), enc(r)]
        dumps(w)
        return w
    except Exception as e:  # noqa
        return Sym("unencodable-%s" % type(e).__name__)


def _param_of(spec):
    p = dict(spec)
    d = p.get("default")
    if isinstance(d, dict) and "__const__" in d:
        p["default"] = ast.Constant(value=d["__const__"])
    return p


def _prepare(case):
    key = id(case)
    hit = _CACHE.get(key)
    if hit is not None and hit[0] is case:
        return hit[1], hit[2]
    m = impl()
    fn, a = case["fn"], case["args"]
    if fn in ("class", "function", "argparse"):
        ir = materialise_ir(a["ir"])
        before = copy.deepcopy(ir)
        res, rec = call_emitter(fn, ir, a["opts"])
        req = emitter_request(fn, before, a["opts"], rec)
        out = dumps(res)
    elif fn == "param2ast":
        p = _param_of(a["param"])
        strings = set()
        _strings_of_ir({"params": {"x": p}}, strings)
        req = dumps([Sym("emitast_param2ast"), a["name"], irwire.enc_gparam(p), parse_table(strings)])
        q = copy.deepcopy(p)
        out = dumps(safe_outcome(lambda: m.ast_utils.param2ast((a["name"], q)),
                            lambda node: [astwire.enc_stmt(node), irwire.enc_gparam(q)]))
    elif fn == "param2argparse":
        p = _param_of(a["param"])
        strings = set()
        _strings_of_ir({"params": {"x": p}}, strings)
        req = dumps([Sym("emitast_param2argparse"), a["name"], irwire.enc_gparam(p), a["word_wrap"], a["emit_default_doc"],
                     parse_table(strings)])
        q = copy.deepcopy(p)
        out = dumps(safe_outcome(lambda: m.ast_utils.param2argparse_param((a["name"], q), word_wrap=a["word_wrap"],
                                                                     emit_default_doc=a["emit_default_doc"]),
                            lambda node: [astwire.enc_stmt(node), irwire.enc_gparam(q)]))
    elif fn == "infer":
        d = a["default"]
        strings = set()
        _strings_of_ir({"params": {"x": {"default": d}}}, strings)
        req = dumps([Sym("emitast_infer"), opt(a["action"]), _dval_wire(d), opt(a["typ"]), a["required"], parse_table(strings)])
        out = dumps(safe_outcome(lambda: m.ast_utils.infer_type_and_default(a["action"], d, a["typ"], required=a["required"]),
                            lambda r: [opt(r[0]), enc_pyobj(r[1]), bool(r[2]), opt(r[3])]))
    elif fn == "rewrite":
        body = ast.parse(a["body_src"]).body
        req = dumps([Sym("emitast_rewrite"), list(a["ids"]), [astwire.enc_stmt(s) for s in body]])
        b2 = copy.deepcopy(body)
        out = dumps(safe_outcome(lambda: list(map(m.emitter_utils.RewriteName(frozenset(a["ids"])).visit, b2)),
                            lambda l: [astwire.enc_stmt(s) for s in l]))
    elif fn == "internal_body":
        ir = materialise_ir(a["ir"])
        req = dumps([Sym("emitast_internal_body"), opt(a["name"]), opt(a["type"]), irwire.enc_ir(ir)])
        out = dumps(safe_outcome(lambda: m.emitter_utils.get_internal_body(a["name"], a["type"], ir),
                            lambda l: [astwire.enc_stmt(s) for s in l]))
    elif fn == "parse_expr":
        s = a["src"]
        t = s if not a["fix"] or (s.count("[") + s.count("]")) & 1 == 0 else s + "]"
        req = dumps([Sym("emitast_parse_expr"), s, a["fix"], parse_table({t})])
        f = m.emitter_utils.ast_parse_fix if a["fix"] else (lambda x: ast.parse(x).body[0].value)
        out = dumps(safe_outcome(lambda: f(s), astwire.enc_expr))
    elif fn == "unparse":
        node = ast.parse(a["src"]).body[0].value
        req = dumps([Sym("emitast_unparse"), astwire.enc_expr(node)])
        out = dumps(safe_outcome(lambda: ast.unparse(node), lambda t: t))
    elif fn == "set_value":
        req = dumps([Sym("emitast_set_value"), enc_pyval(a["v"])])
        out = dumps(astwire.enc_expr(m.ast_utils.set_value(a["v"])))
    else:
        raise KeyError(fn)
    if len(_CACHE) > 200000:
        _CACHE.clear()
    _CACHE[key] = (case, req, out)
    return req, out


def request(case):
    return _prepare(case)[0]


def run_impl(case):
    return _prepare(case)[1]


def nontrivial(case):
    fn, a = case["fn"], case["args"]
    if fn in ("class", "function", "argparse"):
        ir = a["ir"]
        return len(ir.get("params") or {}) >= 2 or bool(ir.get("returns")) or "_internal" in ir
    if fn in ("param2ast", "param2argparse"):
        return len(a["param"]) >= 2
    return True
