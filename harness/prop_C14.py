"""C14 - sync_properties changes exactly the addressed property.

Oracle on the implementation, on two real files in a tempfile.mkdtemp() directory (removed afterwards):
  every address resolves (judged by gen_module.resolve on the parsed files)  ->
      the call succeeds, the input file's bytes are unchanged, the output file parses, and its tree equals the
      original output tree with every addressed position masked (an argument is masked together with the default
      that belongs to it);
  some address does not resolve  ->  the call raises and neither file changes.
  eval mode: a statement position that was addressed carries `name: Literal[<the evaluated values>]` (through the template).
  A point may ask for input file == output file (two locations of one module): then only that file exists.
  A point may say how the call is made (`route`: the function, the command line in this process or in a process of its
  own) and which earlier calls were made in the same process on the same paths (`history`, see fam_syncprops): the
  property is the same - the call is judged against the files as they are when it starts.
Failures are classified by finding_class_C14 (Coq, through the driver); class None = inside the proved region.
Where that classifier is silent and a node other than the addressed ones changed, the refined classifier finding_class_C14_r
(coq/model/C14Spec2.v) is given the module the output file really holds afterwards: it names other-docstring-reformatted
when the difference is confined to docstring constants with one normal form, and nothing else.
A recorded finding class stands for the kinds of failure it describes only (NEVER_ABSORBED, eval_surrogate): the safety
clauses of the property (input file untouched, an error leaves the output file alone, no stray files, nothing is written
that the formatter rejects) are broken by none of the recorded classes, so such a failure is a violation whatever class
the call falls in.  Likewise the recorded classes are classes of the modelled behaviour: a call in a recorded class on
which the model of the code (c14_holds) satisfies the property while the real call does not - a pair of the command line
that is silently skipped, a definition synchronised from an earlier state of the input file - is a violation with that
call as failing input (it is a broken correspondence as well)."""
import ast
import collections
import os
import shutil
import tempfile

from common import Sym, dumps, loads, impl, run_model, unhx
import astwire
import gen_module as GM
import fam_syncprops
from fam_locate import paths
from prop_C15 import dump_masked

ID = "C14"
COQ_PROP = "C14"
import fam_locate  # noqa: E402

# sync_properties is built on find_in_ast / RewriteAtQuery
FAMILIES = [(fam_syncprops, 1500, 20000), (fam_locate, 1500, 20000)]
TECHNIQUE = ("Coq proofs over a transcription of sync_property/sync_properties (event model: no write unless every pair "
             "succeeded, the input file is never written, by induction over the list of pairs; each pair is a single "
             "first-match replacement by the frame theorem of RewriteAtQuery) + differential correspondence of SyncProps.v "
             "(tree handed to emit.file, exception kinds) + oracle on real temporary files")
TRUSTED = [
    "SyncProps.v is a hand transcription of sync_properties.py / ast_parse / it2literal / set_value, tied to the code by the `syncprops` family",
    "ast.unparse of annotations and ast.parse of the wrapped text enter the model as tables computed by the harness (to_code, ast.parse are CPython, not doctrans)",
    "eval(compile(input_ast)) enters the model as the classified value of the parameter",
    "to_code + black on the final tree: the write event carries the tree; that black preserves the tree is observed by the oracle, not proved",
    "trees in which an ast.arg sits where a statement or a default belongs are declined by the model (whether their unparse text parses is CPython/black behaviour)",
    "a FunctionDef/ClassDef moved by a pair that is not the last is declined (it would be shared between the two trees)",
    "everything listed for C15 (Locate.v)",
]


def _apply_mask(tree, p):
    """replace the node at position p (scheme of Locate.annotate_stmt) by a marker; an argument together with its default"""
    _, inv, _keep = paths(tree, [])
    node = inv.get(tuple(p))
    if node is None:
        return False
    if len(p) >= 3 and isinstance(inv.get(tuple(p[:-2])), ast.FunctionDef) and p[-2] in (0, 1):
        fn = inv[tuple(p[:-2])]
        k = p[-1]
        if p[-2] == 0:
            if k >= len(fn.args.args):
                return False
            fn.args.args[k] = ast.arg(arg="MASK", annotation=None)
            slot = k - (len(fn.args.args) - len(fn.args.defaults))
            if 0 <= slot < len(fn.args.defaults):
                fn.args.defaults[slot] = ast.Name(id="MASK", ctx=ast.Load())
        else:
            if k >= len(fn.args.kwonlyargs):
                return False
            fn.args.kwonlyargs[k] = ast.arg(arg="MASK", annotation=None)
            if k < len(fn.args.kw_defaults):
                fn.args.kw_defaults[k] = None
        return True
    parent = inv.get(tuple(p[:-1])) if len(p) > 1 else tree
    if parent is None or not hasattr(parent, "body") or p[-1] >= len(parent.body):
        return False
    parent.body[p[-1]] = ast.Pass()
    return True


def _expected_ann(ann, wrap):
    if wrap is None or ann is None:
        return ann
    return ast.parse(wrap.format(output_param=ast.unparse(ann))).body[0].value


def _new_node_wrong(src, dst, new, wrap):
    """None when the node now at the addressed position is the input node (same name, annotation through the
    template, same value for a statement); otherwise what is wrong.  Mirrors C14Spec.expected_node."""
    d = lambda n: dump_masked(n, set())  # noqa: E731
    try:
        if isinstance(dst, ast.arg):
            if isinstance(src, ast.arg):
                name, ann = src.arg, _expected_ann(src.annotation, wrap)
            elif isinstance(src, ast.AnnAssign) and isinstance(src.target, ast.Name):
                name, ann = src.target.id, _expected_ann(src.annotation, wrap)
            else:
                return None
            if not isinstance(new, ast.arg) or new.arg != name or d(new.annotation) != d(ann):
                return "the addressed argument is not the input parameter %r with its annotation" % name
            return None
        if isinstance(src, ast.AnnAssign):
            want = ast.AnnAssign(target=src.target, annotation=_expected_ann(src.annotation, wrap), value=src.value,
                                 simple=src.simple)
        elif isinstance(src, ast.Assign) and wrap is None:
            want = src
        else:
            return None
        if new is None or d(new) != d(want):
            return "the addressed statement is not the input statement"
        return None
    except Exception as e:  # noqa
        return "could not build the expected node: %s" % type(e).__name__


# kinds of failure no recorded finding class stands for: every recorded class is about WHICH node ends up at / around
# the addressed position, or about a refused call that writes nothing; none of them modifies the input file, writes
# after/despite an error, leaves files behind, or writes text that the formatter emit.file passes everything through
# rejects.  (An unresolved address that is not reported IS what the recorded lookup/rewrite classes describe, and text
# that black accepts although CPython does not - `0` glued to `b` gives `0b` - is the recorded gluing of an argument.)
NEVER_ABSORBED = {"input-modified", "stray-files", "unresolved-written", "raised-after-write",
                  "output-rejected-by-formatter"}


def _formatter_accepts(text):
    """does black (the formatter every written file has been through) accept this text"""
    import black
    try:
        black.format_str(text, mode=black.Mode())
        return True
    except black.NothingChanged:
        return True
    except Exception:  # noqa  (black.InvalidInput and friends)
        return False


def _eval_expected(isrc, ip, name, wrap):
    """`name: Literal[values]` (annotation through the template), built without doctrans; None = not judged"""
    _, v = fam_syncprops.evaluated(isrc, ip)
    lit = fam_syncprops.literal_of(v) if v is not None else None
    if lit is None:
        return None
    try:
        want = ast.AnnAssign(target=ast.Name(id=name, ctx=ast.Store()), annotation=_expected_ann(lit, wrap), value=None,
                             simple=1)
        # as it reads back from a file (a negative number is a Constant when built, a UnaryOp when parsed)
        return ast.parse(ast.unparse(want)).body[0]
    except Exception:  # noqa
        return None


def impl_holds(pt):
    return impl_judge(pt)[:2]


def impl_judge(pt):
    """C14 at one point on the real code -> (holds, what, kind of failure)"""
    return impl_judge_ex(pt)[:3]


def impl_judge_ex(pt):
    """-> (holds, what, kind of failure, text of the output file after the call or None)"""
    r = _impl_judge(pt)
    return r if len(r) == 4 else r + (None,)


def _impl_judge(pt):
    ev, isrc, ips, osrc, ops, wrap = pt["args"][:6]
    same_file = len(pt["args"]) > 6 and bool(pt["args"][6])
    m = impl()
    itree0, otree0 = ast.parse(isrc), ast.parse(osrc)
    pos_o, _, _keep = paths(otree0, [])
    out_targets = [GM.resolve([s.strip() for s in op.split(".")], otree0) for op in ops]
    in_targets = [True if ev else GM.resolve([s.strip() for s in ip.split(".")], itree0) for ip in ips]
    resolves = all(t is not None for t in out_targets) and all(t is not None for t in in_targets) \
        and len(ips) == len(ops)
    d = tempfile.mkdtemp(prefix="verif_c14_")
    try:
        ipath, opath = os.path.join(d, "input_file.py"), os.path.join(d, "output_file.py")
        if same_file:
            assert isrc == osrc
            ipath = opath
        # earlier calls of the same process on these paths (a point may carry a history), then the files as the point says
        fam_syncprops.play_history(m, d, pt.get("history"), ipath, opath)
        with open(ipath, "wb") as f:
            f.write(isrc.encode("utf-8"))
        with open(opath, "wb") as f:
            f.write(osrc.encode("utf-8"))
        present = set(os.listdir(d))
        others = {}
        for fn_ in present - {os.path.basename(ipath), os.path.basename(opath)}:
            with open(os.path.join(d, fn_), "rb") as f:
                others[fn_] = f.read()
        # the call: the function, or the command line (in this process / in a process of its own)
        exc = fam_syncprops.invoke(m, pt.get("route"), ev, ipath, list(ips), opath, list(ops), wrap)
        with open(ipath, "rb") as f:
            in_after = f.read()
        with open(opath, "rb") as f:
            out_after = f.read()
        leftovers = sorted(set(os.listdir(d)) - present)
        for fn_, before_ in others.items():
            with open(os.path.join(d, fn_), "rb") as f:
                if f.read() != before_:
                    leftovers.append(fn_ + " (a file of an earlier call, rewritten)")
    finally:
        shutil.rmtree(d, ignore_errors=True)
    if not same_file and in_after != isrc.encode("utf-8"):
        return False, "the input file was modified", "input-modified"
    if leftovers:
        return False, "files left behind: %s" % leftovers, "stray-files"
    if not resolves:
        if exc is None:
            return False, "an address does not resolve, yet no error was reported", "unresolved-no-error"
        if out_after != osrc.encode("utf-8"):
            return False, "an address does not resolve (error %s) and the output file was still written" % exc, \
                "unresolved-written"
        return True, "", None
    if exc is not None:
        if out_after != osrc.encode("utf-8"):
            return False, "raised %s after changing the output file" % exc, "raised-after-write"
        return False, "every address resolves but the call raised %s (nothing written)" % exc, "raised-nothing-written"
    try:
        otree1 = ast.parse(out_after.decode("utf-8"))
    except SyntaxError:
        if not _formatter_accepts(out_after.decode("utf-8")):
            return False, "the output file no longer parses (black rejects what was written too)", \
                "output-rejected-by-formatter"
        return False, "the output file no longer parses", "output-unparsable"
    # every addressed position carries the node addressed in the input (annotation through the template)
    _, inv1, _k1 = paths(otree1, [])
    if not ev:
        for src, dst in zip(in_targets, out_targets):
            new = inv1.get(tuple(pos_o[id(dst)]))
            bad = _new_node_wrong(src, dst, new, wrap)
            if bad:
                return False, bad, "new-node-wrong"
    else:
        # eval mode, statement positions (an argument position is the recorded eval-mode finding): the last pair that
        # addresses a position decides what it carries
        last = {}
        for ip, op, dst in zip(ips, ops, out_targets):
            last[tuple(pos_o[id(dst)])] = (ip, op, dst)
        for p, (ip, op, dst) in last.items():
            if isinstance(dst, ast.arg):
                continue
            want = _eval_expected(isrc, ip, op.split(".")[-1].strip(), wrap)
            new = inv1.get(p)
            if want is not None and (new is None or dump_masked(new, set()) != dump_masked(want, set())):
                return False, "the addressed statement is not `%s`" % ast.unparse(want), "eval-literal-wrong"
    for t in out_targets:
        p = pos_o[id(t)]
        if not _apply_mask(otree1, p):
            return False, "the addressed position %s no longer exists in the output" % (p,), "position-gone"
        _apply_mask(otree0, p)
    if dump_masked(otree0, set()) != dump_masked(otree1, set()):
        return False, "a node other than the addressed ones changed", "other-node-changed", out_after.decode("utf-8")
    return True, "", None


NEW_CLASS = "other-docstring-reformatted"


def refined_class(pt, wire, after_text):
    """-> (class, only docstrings differ?).  The class finding_class_C14_r (coq/model/C14Spec2.v) gives the call together
    with the module the output file really holds afterwards, asked when a node other than the addressed ones changed.
    The new class is given only where the old classifier is silent and the two files, addressed positions masked, differ
    in nothing but docstring constants that have one normal form (blanks ending a line dropped, inspect.cleandoc); that
    test, made in Coq on the two trees, is also returned on its own."""
    try:
        after = [Sym("some"), astwire.enc_module(ast.parse(after_text))]
        outs = run_model([dumps([Sym(fn)] + wire + [after]) for fn in ("c14_class_r", "c14_docstrings_only")])
        e = loads(outs[0])
    except Exception:  # noqa  (a written file outside the wire: stays unclassified)
        return None, False
    return (unhx(e[1]) if isinstance(e, list) and len(e) == 2 and e[0] == "some" else None), outs[1] == "true"


def eval_surrogate(pt):
    """an eval-mode call seen as the plain call it amounts to: sync_property builds `name: Literal[values]` (name = last
    segment of the output address) and proceeds as if that statement had been found in the input file.  The recorded
    class eval-mode-replacement describes what is particular to eval mode (no value: an argument's default slot gets a raw
    string; an attribute's value is dropped); any OTHER failure of an eval-mode call is classified as this plain call is."""
    ev, isrc, ips, osrc, ops, wrap = pt["args"][:6]
    lines, names = [], []
    for ip, op in zip(ips, ops):
        name = op.split(".")[-1].strip()
        want = _eval_expected(isrc, ip, name, None)
        if want is None or not name.isidentifier():
            return None
        lines.append(ast.unparse(want))
        names.append(name)
    if not lines or len(ips) != len(ops):
        return None
    return {"fn": "sync_properties", "args": [False, "\n".join(lines) + "\n", names, osrc, list(ops), wrap]}


def check_case(case):
    if case.get("fn") == "sync_properties" and "args" in case:
        return impl_holds(case)
    return True, ""


# points every run evaluates first: three confirmed shapes of the recorded class several-pairs-on-unreannotated-tree
# (the same output address twice: AssertionError, nothing written; the node moved by the first pair is hit by the second
# pair's address: `def g(y: int, y)` is written; two swapped pairs: `def f(a: int, b)` is written)
FIXED_POINTS = [
    {"fam": "syncprops", "fn": "sync_properties",
     "args": [False, "def f(a: int = 1): pass\n", ["f.a", "f.a"], "def g(x, y=2): pass\n", ["g.x", "g.x"], None],
     "tags": ["noeval", "pairs-2", "nowrap", "same-output-twice"]},
    {"fam": "syncprops", "fn": "sync_properties",
     "args": [False, "def g(y: int): pass\n", ["g.y", "g.y"], "def g(x, y): pass\n", ["g.x", "g.y"], None],
     "tags": ["noeval", "pairs-2", "nowrap", "moved-node-hit-first"]},
    {"fam": "syncprops", "fn": "sync_properties",
     "args": [False, "def f(a: int, b: int): pass\n", ["f.b", "f.a"], "def f(a, b): pass\n", ["f.a", "f.b"], None],
     "tags": ["noeval", "pairs-2", "nowrap", "swap"]},
]


def oracle(rng, tier):
    n = 2500 if tier == "quick" else 14000
    pts = [c for c in fam_syncprops.gen(rng, int(n * 1.45), tier) if c["fn"] == "sync_properties"][:n]
    pts = [dict(p, args=list(p["args"]), tags=list(p["tags"])) for p in FIXED_POINTS] + pts
    # a few of the calls once more as `python -m doctrans sync_properties ...` in a process of their own
    plain = [p for p in pts if not p.get("history") and len(p["args"][2]) == len(p["args"][4])]
    for p in rng.sample(plain, min(len(plain), 24 if tier == "quick" else 150)):
        pts.append(dict(p, route="cli-subprocess", tags=[t for t in p["tags"] if not t.startswith("route-")] + ["route-cli-subprocess"]))
    wires = [fam_syncprops.wire_args(p["args"]) for p in pts]
    outs = run_model([dumps([Sym("c14_class")] + w) for w in wires] + [dumps([Sym("c14_holds")] + w) for w in wires])
    classes, mholds = outs[:len(pts)], outs[len(pts):]
    failures, hist, seen, disagree = [], collections.Counter(), set(), []
    n_eval = 0
    for p, w, c, mh in zip(pts, wires, classes, mholds):
        if c == "out-of-domain":
            hist["out-of-domain"] += 1
            continue
        ce = loads(c)
        cls = None if ce == "none" else unhx(ce[1])
        ok, what, kind, after_text = impl_judge_ex(p)
        n_eval += 1
        reformatted = False
        if not ok and kind == "other-node-changed":
            cls_r, reformatted = refined_class(p, w, after_text)
            if cls is None:
                cls = cls_r
        if not ok and cls is not None:
            if kind in NEVER_ABSORBED:
                hist["not-absorbed:%s:%s" % (cls, kind)] += 1
                what += " [a failure of this kind is not what the recorded class %s describes]" % cls
                cls = None
            elif kind == "eval-literal-wrong":
                sur = eval_surrogate(p)
                sc = run_model([dumps([Sym("c14_class")] + fam_syncprops.wire_args(sur["args"]))])[0] if sur else None
                if sc is not None and sc != "out-of-domain" and loads(sc) == "none":
                    hist["not-absorbed:%s:%s" % (cls, kind)] += 1
                    what += " [the plain call with this Literal written in the input file is inside the proved region]"
                    cls = None
        if not ok and cls is not None and mh == "true" and not reformatted:
            # the recorded classes are classes of the MODELLED behaviour: on this call the faithful model of the code
            # (quirks of several pairs included) satisfies the property, so what went wrong here is none of them
            hist["not-absorbed:%s:model-holds" % cls] += 1
            what += " [the model of the code satisfies the property on this call: not what the recorded class %s describes]" % cls
            cls = None
        hist["route:%s:%s" % (p.get("route") or "api", "history" if p.get("history") else "single")] += 1
        strata = ":".join(p["tags"][:4])
        hist["%s:%s:%s" % (strata, "holds" if ok else "fails", cls or "in-guard")] += 1
        if cls is None:
            seen.add(dumps([p["args"][0], p["args"][1], list(p["args"][2]), p["args"][3], list(p["args"][4]),
                            p["args"][5] or ""]))
        # (the model judges the tree handed to emit.file; what the class other-docstring-reformatted describes is done to
        # the text afterwards, by the formatter: where the written file differs from the original in reformatted docstrings
        # only, the model holds and the file does not - the recorded finding, not a broken correspondence)
        if mh in ("true", "false") and (mh == "true") != ok and not reformatted:
            disagree.append({"case": p, "model_holds": mh, "impl_holds": ok, "what": what, "class": cls})
        if not ok:
            failures.append({"case": p, "what": what, "class": cls})
    return {
        "evaluations": n_eval,
        "distinct_nontrivial": len(seen),
        "rule": "pairs of generated/hand-written modules x 1..3 (input, output) addresses (arguments positional and "
                "keyword-only, class attributes, module-level assignments, non-existing) x template on/off x eval on/off "
                "(evaluated values incl. members equal across types and repeated members) x two files / one file (eval mode "
                "too); modules with multi-line text constants (blank-only lines, odd indentation) outside the addressed "
                "positions; several pairs that meet (same output address twice, input address = a later output address, "
                "swapped pairs; three fixed points of that kind first), run on "
                "real temporary files; x how the call is made (the function; the command line doctrans.__main__.main with "
                "repeated --input-param/--output-param, pair by pair or grouped, the same input parameter for several "
                "outputs included; `python -m doctrans` in a process of its own) x alone / after 1..2 earlier calls in the "
                "same process on the same paths (same call, other output module, input file edited in between, other input "
                "module), each call judged against the files as they are when it starts; "
                "non-trivial = distinct call inside the proved region (guard_C14)",
        "failures": failures,
        "model_impl_property_disagreements": disagree,
        "histogram": dict(hist),
        "samples": [pts[i] for i in range(0, min(len(pts), 40), 8)],
    }
