"""C04 - argparse-function round-trip fidelity (composed from the emit-side layer EmitAst and the parse-side layer
ParseAst).

Oracle: real  emit.argparse_function -> ast.unparse -> ast.parse -> parse.argparse_ast  on generated interface
descriptions of the argparse-expressible sub-domain x default text on/off x word-wrap on/off x wrap_description,
compared with same_interface_argparse (description text, option names and order, help, types, defaults with the
permitted normalisations, a return entry that carries a default).  Every failure is classified by the executable Coq
classifier C04Spec.finding_class_C04 (through the driver); a failure the classifier does not name is a violation.
Points outside C04_domain (names that are not distinct identifiers, types argparse cannot express) and points whose
defaults are not scalars (class `unmodelled`) are skipped."""
import fam_parseast
import fam_emitast

ID = "C04"
COQ_PROP = "C04"
FAMILIES = [(fam_parseast, 2500, 30000), (fam_emitast, 2500, 30000)]
TECHNIQUE = ("Coq proof of the AST-level codec parse_argparse_ast (emit_argparse ir): one add_argument call per parameter and "
             "one parameter per call (names and order for every IR and option combination), description text, and per-parameter "
             "type / required / default / choices / action recovery under guard_C04_ast, unbounded in the number of parameters "
             "(the require_default flag is carried through the induction) + differential correspondence of the EmitAst and "
             "ParseAst models + round-trip oracle on the real emitter/parser classified by finding_class_C04")
TRUSTED = [
    "modelled, not verified: ast.unparse followed by ast.parse is the identity on the emitted tree (hypothesis R1; the oracle "
    "runs the real unparse/parse on every point)",
    "the docstring layer is decoupled: emit.docstring's text is an input of emit_argparse and the IR parse_docstring returns "
    "is an input of parse_argparse_ast; the theorem holds for every such pair (the function docstring only matters for a "
    "return entry with a default, which is a finding class)",
    "word_wrap / wrap_description on: Fill.fill is part of the model; the theorem is stated for both off (wrapping of long "
    "text is a finding class, short text is covered by correspondence and the oracle)",
    "finding_class_C04 (the partition of the failures of the real code) is validated by the oracle on every run, not proved "
    "complete: guard_C04_ast of the theorem is a sub-domain of guard_C04",
]


def oracle(rng, tier):
    n = 3000 if tier == "quick" else 40000
    return fam_parseast.oracle_argparse(rng, n)


def check_case(case):
    return fam_parseast.check_case_roundtrip(dict(case, kind="argparse"))
