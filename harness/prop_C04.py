"""C04 - argparse-function round-trip fidelity (composed from the emit-side layer EmitAst and the parse-side layer
ParseAst).

Oracle: real  emit.argparse_function -> ast.unparse -> ast.parse -> parse.argparse_ast  on generated interface
descriptions of the argparse-expressible sub-domain x default text on/off x word-wrap on/off x wrap_description,
compared with same_interface_argparse (description text, option names and order, help, types, defaults with the
permitted normalisations, a return entry that carries a default).  Every failure is classified by the executable Coq
classifier C04Spec.finding_class_C04 (through the driver); a failure the classifier does not name is a violation.
Points outside C04_domain (names that are not distinct identifiers, types argparse cannot express) and points whose
defaults are not scalars (class `unmodelled`) are skipped."""
import fam_parseast
import fam_emitast

ID = "C04"
COQ_PROP = "C04"
import fam_docemit  # noqa: E402  (help/description wrapping is pure_utils.fill; the function docstring goes through the docstring layers)
import fam_docparse  # noqa: E402

FAMILIES = [(fam_parseast, 2000, 30000), (fam_emitast, 2000, 30000), (fam_docemit, 1200, 15000), (fam_docparse, 1000, 15000)]
TECHNIQUE = ("Coq proof of the AST-level codec parse_argparse_ast (emit_argparse ir): one add_argument call per parameter and one "
             "parameter per call, names and order for every IR, option combination and docstring (C04_names_order); inside "
             "guard_C04_ast (T, Optional[T], List[T] over a scalar T, Literal of two or more strings; wrapping off) the parser returns "
             "the description and the closed form norm_params_C04 ir -- help, type, choices, append, required/Optional, defaults with "
             "their Python type, zero value for required options, the require_default flag threaded through the induction -- which "
             "is same_interface_argparse to argparse_type_norm ir (C04_partial); unbounded in the number of parameters and of "
             "choices; ~ C04_ast_statement with one computed witness per AST-visible finding class + differential correspondence "
             "of the EmitAst and ParseAst models + round-trip oracle on the real emitter/parser classified by finding_class_C04 + "
             "audit of the theorem's guard on the real code")
TRUSTED = [
    "modelled, not verified: ast.unparse followed by ast.parse is the identity on the emitted tree (hypothesis R1; the oracle "
    "runs the real unparse/parse on every point)",
    "the docstring layer is decoupled: emit.docstring's text is an input of emit_argparse and the IR parse_docstring returns "
    "is an input of parse_argparse_ast; the theorems hold for every such text and IR (they only matter for a return entry "
    "with a default, which is a finding class: C04_return_requoted_witness)",
    "word_wrap / wrap_description on: Fill.fill is part of the model; C04_partial is stated for both off (wrapping of long text "
    "is a finding class; short text is covered by correspondence and the oracle); C04_names_order holds for every combination",
    "outside guard_C04_ast and not proved: **kwargs-style parameters (the None marker of Optional[dict] is emitted through the "
    "recorded parse table), code-quoted defaults, carried bodies",
    "finding_class_C04 (the partition of the failures of the real code) is validated by the oracle on every run, not proved "
    "complete; guard_C04_ast covers the generated points the classifier leaves unflagged except the kwargs ones",
]


def _theorem_guard_audit(rng, n):
    """points inside guard_C04_ast (the sub-domain of theorem C04_partial; word_wrap and wrap_description off): the classifier
    must not flag them and the real round trip must hold.  Needs the family run_c04compose of model/C04Codec.v in the
    driver; skipped otherwise."""
    from common import Sym, dumps, loads, run_model, unhx
    import irwire
    F = fam_parseast
    pts = [F.gen_point(rng, "argparse") for _ in range(n)]
    enc = [irwire.enc_ir(F._od(ir)) for ir, _, _ in pts]
    g = run_model([dumps([Sym("c04_ast_check"), e, o["emit_default_doc"]]) for e, (_, o, _) in zip(enc, pts)])
    if any(r == "bad-request" for r in g[:1]):
        return {"theorem-guard:family-not-in-driver": 1}, []
    cls = run_model([dumps([Sym("c04_class"), o["emit_default_doc"], False, False, e]) for e, (_, o, _) in zip(enc, pts)])
    hist, failures = {"theorem-guard:inside": 0, "theorem-guard:points": n}, []
    for (ir, o, _), a, c in zip(pts, g, cls):
        ga = loads(a)
        if ga[0] != "true":
            continue
        hist["theorem-guard:inside"] += 1
        o2 = dict(o, word_wrap=False, wrap_description=False)
        case = {"kind": "argparse", "ir": ir, "opts": o2}
        if ga[1] != "true" or ga[2] != ["some", "true"]:
            failures.append({"case": case, "class": None,
                             "what": "model: guard_C04_ast holds but the composed model round trip / closed form does not (%r)" % (ga,)})
        ce = loads(c)
        if ce != "none":
            failures.append({"case": case, "class": None,
                             "what": "inside guard_C04_ast but finding_class_C04 says %s" % (ce if ce == "out-of-domain" else unhx(ce[1]))})
            continue
        ok, what, _ = F.round_trip("argparse", ir, o2)
        if not ok:
            failures.append({"case": case, "what": "inside guard_C04_ast, yet: " + what, "class": None})
    return hist, failures


def oracle(rng, tier):
    n = 3000 if tier == "quick" else 40000
    res = fam_parseast.oracle_argparse(rng, n)
    hist, failures = _theorem_guard_audit(rng, 600 if tier == "quick" else 8000)
    res["histogram"].update(hist)
    res["failures"] += failures
    res["evaluations"] += hist.get("theorem-guard:points", 0)
    res["rule"] += (" | audit of the theorem's guard: points inside guard_C04_ast (wrapping off) must be unflagged by finding_class_C04 "
                    "and round-trip on the real code")
    return res


def check_case(case):
    return fam_parseast.check_case_roundtrip(dict(case, kind="argparse"))
