"""C04 - argparse-function round-trip fidelity (composed from the emit-side layer EmitAst and the parse-side layer
ParseAst).

Oracle: real  emit.argparse_function -> ast.unparse -> ast.parse -> parse.argparse_ast  on generated interface
descriptions of the argparse-expressible sub-domain x default text on/off x word-wrap on/off x wrap_description,
compared with same_interface_argparse (description text, option names and order, help, types, defaults with the
permitted normalisations, a return entry that carries a default).  Every failure is classified by the executable Coq
classifier C04Spec2.finding_class_C04_r (through the driver: C04Spec's finding_class_C04 refined by the classes
summary-quoted and help-quoted that a proof found inside its "no finding" region); a failure the classifier does not
name is a violation, and a new class stands only for the failure it describes (the description / the help text coming
back without its outer pair of quote marks) - any other difference at such a point is a violation.  A stratum of the
oracle draws those shapes.
Points outside C04_domain (names that are not distinct identifiers, types argparse cannot express) and points whose
defaults are not scalars (class `unmodelled`) are skipped."""
import fam_parseast
import fam_emitast

ID = "C04"
COQ_PROP = "C04"
import fam_docemit  # noqa: E402  (help/description wrapping is pure_utils.fill; the function docstring goes through the docstring layers)
import fam_docparse  # noqa: E402

FAMILIES = [(fam_parseast, 2000, 30000), (fam_emitast, 2000, 30000), (fam_docemit, 1200, 15000), (fam_docparse, 1000, 15000)]
TECHNIQUE = ("Coq proof of the AST-level codec parse_argparse_ast (emit_argparse ir): one add_argument call per parameter and one "
             "parameter per call, names and order for every IR, option combination and docstring (C04_names_order); inside "
             "guard_C04_ast (T, Optional[T], List[T] over a scalar T, Literal of two or more strings; wrapping off) the parser returns "
             "the description and the closed form norm_params_C04 ir -- help, type, choices, append, required/Optional, defaults with "
             "their Python type, zero value for required options, the require_default flag threaded through the induction -- which "
             "is same_interface_argparse to argparse_type_norm ir (C04_partial); unbounded in the number of parameters and of "
             "choices; ~ C04_ast_statement with one computed witness per AST-visible finding class + differential correspondence "
             "of the EmitAst and ParseAst models + round-trip oracle on the real emitter/parser classified by finding_class_C04 + "
             "audit of the theorem's guard on the real code")
TRUSTED = [
    "modelled, not verified: ast.unparse followed by ast.parse is the identity on the emitted tree (hypothesis R1; the oracle "
    "runs the real unparse/parse on every point)",
    "the docstring layer is decoupled: emit.docstring's text is an input of emit_argparse and the IR parse_docstring returns "
    "is an input of parse_argparse_ast; the theorems hold for every such text and IR (they only matter for a return entry "
    "with a default, which is a finding class: C04_return_requoted_witness)",
    "word_wrap / wrap_description on: Fill.fill is part of the model; C04_partial is stated for both off (wrapping of long text "
    "is a finding class; short text is covered by correspondence and the oracle); C04_names_order holds for every combination",
    "outside guard_C04_ast and not proved: **kwargs-style parameters (the None marker of Optional[dict] is emitted through the "
    "recorded parse table), code-quoted defaults, carried bodies",
    "finding_class_C04_r (the partition of the failures of the real code: finding_class_C04 plus the two classes of "
    "model/C04Spec2.v) is validated by the oracle on every run, not proved complete; a proof found a failure the first "
    "classifier did not name (a description wrapped in quote marks comes back without them, set_value strips one pair: "
    "theorem C05_region_hole_quoted_summary; the same for help texts), now the classes summary-quoted and help-quoted "
    "(proofs/C04Spec2Facts.v: the refinement only adds these, its guard is inside guard_C04); guard_C04_ast covers the "
    "generated points the classifier leaves unflagged except the kwargs ones",
]


def _theorem_guard_audit(rng, n):
    """points inside guard_C04_ast (the sub-domain of theorem C04_partial; word_wrap and wrap_description off): the classifier
    must not flag them and the real round trip must hold.  Needs the family run_c04compose of model/C04Codec.v in the
    driver; skipped otherwise."""
    from common import Sym, dumps, loads, run_model, unhx
    import irwire
    F = fam_parseast
    pts = [F.gen_point(rng, "argparse") for _ in range(n)]
    enc = [irwire.enc_ir(F._od(ir)) for ir, _, _ in pts]
    g = run_model([dumps([Sym("c04_ast_check"), e, o["emit_default_doc"]]) for e, (_, o, _) in zip(enc, pts)])
    if any(r == "bad-request" for r in g[:1]):
        return {"theorem-guard:family-not-in-driver": 1}, []
    cls = run_model([dumps([Sym("c04_class_r"), o["emit_default_doc"], False, False, e]) for e, (_, o, _) in zip(enc, pts)])
    hist, failures = {"theorem-guard:inside": 0, "theorem-guard:points": n}, []
    for (ir, o, _), a, c in zip(pts, g, cls):
        ga = loads(a)
        if ga[0] != "true":
            continue
        hist["theorem-guard:inside"] += 1
        o2 = dict(o, word_wrap=False, wrap_description=False)
        case = {"kind": "argparse", "ir": ir, "opts": o2}
        if ga[1] != "true" or ga[2] != ["some", "true"]:
            failures.append({"case": case, "class": None,
                             "what": "model: guard_C04_ast holds but the composed model round trip / closed form does not (%r)" % (ga,)})
        ce = loads(c)
        if ce != "none":
            failures.append({"case": case, "class": None,
                             "what": "inside guard_C04_ast but finding_class_C04_r says %s" % (ce if ce == "out-of-domain" else unhx(ce[1]))})
            continue
        ok, what, _ = F.round_trip("argparse", ir, o2)
        if not ok:
            failures.append({"case": case, "what": "inside guard_C04_ast, yet: " + what, "class": None})
    return hist, failures


RETURN_DEFAULTS = ["```(np.empty(0), np.empty(0))```", "```x```", "```5```", "```None```", "```[1, 2]```", "0", "5", "mnist", "x",
                   "'a'", "np.empty(0)", "2.5", "True"]


def _lengthen_fields(rng, ir):
    """(ir2, fields): a copy of ir in which a non-empty random subset of its one-line proses (a summary line, parameter
    prose, the prose of the return entry) is made longer than the wrap width by inserting plain words; None when there
    is no such prose"""
    import copy
    import gen_text as G
    cand = []
    doc_lines = (ir.get("doc") or "").split("\n")
    cand += [("doc", i) for i, l in enumerate(doc_lines) if l.strip()]
    # (prose that itself announces a default is left alone: words appended to it would become part of the announced value)
    cand += [("param", k) for k, p in ir["params"].items()
             if isinstance(p.get("doc"), str) and p["doc"].strip() and "\n" not in p["doc"] and "efault" not in p["doc"]]
    r = (ir.get("returns") or {}).get("return_type")
    if r is not None and isinstance(r.get("doc"), str) and r["doc"].strip() and "\n" not in r["doc"] and "efault" not in r["doc"]:
        cand += [("return", None)] * 2
    if not cand:
        return None
    chosen = sorted(set(rng.sample(cand, rng.randint(1, min(3, len(cand))))), key=str)
    ir2 = copy.deepcopy(ir)
    for kind, k in chosen:
        if kind == "doc":
            doc_lines[k] = G.lengthen(rng, doc_lines[k], min_len=90)
            ir2["doc"] = "\n".join(doc_lines)
        elif kind == "param":
            ir2["params"][k]["doc"] = G.lengthen(rng, ir["params"][k]["doc"], min_len=90)
        else:
            ir2["returns"]["return_type"]["doc"] = G.lengthen(rng, r["doc"], min_len=70)
    return ir2, chosen


def _field(ir, kind, k):
    if ir is None:
        return None
    if kind == "doc":
        return ir.get("doc")
    if kind == "param":
        return ((ir.get("params") or {}).get(k) or {}).get("doc")
    return (((ir.get("returns") or {}).get("return_type")) or {}).get("doc")


def _without_fields(ir, fields):
    """plain-dict copy of a parsed-back interface with the given prose fields blanked (everything else comparable)"""
    out = {"doc": ir.get("doc"), "params": [(k, dict(p)) for k, p in (ir.get("params") or {}).items()],
           "returns": [(k, dict(p)) for k, p in (ir.get("returns") or {}).items()]}
    for kind, k in fields:
        if kind == "doc":
            out["doc"] = None
        elif kind == "param":
            for n, p in out["params"]:
                if n == k:
                    p.pop("doc", None)
        else:
            for n, p in out["returns"]:
                p.pop("doc", None)
    return repr(out)


def wrap_off_length_holds(case):
    """with word_wrap and wrap_description off nothing looks at the length of prose: lengthening proses that the round trip
    preserves must give the same parsed-back interface, with the longer proses preserved verbatim.
    case: {ir (short), ir_long, fields, opts}.  -> (holds or None when the short point is not eligible, what)"""
    F = fam_parseast
    fields = [tuple(f) for f in case["fields"]]
    _, _, out_s = F.round_trip("argparse", case["ir"], case["opts"])
    if out_s is None or any(_field(out_s, *f) != _field(case["ir"], *f) for f in fields):
        return None, "the short point does not preserve these proses"
    _, what_l, out_l = F.round_trip("argparse", case["ir_long"], case["opts"])
    if out_l is None:
        return False, "word-wrap off, prose lengthened: " + what_l
    for f in fields:
        if _field(out_l, *f) != _field(case["ir_long"], *f):
            return False, "word-wrap off: %s prose %r came back as %r (the shorter %r comes back verbatim)" % (
                f[0] if f[1] is None else "%s %s" % f, _field(case["ir_long"], *f), _field(out_l, *f), _field(case["ir"], *f))
    if _without_fields(out_l, fields) != _without_fields(out_s, fields):
        return False, "word-wrap off: lengthening prose changed the rest of the parsed-back interface: %s vs %s" % (
            _without_fields(out_l, fields), _without_fields(out_s, fields))
    return True, ""


def _wrap_off_length_audit(rng, n):
    """stratum: argparse points with wrapping off (half of them with a return entry that carries a default), each
    re-run with some proses lengthened past the wrap width"""
    from collections import OrderedDict
    from common import Sym, dumps, loads, run_model
    import gen_ir
    import gen_text as G
    import irwire
    F = fam_parseast
    pts = []
    while len(pts) < n:
        ir, o, _ = F.gen_point(rng, "argparse")
        o = dict(o, word_wrap=False, wrap_description=False)
        if rng.random() < 0.5:
            r = {"doc": G.clean_prose(rng, terminal=rng.choice([".", ".", "", ","])), "default": rng.choice(RETURN_DEFAULTS)}
            if rng.random() < 0.85:
                r["typ"] = gen_ir.typ_of_shape(rng, rng.choice(["scalar", "scalar", "optional", "list"]))
            ir = dict(ir, returns=OrderedDict((("return_type", r),)))
        lf = _lengthen_fields(rng, ir)
        if lf is not None:
            pts.append({"kind": "argparse", "ir": ir, "ir_long": lf[0], "fields": [list(f) for f in lf[1]], "opts": o})
    dom = run_model([dumps([Sym("c04_class"), p["opts"]["emit_default_doc"], False, False, irwire.enc_ir(F._od(p[k]))])
                     for p in pts for k in ("ir", "ir_long")])
    hist, failures = {"wrap-off-length:points": 0}, []
    for i, p in enumerate(pts):
        if any(loads(d) == "out-of-domain" for d in dom[2 * i:2 * i + 2]):
            hist["wrap-off-length:out-of-domain"] = hist.get("wrap-off-length:out-of-domain", 0) + 1
            continue
        ok, what = wrap_off_length_holds(p)
        key = "wrap-off-length:" + ("not-eligible" if ok is None else "holds" if ok else "fails") + \
              (":return-default" if any(f[0] == "return" for f in p["fields"]) else "")
        hist[key] = hist.get(key, 0) + 1
        if ok is None:
            continue
        hist["wrap-off-length:points"] += 1
        if not ok:
            failures.append({"case": p, "what": what, "class": None})
    return hist, failures


# ------------------------------------------------------------------ the classes of model/C04Spec2.v
NEW_CLASSES = ("summary-quoted", "help-quoted")


def _refined(pts):
    """[(refined class or None or 'out-of-domain', new classes that apply, parameters whose help text is quoted)] for
    (ir, opts) points, from C04Spec2 (c04_class_r, c04_new_classes)"""
    from common import Sym, dumps, loads, run_model, unhx
    import irwire
    reqs = []
    for ir, o in pts:
        e = irwire.enc_ir(fam_parseast._od(ir))
        reqs += [dumps([Sym(f), o["emit_default_doc"], o["word_wrap"], o.get("wrap_description", False), e])
                 for f in ("c04_class_r", "c04_new_classes")]
    out, resp = [], run_model(reqs)
    for k in range(len(pts)):
        ce, nw = loads(resp[2 * k]), loads(resp[2 * k + 1])
        cls = "out-of-domain" if ce == "out-of-domain" else None if ce == "none" else unhx(ce[1])
        out.append((cls, [unhx(x) for x in nw[0]], [unhx(x) for x in nw[1]]))
    return out


def described_by_new_classes(ir, out, news, helps):
    """a new class stands for the failure it describes only: the parsed-back description must be the input with the outer
    pair of quote marks removed from the description (summary-quoted) and from the help text of the named parameters
    (help-quoted) - every other difference (and an exception anywhere) is not what these classes describe"""
    import copy
    if out is None:
        return False
    exp = copy.deepcopy(ir)
    if "summary-quoted" in news and isinstance(exp.get("doc"), str):
        exp["doc"] = exp["doc"][1:-1]
    for n in helps:
        p = (exp.get("params") or {}).get(n)
        if p is not None and isinstance(p.get("doc"), str):
            p["doc"] = p["doc"][1:-1]
    return not fam_parseast.same_interface(exp, out, "argparse")


def _gen_new_shape(rng):
    """an (ir, opts, tags) point whose description and / or one help text starts and ends with the same quote mark; next to
    0..2 clean parameters"""
    from collections import OrderedDict
    import gen_ir
    import gen_text as G
    ir, _ = gen_ir.gen_ir(rng, nparams=rng.choice([0, 0, 1, 2]), returns="none", kwargs=False, clean=True)
    k = rng.random()
    where = "summary" if k < 0.5 else "help" if k < 0.85 else "both"
    ir["doc"] = G.quoted_text(rng) if where != "help" else G.clean_prose(rng, max_words=6)
    name = G.ident(rng)
    while name in ir["params"]:
        name = G.ident(rng)
    typ = rng.choice(["int", "str", "float", "Optional[int]", "Optional[str]", "bool"])
    p = {"doc": G.quoted_text(rng) if where != "summary" else G.clean_prose(rng), "typ": typ,
         "default": gen_ir.consistent_default(rng, typ, ["value"])[1]}
    items = list(ir["params"].items())
    items.insert(rng.randint(0, len(items)), (name, p))
    ir["params"] = OrderedDict(items)
    opts = {"emit_default_doc": rng.random() < 0.3, "word_wrap": rng.random() < 0.5, "wrap_description": rng.random() < 0.25}
    return ir, opts, ["quoted:" + where]


def _classify_failure(case, out, info):
    """the class a failure at a point is reported under: the refined class, except that a NEW class is kept only when the
    failure is what the new classes that apply describe (otherwise None: a violation).  -> (class, note)"""
    cls, news, helps = info
    if cls in NEW_CLASSES and not described_by_new_classes(case["ir"], out, news, helps):
        return None, " [not what the recorded class%s %s describe%s]" % ("es" if len(news) > 1 else "", ", ".join(news),
                                                                        "" if len(news) > 1 else "s")
    return cls, ""


def _new_shape_oracle(rng, n):
    """stratum: the shapes of _gen_new_shape through the real round trip, classified by the refined classifier"""
    import collections
    F = fam_parseast
    pts = [_gen_new_shape(rng) for _ in range(n)]
    infos = _refined([(ir, o) for ir, o, _ in pts])
    hist, failures = collections.Counter(), []
    n_eval = 0
    for (ir, o, tags), info in zip(pts, infos):
        cls = info[0]
        if cls == "out-of-domain":
            hist["new-shapes:out-of-domain"] += 1
            continue
        case = {"kind": "argparse", "ir": ir, "opts": o}
        ok, what, out = F.round_trip("argparse", ir, o)
        n_eval += 1
        if cls == "unmodelled":
            continue
        if not ok:
            cls, note = _classify_failure(case, out, info)
            failures.append({"case": case, "what": what + note, "class": cls})
        hist["new-shapes:%s:%s:%s" % (tags[0], "holds" if ok else "fails", cls or "in-guard")] += 1
    hist["new-shapes:points"] = n_eval
    return dict(hist), failures


# ------------------------------------------------------------------ Literal types with degenerate members
LITERAL_CLASSES = ("literal-without-default", "literal-single-choice")


def _gen_literal_shape(rng):
    """an (ir, opts, tags, name) point with one option whose type is a Literal of strings with a degenerate member (the
    empty string, a blank string, a repeated member, a single member, double quote marks inside, text that reads as a
    number / keyword constant, inner blanks or commas), mostly with an explicit default that is one of the members, next to
    0..2 options of the proved shape (scalar type, clean help, type-consistent default)"""
    from collections import OrderedDict
    import gen_ir
    import gen_text as G
    items = []
    used = set()
    for _ in range(rng.choice([0, 0, 1, 2])):
        n = G.ident(rng)
        while n in used:
            n = G.ident(rng)
        used.add(n)
        typ = rng.choice(["int", "str", "float", "Optional[int]", "Optional[str]"])
        v = {"int": rng.choice([5, 1, -3, 100]), "float": rng.choice([0.5, 2.5, -1.25]),
             "str": rng.choice(["mnist", "adam", "relu", "x"])}[typ.replace("Optional[", "").rstrip("]")]
        items.append((n, {"doc": G.clean_prose(rng), "typ": typ, "default": v}))
    name = G.ident(rng)
    while name in used:
        name = G.ident(rng)
    members, kind = G.degenerate_literal_members(rng)
    p = {"doc": G.clean_prose(rng), "typ": G.literal_typ(members)}
    k = rng.random()
    if k < 0.45:
        p["default"] = rng.choice(members)
        dk = "member"
    elif k < 0.80:
        # the degenerate member itself when there is one
        odd = [m for m in members if m not in G.LITERAL_PLAIN] or members
        p["default"] = rng.choice(odd)
        dk = "odd-member"
    else:
        dk = "absent"
    items.insert(rng.randint(0, len(items)), (name, p))
    ir = {"name": None, "type": "static", "doc": G.clean_prose(rng, max_words=6), "params": OrderedDict(items), "returns": None}
    opts = {"emit_default_doc": rng.random() < 0.4, "word_wrap": rng.random() < 0.5, "wrap_description": False}
    return ir, opts, ["literal:" + kind, "default:" + dk], name


def _literal_entry_described(ir, out, name):
    """the two recorded Literal classes stand for what they describe only: the Literal option comes back with the same help
    text, with '' as its default when it had none (literal-without-default) and with the type `str` when it has a single
    member (literal-single-choice) - every member of a Literal of two or more choices must come back, in order"""
    import ast
    if out is None or name not in (out.get("params") or {}):
        return False
    exp = dict(ir["params"][name])
    try:
        sl = ast.parse(exp["typ"], mode="eval").body.slice
        n_members = len(sl.elts) if isinstance(sl, ast.Tuple) else 1
    except Exception:  # noqa
        return False
    if n_members == 1:
        exp["typ"] = "str"
    if "default" not in exp:
        exp["default"] = ""
    what = []
    fam_parseast._cmp_param(exp, out["params"][name], what, name)
    return not what


def _literal_shape_oracle(rng, n):
    """stratum: the shapes of _gen_literal_shape through the real round trip, classified by the refined classifier; a
    failure in one of the two Literal classes must be the difference that class describes for the Literal option"""
    import collections
    F = fam_parseast
    pts = [_gen_literal_shape(rng) for _ in range(n)]
    infos = _refined([(ir, o) for ir, o, _, _ in pts])
    hist, failures = collections.Counter(), []
    n_eval = 0
    for (ir, o, tags, name), info in zip(pts, infos):
        cls = info[0]
        if cls == "out-of-domain":
            hist["literal-shapes:out-of-domain"] += 1
            continue
        case = {"kind": "argparse", "ir": ir, "opts": o}
        ok, what, out = F.round_trip("argparse", ir, o)
        n_eval += 1
        if cls == "unmodelled":
            continue
        if not ok:
            cls, note = _classify_failure(case, out, info)
            if cls in LITERAL_CLASSES and not _literal_entry_described(ir, out, name):
                cls, note = None, " [not what the recorded class %s describes for option %s]" % (cls, name)
            failures.append({"case": case, "what": what + note, "class": cls})
        hist["literal-shapes:%s:%s:%s" % (tags[0], "holds" if ok else "fails", cls or "in-guard")] += 1
    hist["literal-shapes:points"] = n_eval
    return dict(hist), failures


RETURN_CLASSES = ("return-default-requoted",)


def _return_entry_described(ir, out):
    """what the recorded class return-default-requoted describes: a return entry WITH a default comes back - present - with
    its default re-quoted, one WITHOUT a default is dropped.  A return entry that carries a default and is MISSING after the
    round trip is not that difference"""
    r = ((ir.get("returns") or {}).get("return_type")) if isinstance(ir.get("returns"), dict) else None
    if not r or r.get("default") is None:
        return True
    got = ((out.get("returns") or {}).get("return_type")) if isinstance(out, dict) else None
    return got is not None


def _tighten_return(failures):
    """return-default-requoted stands only for the difference it describes (seeded change C04-5 drops the whole entry
    for a default spelled None; the class used to absorb that)"""
    n = 0
    for f in failures:
        c = f.get("case")
        if f.get("class") in RETURN_CLASSES and isinstance(c, dict) and "ir" in c and "opts" in c and "ir_long" not in c:
            _, _, out = fam_parseast.round_trip("argparse", c["ir"], c["opts"])
            if out is not None and not _return_entry_described(c["ir"], out):
                f["class"] = None
                f["what"] += " [not what the recorded class return-default-requoted describes: the entry carries a default and is missing afterwards]"
                n += 1
    return {"return-class:not-described": n} if n else {}


def _return_default_oracle(rng, n):
    """stratum: a return entry that carries a default written as source text (None, a number, a bool, a quoted string, a
    member of its Literal), under Optional / scalar / Literal types, next to 0..2 options of the proved shape"""
    import collections
    from collections import OrderedDict
    import gen_text as G
    F = fam_parseast
    table = [("Optional[int]", ["None", "0", "5", "-5"]), ("Optional[str]", ["None", "''", "'adam'"]),
             ("Optional[List[str]]", ["None"]), ("int", ["0", "-5", "100"]), ("bool", ["False", "True"]),
             ("str", ["''", "'mnist'"]), ("float", ["0.5", "-1.25"]), ("Literal['a', 'b']", ["'a'", "'b'"])]
    pts = []
    for _ in range(n):
        items, used = [], set()
        for _k in range(rng.choice([0, 1, 1, 2])):
            nm = G.ident(rng)
            while nm in used:
                nm = G.ident(rng)
            used.add(nm)
            typ = rng.choice(["int", "str", "float", "Optional[int]", "Optional[str]", "bool"])
            v = {"int": rng.choice([5, 1, -3]), "float": rng.choice([0.5, 2.5]), "str": rng.choice(["mnist", "adam"]),
                 "bool": rng.choice([True, False])}[typ.replace("Optional[", "").rstrip("]")]
            items.append((nm, {"doc": G.clean_prose(rng), "typ": typ, "default": v}))
        typ, ds = rng.choice(table)
        ret = {"typ": typ, "doc": G.clean_prose(rng, max_words=5), "default": rng.choice(ds)}
        ir = {"name": None, "type": "static", "doc": G.clean_prose(rng, max_words=6), "params": OrderedDict(items),
              "returns": OrderedDict([("return_type", ret)])}
        opts = {"emit_default_doc": rng.random() < 0.4, "word_wrap": rng.random() < 0.5, "wrap_description": False}
        pts.append((ir, opts, ["return-default:" + ("none" if ret["default"] == "None" else "value"), "rtype:" + typ.split("[")[0]]))
    infos = _refined([(ir, o) for ir, o, _ in pts])
    hist, failures, n_eval = collections.Counter(), [], 0
    for (ir, o, tags), info in zip(pts, infos):
        cls = info[0]
        if cls == "out-of-domain":
            hist["return-default:out-of-domain"] += 1
            continue
        case = {"kind": "argparse", "ir": ir, "opts": o}
        ok, what, out = F.round_trip("argparse", ir, o)
        n_eval += 1
        if cls == "unmodelled":
            continue
        if ok and out is not None and not _return_entry_described(ir, out):
            ok, what = False, "the return entry carries a default and is missing after the round trip"
        if not ok:
            cls, note = _classify_failure(case, out, info)
            if cls in RETURN_CLASSES and out is not None and not _return_entry_described(ir, out):
                cls, note = None, " [not what the recorded class return-default-requoted describes]"
            failures.append({"case": case, "what": what + note, "class": cls})
        hist["return-default:%s:%s:%s" % (tags[0], "holds" if ok else "fails", cls or "in-guard")] += 1
    hist["return-default:points"] = n_eval
    return dict(hist), failures


def _reclassify(failures):
    """failures of the other streams that finding_class_C04 does not name: ask the refined classifier"""
    idx = [k for k, f in enumerate(failures) if f.get("class") is None and isinstance(f.get("case"), dict)
           and f["case"].get("kind") == "argparse" and "ir" in f["case"] and "opts" in f["case"] and "ir_long" not in f["case"]]
    if not idx:
        return {}
    infos = _refined([(failures[k]["case"]["ir"], failures[k]["case"]["opts"]) for k in idx])
    hist = {}
    for k, info in zip(idx, infos):
        if info[0] not in NEW_CLASSES:
            continue
        f = failures[k]
        _, _, out = fam_parseast.round_trip("argparse", f["case"]["ir"], f["case"]["opts"])
        cls, note = _classify_failure(f["case"], out, info)
        f["class"], f["what"] = cls, f["what"] + note
        key = "reclassified:" + (cls or "not-described")
        hist[key] = hist.get(key, 0) + 1
    return hist


def oracle(rng, tier):
    n = 3000 if tier == "quick" else 40000
    res = fam_parseast.oracle_argparse(rng, n)
    hist, failures = _theorem_guard_audit(rng, 600 if tier == "quick" else 8000)
    res["histogram"].update(hist)
    res["failures"] += failures
    res["evaluations"] += hist.get("theorem-guard:points", 0)
    hist, failures = _wrap_off_length_audit(rng, 500 if tier == "quick" else 6000)
    res["histogram"].update(hist)
    res["failures"] += failures
    res["evaluations"] += hist.get("wrap-off-length:points", 0)
    res["rule"] += (" | wrapping off: points (half with a return entry that carries a default) re-run with proses lengthened past the "
                    "wrap width must parse back to the same interface with the longer prose verbatim")
    res["rule"] += (" | audit of the theorem's guard: points inside guard_C04_ast (wrapping off) must be unflagged by finding_class_C04_r "
                    "and round-trip on the real code")
    res["histogram"].update(_reclassify(res["failures"]))
    hist, failures = _new_shape_oracle(rng, 300 if tier == "quick" else 3000)
    res["histogram"].update(hist)
    res["failures"] += failures
    res["evaluations"] += hist.get("new-shapes:points", 0)
    res["rule"] += (" | stratum of the shape a proof found inside the first classifier's no-finding region (a description / a help "
                    "text that starts and ends with the same quote mark), classified by finding_class_C04_r; a new class stands "
                    "only for the difference it describes")
    hist, failures = _literal_shape_oracle(rng, 400 if tier == "quick" else 4000)
    res["histogram"].update(hist)
    res["failures"] += failures
    res["evaluations"] += hist.get("literal-shapes:points", 0)
    hist, failures = _return_default_oracle(rng, 250 if tier == "quick" else 3000)
    res["histogram"].update(hist)
    res["failures"] += failures
    res["evaluations"] += hist.get("return-default:points", 0)
    res["histogram"].update(_tighten_return(res["failures"]))
    res["rule"] += (" | stratum: a return entry that carries a default written as source text (None, numbers, quoted strings); the class "
                    "return-default-requoted stands only for a re-quoted default of an entry that is still there")
    res["rule"] += (" | stratum of Literal options with a degenerate member (empty / blank string, repeated member, single member, "
                    "double quote marks, number- or keyword-like text, inner blanks or commas), default a member or absent; the "
                    "classes literal-without-default / literal-single-choice stand only for the difference they describe")
    return res


def check_case(case):
    if "ir_long" in case:
        ok, what = wrap_off_length_holds(case)
        return (ok is not False), what
    return fam_parseast.check_case_roundtrip(dict(case, kind="argparse"))
