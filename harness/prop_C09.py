"""C09 — sync makes every target agree with the declared truth."""
import fam_sync
import sync_judge as J
import sync_props as P

ID = "C09"
COQ_PROP = "C09"
FAMILIES = [(fam_sync, 150, 1500)]
TECHNIQUE = "Coq proof of the sync control logic from named laws (FIX/REPLACE/FIND) over an FS state machine + replay correspondence of recorded layer answers + scenario oracle on the real sync"
TRUSTED = P.TRUSTED
WITNESS_REPLAY = False   # a scenario can fail for several reasons; findings are reported when observed in the run


def oracle(rng, tier):
    return P.evaluate(rng, tier, J.judge_c09, runs=2)


def check_case(case):
    return P.check_scenario(case, J.judge_c09)
