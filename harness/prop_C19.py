"""C19 — gen writes one well-formed, correctly named definition per mapping entry.
Oracle on the real implementation (Python API in-process and `python -m doctrans gen` in a child process) +
classification of every failure by the extracted Coq classifier (finding_class_C19 / guard_C19) + a check, on the
texts of every run, of the facts about ast.parse that the Coq theorems assume (C19Spec.python_like)."""
import ast
import collections
import concurrent.futures
import contextlib
import copy
import importlib
import inspect
import io
import os
import re
import subprocess
import sys
import warnings

from common import Sym, dumps, loads, opt, impl, run_model, unhx, REPO, VENV_PY
import fam_gen

ID = "C19"
COQ_PROP = "C19"
FAMILIES = [(fam_gen, 2500, 20000)]
TECHNIQUE = ("Coq proof over the model of gen's assembly/hoisting/CLI logic (hoisting = stable 3-way partition: Permutation, "
             "order and stability by list induction; names/__all__ by induction over the mapping; parseability from "
             "named facts about ast.parse; guarded C19_partial + refutations with witnesses) + differential "
             "correspondence of Gen.v against doctrans.gen.gen / __main__.main on generated modules")
TRUSTED = [
    "oracle (interface clause): what the entries' source objects look like to the refined classifier (coq/model/C19Spec2.v: the "
    ":cvar names of the class docstring, the nested function definitions with their depth and argument names) is read off "
    "the source text of the generated input module by entry_shapes; every failed interface clause is classified on its own",
    "per-entry conversions (parse.function / parse.class_ and emit.class_ / emit.argparse_function, to_code) are INPUTS of "
    "the model (their text or exception kind is tabulated from the real run); that each generated definition describes "
    "the interface of its source object is checked by this oracle only (parameter names vs inspect.signature), not proved",
    "ast.parse / ast.unparse are represented by the hypotheses C19Spec.python_like (P_empty, P_concat, P_blank, P_trail, "
    "P_canon, P_all); each is tested on the texts of every oracle run, none is proved about CPython",
    "argparse is modelled at the level of which options are present (required options, choices of --type, a ValueError "
    "from the --prepend converter is a usage error); the argv syntax itself is not modelled",
    "the file system is modelled as: the output file exists or not, its content; open(..., 'a') appends",
]

ROUTES = ("api", "cli")


# ------------------------------------------------------------------ points
def gen_points(rng, n):
    pts = []
    for i in range(n):
        # domain="wellformed": prepend in {none, valid text with / without final newline, with docstring, with imports,
        # importing the input module} x imports-from-file in {none, module name (dotted when the input module lives in a
        # package), file path, another file, symbol path of an object of the input module at depth 1..4 with the prepended
        # import that makes it resolvable} x layout of the input module (flat, package, nested package, re-exporting)
        c = fam_gen.gen_case(
            rng, mostly_good=rng.random() < 0.7,
            type_=rng.choice(["class", "class", "argparse", "argparse", "function"]),
            name_tpl=rng.choice(fam_gen.TEMPLATES_GOOD[:2] * 3 + fam_gen.TEMPLATES_GOOD),
            domain="wellformed", mapping_ref="ok", plain_keys=True,
            # about one entry in five has a parameter whose name contains `kwargs` / `args` (kwargs_file, args_count)
            odd_param_names=0.2,
            existing=None if rng.random() < 0.8 else rng.choice(["OLD = 1\n", "# old file", ""]))
        c["opts"] = {"emit_call": False, "emit_default_doc": True, "decorator_list": None}
        c["route"] = "api" if rng.random() < 0.8 else "cli"
        if c["route"] == "cli":
            # how the command line spells the output file (absolute, ./relative, through a symlinked directory, and - onto
            # an existing output - with a literal `~`)
            c["out"] = fam_gen.draw_out(rng, c["existing"])
            # the hash seed of the child interpreter (0 = the one the harness itself runs under)
            c["hashseed"] = 0 if rng.random() < 0.4 else rng.randrange(1, 100000)
        pts.append(c)
    return pts


def sweep_points(rng, pts, k, seeds_per_point=2):
    """the same invocation repeated in fresh interpreters under other PYTHONHASHSEED values: for up to k of the points on a
    fresh output (those with a class documenting attributes of its own first: there the parameters come from two
    sources that have to be merged in order; then the others in drawn order), `seeds_per_point` command-line twins each
    with a drawn hash seed.  A twin is a point like any other: the property is evaluated in full on what its process
    wrote (the names, the order of the definitions and of the parameters of each must be those of the source in EVERY
    process)"""
    fresh = [p for p in pts if p["existing"] is None and p["module"]["entries"]]
    rng.shuffle(fresh)
    fresh.sort(key=lambda p: not any(e["feat"].get("cvars") for e in p["module"]["entries"]))   # stable
    out = []
    for p in fresh[:k]:
        for s in rng.sample(range(1, 100000), seeds_per_point):
            t = copy.deepcopy(p)
            t["route"], t["hashseed"], t["sweep_of"] = "cli", s, p["uid"]
            t.pop("out", None)
            t["uid"] = "%sh%d" % (p["uid"], s)
            out.append(t)
    return out


def feats_of(case):
    out = []
    for e in case["module"]["entries"]:
        f = e["feat"]
        isf = f["kind"] == "function"
        out.append([isf,
                    (f["doc_style"] != "none") if isf else bool(f["class_doc"]),
                    len(f["params"]),
                    len(f["params"]) - int(f.get("ndef", 0)),
                    f["doc_style"] in ("untyped", "typed") and bool(f["params"]),
                    bool(f["annotated"]) and (bool(f["params"]) or bool(f["ret"])),
                    bool(f["ret"])])
    return out


def escape_prepend(p):
    return None if p is None else p.encode("unicode_escape").decode("ascii")


# ------------------------------------------------------------------ evaluating the property on the real code
def _run_api(case, ws):
    m = impl()
    o = case["opts"]
    saved_globals = dict(m.gen.__dict__)     # gen copies the names its prepend imports into its own module globals
    fam_gen.forget_case_modules()            # as in a fresh interpreter: nothing of the input package is imported yet
    try:
        with contextlib.redirect_stdout(io.StringIO()), warnings.catch_warnings():
            warnings.simplefilter("ignore")
            m.gen.gen(case["name_tpl"], ws["input_mapping"], case["type_"], ws["out_path"], prepend=case["prepend"],
                      imports_from_file=ws["imp_arg"], emit_call=o["emit_call"], emit_default_doc=o["emit_default_doc"],
                      decorator_list=o["decorator_list"])
    except Exception as e:  # noqa
        return fam_gen.kind_of(e)
    finally:
        m.gen.__dict__.clear()
        m.gen.__dict__.update(saved_globals)
    return None


def _cli_cmd(case, ws):
    cmd = [VENV_PY, "-m", "doctrans", "gen", "--name-tpl=" + case["name_tpl"], "--input-mapping=" + ws["input_mapping"],
           "--type=" + case["type_"], "--output-filename=" + ws.get("out_arg", ws["out_path"])]
    if case["prepend"] is not None:
        cmd.append("--prepend=" + escape_prepend(case["prepend"]))
    if ws["imp_arg"] is not None:
        cmd.append("--imports-from-file=" + ws["imp_arg"])
    return cmd


def _run_cli(case, ws):
    env = dict(os.environ, PYTHONPATH=REPO + os.pathsep + ws["tmp"], PYTHONHASHSEED=str(case.get("hashseed", 0)),
               **ws.get("env", {}))
    p = subprocess.run(_cli_cmd(case, ws), env=env, stdout=subprocess.PIPE, stderr=subprocess.PIPE, timeout=120,
                       cwd=ws.get("cwd") or ws["tmp"])
    if p.returncode == 0:
        return None
    err = p.stderr.decode("latin-1").strip().split("\n")
    last = err[-1] if err else ""
    return "exit-%d:%s" % (p.returncode, last.split(":")[0][:40])


def _param_names(obj):
    return [n for n in inspect.signature(obj).parameters]


def _def_params(node, type_):
    if type_ == "function":
        a = node.args
        return [x.arg for x in list(getattr(a, "posonlyargs", [])) + a.args + a.kwonlyargs]
    if type_ == "class":
        return [s.target.id for s in node.body if isinstance(s, ast.AnnAssign) and isinstance(s.target, ast.Name)
                and s.target.id != "return_type"]
    out = []
    for s in node.body:
        if isinstance(s, ast.Expr) and isinstance(s.value, ast.Call) and getattr(s.value.func, "attr", "") == "add_argument":
            a = s.value.args[0].value if s.value.args and isinstance(s.value.args[0], ast.Constant) else None
            if isinstance(a, str) and a.startswith("--"):
                out.append(a[2:])
    return out


def evaluate(case, ws, exc):
    """the property, as worded, on what the run left behind; returns (holds, what)"""
    fs = evaluate_all(case, ws, exc)
    return (not fs), (fs[0]["what"] if fs else "")


def evaluate_all(case, ws, exc):
    """the property, as worded, on what the run left behind: the failed clauses, [{what, iface}].  A failed INTERFACE
    clause (iface = {entry, got, want}: the index of the mapping entry, the parameters its generated definition lists,
    the parameters of the source object) does not end the evaluation: the other entries and the header are judged too;
    any other failed clause (iface None) does"""
    ifaces = []
    ok, what = _evaluate(case, ws, exc, ifaces)
    return ifaces + ([] if ok else [{"what": what, "iface": None}])


def _evaluate(case, ws, exc, ifaces):
    """(holds apart from the interface clauses, what); the failed interface clauses are appended to ifaces"""
    out_path = ws["out_path"]
    if case["existing"] is not None:
        if exc is None:
            after = open(out_path).read() if os.path.isfile(out_path) else None
            return False, "no refusal on an existing output file; file %s" % (
                "unchanged" if after == case["existing"] else "changed")
        after = open(out_path).read() if os.path.isfile(out_path) else None
        if after != case["existing"]:
            return False, "refused (%s) but the existing file was modified" % exc
        return True, ""
    if exc is not None:
        return False, "raised %s" % exc
    if not os.path.isfile(out_path):
        return False, "no output file"
    text = open(out_path).read()
    try:
        body = ast.parse(text).body
    except SyntaxError:
        return False, "output does not parse"
    fam_gen.forget_case_modules()     # a fresh import: the mapping may be a one-shot iterable the run has consumed
    mod = importlib.import_module(ws["modname"])
    mobj = getattr(mod, "M")
    items = list(mobj.items() if hasattr(mobj, "items") else mobj)
    names = [case["name_tpl"].format(name=k) for k, _ in items]
    n = len(items)
    if not body or not (isinstance(body[-1], ast.Assign) and len(body[-1].targets) == 1
                        and isinstance(body[-1].targets[0], ast.Name) and body[-1].targets[0].id == "__all__"):
        return False, "last statement is not the __all__ assignment"
    try:
        all_val = ast.literal_eval(body[-1].value)
    except Exception:  # noqa
        return False, "__all__ is not a literal"
    if all_val != names:
        return False, "__all__ is %r, expected %r" % (all_val, names)
    defs = body[len(body) - 1 - n:len(body) - 1] if n else []
    if len(defs) != n:
        return False, "fewer statements than entries"
    want_cls = ast.ClassDef if case["type_"] == "class" else ast.FunctionDef
    feats = [e["feat"] for e in case["module"]["entries"]]
    for j, (d, nm, (k, obj)) in enumerate(zip(defs, names, items)):
        if not isinstance(d, want_cls) or d.name != nm:
            return False, "definition for %r is %s %r, expected %s %r" % (
                k, type(d).__name__, getattr(d, "name", None), want_cls.__name__, nm)
        got, want = _def_params(d, case["type_"]), _param_names(obj)
        got_all = list(got)
        # attributes the class documents on itself (`:cvar` lines; never a parameter of __init__ here) belong to the
        # interface next to the parameters of __init__: each once, in the documented order; the parameters of __init__
        # all of them, in the order of the signature
        cvars = [c for c in (feats[j].get("cvars") or [] if j < len(feats) else []) if c not in want]
        if cvars:
            got_cv, got = [g for g in got if g in cvars], [g for g in got if g not in cvars]
            if got_cv != cvars:
                ifaces.append({"what": "interface of %r: documented attributes %r, the class documents %r" % (nm, got_cv, cvars),
                               "iface": {"entry": j, "got": got_all, "want": want}})
                continue
        if got != want:
            ifaces.append({"what": "interface of %r: parameters %r, source object has %r%s" % (
                nm, got, want, " (besides the documented attributes %r)" % cvars if cvars else ""),
                "iface": {"entry": j, "got": got_all, "want": want}})
    header = body[:len(body) - 1 - n]
    if any(isinstance(s, (ast.ClassDef, ast.FunctionDef)) and s.name in names for s in header):
        return False, "a generated name is defined more than once"
    expect = []
    if case["prepend"]:
        try:
            expect += ast.parse(case["prepend"]).body
        except SyntaxError:
            return False, "prepend is not valid Python"
    if ws["imp_arg"] is not None:
        try:
            fpath = fam_gen.resolve_imports_file(ws["imp_arg"], case["prepend"])
        except Exception as e:  # noqa
            return False, "imports_from_file names nothing that can be resolved (%s)" % fam_gen.kind_of(e)
        expect += [s for s in ast.parse(open(fpath).read()).body if isinstance(s, (ast.Import, ast.ImportFrom))]
    if sorted(ast.dump(s) for s in header) != sorted(ast.dump(s) for s in expect):
        return False, "header statements differ from prepend + imports (each once): %r vs %r" % (
            [ast.unparse(s) for s in header], [ast.unparse(s) for s in expect])
    return True, ""


def run_point_all(case, pre=None):
    """(exception/exit description or None, failed clauses as evaluate_all gives them); pre = (ws, exc) when the child
    process already ran"""
    if pre is not None:
        ws, exc = pre
        with fam_gen.activated(ws):
            fs = evaluate_all(case, ws, exc)
        return exc, fs
    with fam_gen.workspace(case) as ws:
        exc = _run_cli(case, ws) if case.get("route") == "cli" else _run_api(case, ws)
        fs = evaluate_all(case, ws, exc)
    return exc, fs


def run_point(case, pre=None):
    """(exception/exit description or None, holds, what); pre = (ws, exc) when the child process already ran"""
    exc, fs = run_point_all(case, pre)
    return exc, (not fs), (fs[0]["what"] if fs else "")


def _cli_worker(case):
    ws = fam_gen.materialise(case)
    return ws, _run_cli(case, ws)


def check_case(case):
    if "module" in case:
        _, ok, what = run_point(case)
        return ok, what
    return True, ""


# ------------------------------------------------------------------ model side
def c19_request(fn, case):
    o = fam_gen.observe(_api_twin(case))
    x = [Sym(case.get("route", "api")), o["gi"], opt(escape_prepend(case["prepend"]) if case.get("route") == "cli" else None),
         feats_of(case), opt(case["existing"])]
    return dumps([Sym(fn), x, o["table"]])


_CVAR = re.compile(r"^\s*:cvar\s+([^:\s]+)\s*:", re.M)


def entry_shapes(case):
    """per mapping entry, read off the SOURCE of the input module: [is a class, the names its class docstring documents
    with :cvar (docstring order), every function definition nested in it as [depth (1 = a statement of the class body),
    name, argument names] in source order]"""
    top = {n.name: n for n in ast.parse(case["module"]["src"]).body
           if isinstance(n, (ast.ClassDef, ast.FunctionDef, ast.AsyncFunctionDef))}
    out = []
    for e in case["module"]["entries"]:
        node = top.get(e["feat"].get("obj"))
        if not isinstance(node, ast.ClassDef):
            out.append([False, [], []])
            continue
        defs = []

        def walk(n, depth):
            for c in ast.iter_child_nodes(n):
                if isinstance(c, ast.FunctionDef):
                    a = c.args
                    defs.append([depth, c.name, [x.arg for x in list(getattr(a, "posonlyargs", [])) + a.args + a.kwonlyargs]])
                walk(c, depth + 1 if isinstance(c, (ast.ClassDef, ast.FunctionDef, ast.AsyncFunctionDef)) else depth)

        walk(node, 1)
        out.append([True, _CVAR.findall(ast.get_docstring(node) or ""), defs])
    return out


def c19_request_r(case, iface=None):
    """the refined classifier (coq/model/C19Spec2.v): the old request plus the shapes of the entries' source objects and
    one failed interface clause (None: none - the answer is then the old class and the old guard)"""
    o = fam_gen.observe(_api_twin(case))
    x = [Sym(case.get("route", "api")), o["gi"], opt(escape_prepend(case["prepend"]) if case.get("route") == "cli" else None),
         feats_of(case), opt(case["existing"])]
    f = opt(iface, lambda i: [i["entry"], list(i["got"]), list(i["want"])])
    return dumps([Sym("c19_class_r"), x, o["table"], entry_shapes(case), f])


def _api_twin(case):
    """the same invocation through the API on a fresh output (what the model's tabulated inputs are taken from)"""
    c = copy.deepcopy(case)
    c.pop("route", None)
    c.pop("hashseed", None)       # the interpreter's hash seed is no input of the model: gen must not depend on it
    c["existing"] = None
    c["uid"] = c.pop("sweep_of", case["uid"]) + "t"     # a hash-seed twin shares the observation of the point it repeats
    return c


# ------------------------------------------------------------------ the facts about ast.parse assumed in Coq
def python_facts(o, hist, failures, case_brief):
    """check python_like on the texts of one observed run"""
    T = fam_gen.tops_of_src

    def bad(which, detail):
        failures.append({"case": dict(case_brief, hypothesis=which, detail=detail[:300]),
                         "what": "assumed fact about ast.parse fails: " + which, "class": None})

    pieces = [e[2][1] for e in o["entry_res"] if isinstance(e[2], list) and e[2][0] == "emitted"]
    srcs = [t[0] for t in o["table"] if t[1] != "none"]
    texts = list(dict.fromkeys(pieces + srcs))[:8]
    if T("") != []:
        bad("P_empty", "")
    hist["pyfact:P_empty"] += 1
    for a in texts:
        ta = T(a)
        if ta is None:
            continue
        hist["pyfact:P_blank,P_trail"] += 1
        if T("\n" + a) != ta:
            bad("P_blank", a)
        if T(a + "\n") != ta:
            bad("P_trail", a)
        for t in ta:
            hist["pyfact:P_canon"] += 1
            text = t[2] if t[0] in ("str", "import", "all") else t[3] if t[0] == "def" else t[1]
            if T(text) != [t] or (t[0] == "str" and T(t[3]) != [t]):
                bad("P_canon", text)
        for b in texts[:4]:
            tb = T(b)
            if tb is None:
                continue
            hist["pyfact:P_concat"] += 1
            if T(a + "\n" + b) != ta + tb:
                bad("P_concat", a + "\n<+>\n" + b)
    if o["all_names"] is not None and all(all(32 <= ord(c) < 127 and c not in "'\"\\" for c in n) for n in o["all_names"]):
        hist["pyfact:P_all"] += 1
        at = "__all__ = [" + ", ".join("'%s'" % n for n in o["all_names"]) + "]"
        if T(at) != [[Sym("all"), o["all_names"], at]]:
            bad("P_all", at)


# ------------------------------------------------------------------ fixed witnesses of the finding classes
def _mod(src, entries):
    return {"src": src, "entries": entries, "import_lines": [], "future": False, "mapping_form": "dict"}


_CLS = ("class A(object):\n    \"\"\"\n    The A class.\n    \"\"\"\n\n    def __init__(self, x=5):\n        \"\"\"\n"
        "        Do the A thing.\n\n        :param x: the x\n        :type x: ```int```\n        \"\"\"\n        self.x = x\n")
_FEAT_A = dict(kind="class", obj="A", doc_style="typed", annotated=False, params=["x"], ret=False, class_doc=True, ndef=1)


def _w(uid, src, entries, **kw):
    c = {"fam": "gen", "fn": "gen", "uid": "w" + uid, "modbase": "w" + uid, "tags": ["witness"], "module": _mod(src, entries),
         "type_": "class",
         "name_tpl": "{name}Config", "prepend": None, "imports": {"how": "none"}, "mapping_ref": "ok", "existing": None,
         "opts": {"emit_call": False, "emit_default_doc": True, "decorator_list": None}, "route": "api"}
    c.update(kw)
    return c


def witnesses():
    """(expected class, case); expected class None = the case must HOLD (regression checks of repaired defects)"""
    ea = [{"key": "A", "feat": _FEAT_A}]
    base = _CLS + "\nM = {'A': A}\n"

    def fn(src, **f):
        feat = dict(kind="function", obj="f", doc_style="typed", annotated=False, params=["a"], ret=False, class_doc=True,
                    ndef=0)
        feat.update(f)
        return src + "\nM = {'f': f}\n", [{"key": "f", "feat": feat}]
    s_undoc, e_undoc = fn("def f(a):\n    pass\n", doc_style="none")
    s_nop, e_nop = fn('def f():\n    """\n    Do the f thing.\n    """\n    pass\n', params=[], doc_style="summary")
    s_ret, e_ret = fn('def f(a):\n    """\n    Do the f thing.\n\n    :param a: the a\n    :type a: ```int```\n\n'
                      '    :returns: the result\n    :rtype: ```int```\n    """\n    return 1\n', ret=True)
    s_ann, e_ann = fn('def f(a: int):\n    """\n    Do the f thing.\n\n    :param a: the a\n    :type a: ```int```\n    """\n'
                      '    pass\n', annotated=True)
    s_unt, e_unt = fn('def f(a):\n    """\n    Do the f thing.\n    """\n    pass\n', doc_style="summary")
    # a documented attribute that is also a parameter of __init__; a class without __init__ that holds a helper class with one
    s_shared = ('class Trainer(object):\n    """\n    The Trainer class.\n\n    :cvar registry: the registry\n'
                '    :cvar epochs: the epochs\n    """\n\n    def __init__(self, dataset, epochs=3, batch_size=2):\n'
                '        """\n        Do the Trainer thing.\n\n        :param dataset: the dataset\n'
                '        :type dataset: ```str```\n\n        :param epochs: the epochs\n        :type epochs: ```int```\n\n'
                '        :param batch_size: the batch_size\n        :type batch_size: ```int```\n        """\n'
                '        self.dataset = dataset\n        self.epochs = epochs\n        self.batch_size = batch_size\n'
                "\nM = {'Trainer': Trainer}\n")
    e_shared = [{"key": "Trainer", "feat": dict(kind="class", obj="Trainer", doc_style="typed", annotated=False,
                                               params=["dataset", "epochs", "batch_size"], ret=False, class_doc=True, ndef=2,
                                               cvars=["registry", "epochs"], cvar_shared=True)}]
    s_nested = ('class Outer(object):\n    """\n    The Outer class.\n    """\n\n    class Options(object):\n'
                '        """ Helper of the enclosing definition """\n\n'
                '        def __init__(self, verbose=False, colour=\'red\'):\n            """\n            Set up the helper.\n\n'
                '            :param verbose: the verbose\n            :type verbose: ```bool```\n\n'
                '            :param colour: the colour\n            :type colour: ```str```\n            """\n'
                '            self.verbose = verbose\n            self.colour = colour\n'
                "\nM = {'Outer': Outer}\n")
    e_nested = [{"key": "Outer", "feat": dict(kind="class", obj="Outer", doc_style="typed", annotated=False, params=[],
                                             ret=False, class_doc=True, ndef=0, nested="class-after", own_init=False)}]
    return [
        ("entry-documented-attribute-reordered", _w("19", s_shared, e_shared)),
        ("entry-documented-attribute-reordered", _w("20", s_shared, e_shared, type_="argparse", route="cli")),
        ("entry-nested-class-init-merged", _w("21", s_nested, e_nested, type_="function")),
        ("entry-nested-class-init-merged", _w("22", s_nested, e_nested)),
        ("api-appends-to-existing-output", _w("1", base, ea, existing="OLD = 1\n")),
        ("entry-undocumented-callable", _w("5", s_undoc, e_undoc)),
        ("entry-function-without-parameters", _w("6", s_nop, e_nop)),
        ("entry-function-returns-argparse", _w("7", s_ret, e_ret, type_="argparse")),
        ("entry-function-returns-function", _w("11", s_ret, e_ret, type_="function")),
        ("entry-annotated-callable", _w("8", s_ann, e_ann)),
        ("entry-untyped-parameter-function", _w("12", s_unt, e_unt, type_="function")),
        ("entry-undocumented-callable", _w("13", s_undoc, e_undoc, route="cli")),
        # repaired: formerly type-function-missing-function_type, imports-glued, prepend-glued-to-import
        (None, _w("2", base, ea, type_="function")),
        (None, _w("3", "import os\nimport sys\n\n" + base, ea, imports={"how": "module"})),
        (None, _w("4", "import os\n\n" + base, ea, imports={"how": "module"}, prepend="PI = 3")),
        (None, _w("9", base, ea, type_="function", route="cli")),
        (None, _w("10", "import os\nimport sys\n\n" + base, ea, imports={"how": "module"}, route="cli")),
        # must hold: imports_from_file given as a symbol path ("if module or other symbol path given, resolve file then use
        # it"), the prepended text importing what the path starts with; one anchor per depth of the path
        (None, _w("14", "import os\nimport sys\n\n" + base, ea, imports={"how": "symbol", "form": "obj"},
                  prepend="import verif_genin_w14\n")),
        (None, _w("15", "import os\nimport sys\n\n" + base, ea, imports={"how": "symbol", "form": "obj"},
                  layout={"kind": "pkg", "depth": 1, "reexport": False}, prepend="import verif_genin_w15.mod\n",
                  type_="argparse")),
        (None, _w("16", "import os\n\n" + base, ea, imports={"how": "symbol", "form": "member"},
                  layout={"kind": "pkg", "depth": 2, "reexport": True}, prepend="import verif_genin_w16.sub.mod",
                  type_="function", route="cli")),
        (None, _w("17", "from os import sep\n\n" + base, ea, imports={"how": "symbol", "form": "reexported"},
                  layout={"kind": "pkg", "depth": 1, "reexport": True}, prepend='"""Doc"""\nimport verif_genin_w17\nX = 1\n')),
        (None, _w("18", "import os\n\n" + base, ea, imports={"how": "symbol", "form": "from-mod"},
                  layout={"kind": "pkg", "depth": 1, "reexport": False}, prepend="from verif_genin_w18 import mod\n",
                  route="cli")),
    ]


# ------------------------------------------------------------------ oracle
def _classify(pts):
    outs = run_model([c19_request("c19_class", p) for p in pts] + [c19_request("c19_run", p) for p in pts])
    return outs[:len(pts)], outs[len(pts):]


def _decode_class(c):
    ce = loads(c)
    if ce == "out-of-domain":
        return "out-of-domain", False
    cls, guard = ce
    return (None if cls == "none" else unhx(cls[1])), guard == "true"


def oracle(rng, tier):
    n = 260 if tier == "quick" else 3000
    pts = gen_points(rng, n)
    pts += sweep_points(rng, pts, 30 if tier == "quick" else 300, 2 if tier == "quick" else 4)
    wit = witnesses()
    allpts = pts + [w for _, w in wit]
    with concurrent.futures.ThreadPoolExecutor(max_workers=8) as ex:
        cli_futs = {i: ex.submit(_cli_worker, p) for i, p in enumerate(allpts) if p.get("route") == "cli"}
        results = [None] * len(allpts)
        for i, p in enumerate(allpts):
            if i not in cli_futs:
                results[i] = run_point_all(p)
        for i, f in cli_futs.items():
            results[i] = run_point_all(allpts[i], pre=f.result())
    classes, runs = _classify(allpts)
    # every failed interface clause is classified on its own by the refined classifier (coq/model/C19Spec2.v)
    # (a failed clause that is no interface clause - the run raised - is put to it without one)
    rkeys = [(i, k) for i, (_, fs) in enumerate(results) for k, f in enumerate(fs)]
    routs = run_model([c19_request_r(allpts[i], results[i][1][k]["iface"]) for i, k in rkeys]) if rkeys else []
    refined = {key: _decode_class(o)[0] for key, o in zip(rkeys, routs)}
    hist, failures, disagree, seen = collections.Counter(), [], [], set()
    for i, (p, (exc, fs), c, mr) in enumerate(zip(allpts, results, classes, runs)):
        ok, what = (not fs), (fs[0]["what"] if fs else "")
        is_w = i >= len(pts)
        brief = {k: v for k, v in p.items() if k not in ("tags",)}
        cls, guard = _decode_class(c)
        # (what failed, its class): a failed interface clause has the class the refined classifier gives it, if any
        recs = []
        for k, f in enumerate(fs):
            rc = refined.get((i, k)) if cls is None else None
            if rc not in (None, "out-of-domain"):
                recs.append((f["what"], rc))
            elif guard:
                recs.append((f["what"] + " [inside guard_C19]", None))
            else:
                recs.append((f["what"], cls))
        point_classes = [c_ for _, c_ in recs]
        if cls == "out-of-domain":
            hist["out-of-domain"] += 1
            if is_w:
                failures.append({"case": brief, "what": "fixed witness is outside C19_domain (it witnesses nothing any more)",
                                 "class": None})
            continue
        if mr == "(err Unmodelled)":
            hist["skipped-unmodelled"] += 1
            continue
        tag = "%s:%s:%s" % (p.get("route", "api"), p["type_"], "existing" if p["existing"] is not None else "fresh")
        hist[("holds" if ok else "fails") + ":" + (cls or next((c_ for c_ in point_classes if c_), None)
                                                    or ("in-guard" if guard else "no-class")) + ":" + tag] += 1
        if "sweep_of" in p:
            hist["hash-seed-sweep:" + ("holds" if ok else "fails")] += 1
        if p.get("route") == "cli":
            hist["cli-hash-seed:" + ("0" if not p.get("hashseed") else "other")] += 1
        for e in p["module"]["entries"]:
            if e["feat"].get("cvars"):
                hist["entry-class-documents-attributes:%d-attrs+%d-init-params:%s" % (
                    len(e["feat"]["cvars"]), min(len(e["feat"]["params"]), 4), "holds" if ok else "fails")] += 1
        for e in p["module"]["entries"]:
            if e["feat"].get("cvar_shared"):
                hist["entry-class-documents-an-init-parameter:%s" % ("holds" if ok else "fails")] += 1
            if e["feat"].get("own_init") is False:
                hist["entry-class-without-own-init:%s:%s" % (e["feat"].get("nested") or "nothing-nested", "holds" if ok else "fails")] += 1
        if any(q in fam_gen.ARGS_AFFIXED for e in p["module"]["entries"] for q in e["feat"]["params"]):
            hist["entry-with-parameter-named-like-kwargs:%s:%s" % (p["type_"], "holds" if ok else "fails")] += 1
        for e in p["module"]["entries"]:
            if e["feat"].get("nested"):
                hist["entry-with-nested:%s:%s" % (e["feat"]["nested"], "holds" if ok else "fails")] += 1
        # what the model says happens vs what happened
        m = loads(mr)
        m_ok = m[0][0] == "ok"
        m_holds = (not m_ok and m[1] != "none" and unhx(m[1][1]) == p["existing"]) if p["existing"] is not None else m_ok
        real_ok = exc is None
        if m_ok != real_ok:
            disagree.append({"case": brief, "model": mr[:300], "impl_exc": exc, "class": cls})
        elif m_ok and p["existing"] is None:
            o = fam_gen.observe(_api_twin(p))
            if o["written"] is not None and unhx(m[0][1]) != o["written"]:
                disagree.append({"case": brief, "model": "written text differs", "class": cls})
        # one record per unclassified clause (at most three), one per class met at the point
        for w_, c_ in [r for r in recs if r[1] is None][:3]:
            failures.append({"case": brief, "what": w_, "class": None})
        for c_ in sorted(set(c_ for c_ in point_classes if c_ is not None)):
            failures.append({"case": brief, "what": next(w_ for w_, c2 in recs if c2 == c_), "class": c_})
        if guard and ok and p["existing"] is None:
            # (the prepend of a symbol-path point names the case's own module: its shape, not its text, makes it distinct)
            key = dumps([p["module"]["src"], p["type_"], p["name_tpl"],
                         opt(p["prepend"] and p["prepend"].replace(fam_gen.names_of(p)["base"], "<base>")),
                         p["imports"]["how"], p["imports"].get("form", ""), p["imports"].get("src", ""),
                         sorted((p.get("layout") or {}).items())])
            hist["in-guard:imports-%s%s:prepend-%s" % (
                p["imports"]["how"], "-" + p["imports"]["form"] if "form" in p["imports"] else "",
                "none" if p["prepend"] is None else "final-newline" if p["prepend"].endswith("\n") else "no-final-newline")] += 1
            seen.add(key)
        if is_w:
            expected = wit[i - len(pts)][0]
            if expected is None:
                hist["regression:repaired-case:" + ("holds" if ok and guard else "FAILS")] += 1
                if not (ok and guard):
                    failures.append({"case": brief, "what": "repaired case fails again or left the guard: " + what,
                                     "class": None})
            else:
                reproduced = not ok and (cls == expected or (point_classes and all(c_ == expected for c_ in point_classes)))
                hist["witness:" + expected + (":reproduced" if reproduced else ":NOT-REPRODUCED")] += 1
                if not reproduced:
                    failures.append({"case": brief, "what": "witness of %s no longer fails that way (holds=%s, class=%s)" % (
                        expected, ok, cls or point_classes), "class": None})
        if not is_w and p["existing"] is None:
            python_facts(fam_gen.observe(_api_twin(p)), hist, failures, {"uid": p["uid"]})
    return {
        "evaluations": len(allpts),
        "distinct_nontrivial": len(seen),
        "rule": "points = generated input module (1..4 classes with __init__ / functions, documented or not, annotated or "
                "not; about one entry in five has a parameter whose name contains `kwargs` / `args` without ending in it; about 3 documented classes in 10 document one to three attributes on the class (:cvar) while __init__ adds two to six "
                "further parameters; about 3 entries in 10 contain nested definitions that are no entries: a helper class with its own "
                "__init__ before / after the class's __init__, two levels deep or local to a method, a function local to a "
                "method or to the entry function) x type x name template x prepend x imports-from-file x route (API in-process, CLI in a child "
                "process under PYTHONHASHSEED 0 or a drawn one) x existing output; plus, for 30 (quick) / 300 of the points, "
                "command-line twins in fresh interpreters under 2 / 4 other drawn hash seeds, judged like any point; non-trivial = distinct point inside guard_C19 on a fresh output where the "
                "property was evaluated in full (parse, names, order, interface, __all__, header) and holds",
        "failures": failures,
        "model_impl_property_disagreements": disagree,
        "histogram": dict(hist),
        "samples": [{k: v for k, v in p.items() if k != "module"} for p in pts[:40:8]],
    }
