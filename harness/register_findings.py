#!/usr/bin/env python3
"""Development helper (never run by a check): collect one witness per finding class that the oracle of a property
reports on the current tree, write findings/<ID>-<class>.json and print candidate KNOWN_FINDINGS.txt lines for the
classes not yet listed.   python3 harness/register_findings.py C15 [seed ...]"""
import importlib
import json
import os
import random
import re
import sys

HERE = os.path.dirname(os.path.abspath(__file__))
VERIF = os.path.dirname(HERE)
sys.path.insert(0, HERE)
import check  # noqa: E402

if __name__ == "__main__":
    check.reexec()
    pid = sys.argv[1]
    seeds = [int(x) for x in sys.argv[2:]] or [20260929, 1, 2]
    prop = importlib.import_module("prop_" + pid)
    open_, _ = check.parse_known_findings()
    seen = {}
    counts = {}
    for sd in seeds:
        r = prop.oracle(random.Random(sd), "quick")
        for f in r["failures"]:
            c = f.get("class")
            counts[c] = counts.get(c, 0) + 1
            if c is not None and c not in seen:
                seen[c] = f
    for c, f in sorted(seen.items()):
        slug = re.sub(r"[^A-Za-z0-9_.-]+", "-", c)
        path = os.path.join("findings", "%s-%s.json" % (pid, slug))
        json.dump({"property": pid, "class": c, "case": f["case"], "what": f["what"]}, open(os.path.join(VERIF, path), "w"), indent=1, default=str)
        if (pid, c) not in open_:
            print("finding: property=%s class=%s witness=%s %s" % (pid, c, path, " ".join(str(f["what"]).split())[:260]))
    print("# counts:", json.dumps({str(k): v for k, v in counts.items()}))
