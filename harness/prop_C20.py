"""C20 — rejected or failing invocations never damage source files."""
import ast
import collections
import concurrent.futures
import contextlib
import io
import itertools
import os
import random
import shutil
import tempfile

from common import Sym, dumps, loads, opt, run_model, impl, exc_kind
import fam_sync
import sync_lab as L

ID = "C20"
COQ_PROP = "C20"
NEEDS_CLI = True
FAMILIES = [(fam_sync, 150, 1500)]
TECHNIQUE = "Coq proof (emit.file step model with a fault at every point: target is old or complete-new, never partial; lifted over all targets and fault assignments by induction; CLI validation table proved exhaustively by vm_compute + forallb_forall and generally by case analysis) + replay correspondence with injected faults + fault-injection and CLI-table oracle on the real code"
TRUSTED = [
    "modelled, not verified: the OS write model of coq/model/FS.v (a failing write leaves a prefix in the file being written; os.replace is atomic; faults are Python exceptions raised by open/write/os.replace, not process kills or power loss)",
    "modelled, not verified: argparse's own rejections (missing required option, invalid choice) happen before doctrans code runs",
    "rendering (ast.unparse + black) is an abstract function that either returns the complete text or raises before any file is opened (checked on every generated case)",
]
KINDS = L.KINDS


# ------------------------------------------------------------------ (i) the command-line table
def shape_from_counts(truth, files, names, exists):
    return {"truth": truth, "files": dict(zip(KINDS, files)), "names": dict(zip(KINDS, names)), "exists": exists}


# how the command line spells every file it names (the project directory is also $HOME): absolute | `~/x.py` | `~/x.py`
# while the working directory holds a directory literally named `~` | relative to the working directory | through a
# symlinked directory.  A shape without "spelling" is spelled absolute.
SYNC_SPELLINGS = ["tilde", "plain", "relative", "tilde-decoy", "symlinked-dir"]


def assign_spellings(shapes, decisions):
    """one spelling per shape, cycling separately inside each decision class (reject / run x names complete or not) so
    that every class is run under every spelling"""
    counters = collections.Counter()
    for s, d in zip(shapes, decisions):
        key = (d["decision"], d["names_complete"])
        s["spelling"] = SYNC_SPELLINGS[counters[key] % len(SYNC_SPELLINGS)]
        counters[key] += 1


# what the file of a target holds before the invocation (shape["pre"][kind]; absent = "agreeing"): the pre-states of the
# sync scenarios, the file that exists with ZERO statements in its variants (touched, blank lines only, comments only)
CLI_PRE_STATES = ["agreeing", "missing", "zero:", "absent", "zero:# placeholder\n", "stale", "zero:\n\n",
                  "zero:# Copyright (c) the authors\n# SPDX-License-Identifier: MIT\n", "zero:   \n"]


def _cli_target(pre):
    t = {"pre": pre, "n_sur": 0, "position": "after", "trailing_newline": True, "sur_seed": 1, "members": 0}
    if pre.startswith("zero:"):
        t.update(pre="empty", zero_text=pre[len("zero:"):])
    elif pre == "absent":
        t["n_sur"] = 2      # the file holds other statements, not the definition
    return t


def assign_pre_states(shapes, decisions):
    """the accepted shapes: one pre-state per target, cycling through CLI_PRE_STATES (the two targets out of step)"""
    n = 0
    for s, d in zip(shapes, decisions):
        if d["decision"] != "run":
            continue
        others = [k for k in KINDS if k != s["truth"]]
        s["pre"] = {k: CLI_PRE_STATES[(n + 4 * j) % len(CLI_PRE_STATES)] for j, k in enumerate(others)}
        n += 1


def assign_fresh_dirs(shapes, decisions):
    """the rejected shapes: every other one names its files (all but an existing truth file) in directories that do not
    exist yet - a rejected invocation must create nothing, directories included"""
    n = 0
    for s, d in zip(shapes, decisions):
        if d["decision"] != "reject" or not any(s["files"].values()):
            continue
        s["fresh_dirs"] = n % 2 == 0
        n += 1


def pre_state_grid():
    """accepted invocations (one file and one name per kind) over truth kind x pre-state of the targets"""
    out = []
    for ti, t in enumerate(KINDS):
        for n in range(len(CLI_PRE_STATES)):
            s = shape_from_counts(t, (1, 1, 1), (1, 1, 1), True)
            others = [k for k in KINDS if k != t]
            s["pre"] = {k: CLI_PRE_STATES[(n + (3 + ti) * j) % len(CLI_PRE_STATES)] for j, k in enumerate(others)}
            s["spelling"] = SYNC_SPELLINGS[(n + ti) % len(SYNC_SPELLINGS)]
            out.append(s)
    return out


def cli_point(shape):
    """run the real CLI on that argument shape; returns (ok, what, facts)"""
    root = os.path.realpath(tempfile.mkdtemp(prefix="doctrans-verif-cli."))
    work = os.path.realpath(tempfile.mkdtemp(prefix="doctrans-verif-cwd."))
    spelling = shape.get("spelling") or "plain"
    try:
        scn = L.gen_scenario(random.Random(7), runs=1, allow_known=False)
        # one fixed, plain project: whatever else the scenario generator draws is pinned here
        scn.update(body=None, wide=None, truth_edit=False, with_returns=False, files=None, argv_seed=None, receiver=None,
                   style=None, tilde=False, symlink=False, prose_special=None, alternate=None)
        scn["truth"] = shape["truth"]
        scn["given"] = list(KINDS)
        scn["targets"] = {k: _cli_target((shape.get("pre") or {}).get(k, "agreeing")) for k in KINDS if k != shape["truth"]}
        proj = L.build_project(scn, root)
        paths = proj["paths"]
        if not shape["exists"]:
            os.remove(paths[shape["truth"]])
        fresh = bool(shape.get("fresh_dirs"))

        def place(k, j):
            """the j-th file named for kind k; with fresh_dirs every file but an existing truth file lies in a directory
            (one or two levels) that does not exist"""
            p = paths[k] if j == 0 else os.path.join(root, "%s_%d.py" % (k, j))
            if fresh and not (k == shape["truth"] and j == 0 and shape["exists"]):
                sub = ["pkg_%s" % k[:3]] + (["deep"] if j else [])
                p = os.path.join(root, *(sub + [os.path.basename(p)]))
            return p
        cwd = root if spelling == "relative" else work
        if spelling == "tilde-decoy":
            os.mkdir(os.path.join(work, "~"))
        if spelling == "symlinked-dir":
            os.symlink(root, root + ".link")

        def spell(p):
            rel = os.path.relpath(p, root)
            return {"tilde": os.path.join("~", rel), "tilde-decoy": os.path.join("~", rel), "relative": os.path.join(".", rel),
                    "symlinked-dir": os.path.join(root + ".link", rel)}.get(spelling, p)
        optn = {"argparse_function": ("--argparse-function", "--argparse-function-name"), "class": ("--class", "--class-name"),
                "function": ("--function", "--function-name")}
        argv = ["sync", "--truth", shape["truth"]]
        for k in KINDS:
            for j in range(shape["files"][k]):
                argv += [optn[k][0], spell(place(k, j))]
            for j in range(shape["names"][k]):
                argv += [optn[k][1], scn["names"][k]]
        # names + bytes of the files AND the names of the directories
        before, wbefore = L.snapshot(root, dirs=True), L.snapshot(work, dirs=True)
        r = L.run_cli(argv, cwd=cwd, extra_env={"HOME": root})
        after, wafter = L.snapshot(root, dirs=True), L.snapshot(work, dirs=True)
        rejected = r["rc"] == 2 and "usage:" in r["stderr"]
        if wafter != wbefore:
            return False, "%s invocation (files spelled %s) wrote outside the project, into the working directory: %s" % (
                "rejected" if rejected else "accepted", spelling, sorted(set(wafter) - set(wbefore)) or sorted(wafter)), r
        if rejected:
            if before != after:
                return False, "rejected invocation touched the file system%s: appeared %s, changed or vanished %s" % (
                    " (its files named in directories that do not exist)" if fresh else "", sorted(set(after) - set(before)),
                    sorted(f for f in before if before[f] != after.get(f, b"\0gone"))), r
            return True, "rejected", r
        pre = "" if not shape.get("pre") else " (targets before: %s)" % ", ".join("%s %r" % kv for kv in sorted(shape["pre"].items()))
        if r["rc"] != 0:
            last = [l for l in r["stderr"].strip().split("\n") if l][-1:] or [""]
            return False, "accepted invocation%s%s ended with an internal error: %s" % (
                "" if spelling == "plain" else " (files spelled %s)" % spelling, pre, last[0][:160]), r
        for f, b in after.items():
            if b is None:
                continue
            try:
                ast.parse(b.decode())
            except SyntaxError:
                return False, "file %s does not parse after an accepted invocation%s" % (f, pre), r
        return True, "ran", r
    finally:
        shutil.rmtree(root, ignore_errors=True)
        shutil.rmtree(work, ignore_errors=True)
        if os.path.islink(root + ".link"):
            os.remove(root + ".link")


def _cli_point_star(shape):
    ok, what, r = cli_point(shape)
    return ok, what


def model_decisions(shapes):
    c = lambda n: opt(n if n else None)  # noqa: E731
    reqs = [dumps([Sym("decide_sync"), Sym(s["truth"])] + [c(s["files"][k]) for k in KINDS] + [c(s["names"][k]) for k in KINDS]
                  + [bool(s["exists"])]) for s in shapes]
    out = []
    for o in run_model(reqs):
        e = loads(o)
        out.append({"decision": e[0], "arg_error": None if e[1] == "none" else e[1][1], "names_complete": e[2] == "true"})
    return out


def other_commands_points():
    """sync_properties with missing input / output; gen with existing output; via the real CLI"""
    pts = []
    root = tempfile.mkdtemp(prefix="doctrans-verif-cli.")
    try:
        inp, outp = os.path.join(root, "in.py"), os.path.join(root, "out.py")
        open(inp, "w").write("a: int = 5\n")
        open(outp, "w").write("def f(g: str = 'x'):\n    pass\n")
        # the decision table of the sync_properties sub-command, cell by cell against the Coq model
        # (Cli.decide_sync_properties counts_equal input_exists output_exists): Reject = usage error, nothing touched;
        # Run = carried out (rc 0)
        cells = [(ce, ie, oe) for ce in (True, False) for ie in (True, False) for oe in (True, False)]
        want = [loads(o) for o in run_model([dumps([Sym("decide_sync_properties"), ce, ie, oe]) for ce, ie, oe in cells])]
        for (ce, ie, oe), w in zip(cells, want):
            argv = ["sync_properties", "--input-filename", inp if ie else os.path.join(root, "nope.py"),
                    "--input-param", "a", "--output-filename", outp if oe else os.path.join(root, "nope2.py"),
                    "--output-param", "f.g"] + ([] if ce else ["--output-param", "f.h"])
            before = L.snapshot(root)
            r = L.run_cli(argv)
            after = L.snapshot(root)
            facts = {"command": "sync_properties", "counts_equal": ce, "input_exists": ie, "output_exists": oe,
                     "missing": None if ie and oe else ("input" if not ie else "output")}
            w = str(w if not isinstance(w, list) else w[0])
            if w == "reject":
                ok = r["rc"] == 2 and "usage:" in r["stderr"] and before == after
                pts.append((ok, "sync_properties (params pair up: %s, input exists: %s, output exists: %s) must be refused with a usage error: "
                                "rc=%s, fs %s" % (ce, ie, oe, r["rc"], "untouched" if before == after else "TOUCHED"), facts))
            elif w == "run":
                pts.append((r["rc"] == 0, "sync_properties on existing files with paired parameters: rc=%s %s" % (r["rc"], r["stderr"][-200:]), facts))
                open(outp, "w").write("def f(g: str = 'x'):\n    pass\n")
            else:
                pts.append((False, "the model's decision for sync_properties is %r" % (w,), facts))
        # invocations that are rejected - by the argument parser itself (no --truth, a --truth / --type that is not a choice,
        # no --type) or by main (a missing input / output file, another number of --output-param) - while the files they name
        # lie in directories that do not exist: a usage error, and nothing is created, directories included
        j = lambda *parts: os.path.join(root, *parts)  # noqa: E731
        rejected = [
            ("sync without --truth", ["sync", "--class", inp, "--class-name", "A", "--argparse-function", j("cli", "parser.py"),
                                      "--argparse-function-name", "set_cli_args"]),
            ("sync with a --truth that is no kind", ["sync", "--truth", "method", "--class", inp, "--class-name", "A",
                                                     "--function", j("fns", "deep", "f.py"), "--function-name", "f"]),
            ("sync with an unknown option", ["sync", "--truth", "class", "--class", inp, "--class-name", "A", "--function",
                                             j("fns2", "f.py"), "--function-name", "f", "--no-such-option"]),
            ("gen without --type", ["gen", "--name-tpl", "{name}Config", "--input-mapping", "collections.abc.__dict__",
                                    "-o", j("generated", "out.py")]),
            ("gen with a --type that is no choice", ["gen", "--name-tpl", "{name}Config", "--input-mapping", "collections.abc.__dict__",
                                                     "--type", "dataclass", "--output-filename", j("generated2", "out.py")]),
            ("gen without --input-mapping", ["gen", "--name-tpl", "{name}Config", "--type", "class", "-o", j("generated3", "a", "out.py")]),
            ("sync_properties with both files in directories that do not exist",
             ["sync_properties", "--input-filename", j("src", "in.py"), "--input-param", "a", "--output-filename", j("dst", "out.py"),
              "--output-param", "f.g"]),
            ("sync_properties with an unpaired --output-param and the output in a directory that does not exist",
             ["sync_properties", "--input-filename", inp, "--input-param", "a", "--output-filename", j("dst2", "out.py"),
              "--output-param", "f.g", "--output-param", "f.h"]),
        ]
        for label, argv in rejected:
            before = L.snapshot(root, dirs=True)
            r = L.run_cli(argv, cwd=root)
            after = L.snapshot(root, dirs=True)
            ok = r["rc"] == 2 and "usage:" in r["stderr"] and before == after
            pts.append((ok, "%s (files named in directories that do not exist) must be refused with a usage error and create nothing: "
                            "rc=%s, appeared %s" % (label, r["rc"], sorted(set(after) - set(before))),
                        {"command": argv[0], "rejected_with_fresh_directories": label}))
        existing = os.path.join(root, "gen_out.py")
        open(existing, "w").write("KEEP = 1\n")
        before = L.snapshot(root)
        r = L.run_cli(["gen", "--name-tpl", "{name}Config", "--input-mapping", "collections.abc.__dict__", "--type", "class",
                       "--output-filename", existing])
        after = L.snapshot(root)
        pts.append((r["rc"] != 0 and before == after, "gen onto an existing output: rc=%s, fs %s" % (r["rc"], "untouched" if before == after else "TOUCHED"),
                    {"command": "gen", "existing_output": True}))
    finally:
        shutil.rmtree(root, ignore_errors=True)
    return pts


# ------------------------------------------------------------------ (ii) faults during multi-file operations
def _final_ok(before, after, clean_after, what_prefix):
    """every file is byte-identical to before, or equals what the fault-free run leaves (complete and parseable);
    nothing else appears"""
    fails = []
    for f in sorted(set(before) | set(after)):
        b, a = before.get(f), after.get(f)
        if a == b:
            continue
        if a is not None and a == clean_after.get(f):
            try:
                ast.parse(a.decode())
            except SyntaxError:
                fails.append("%s: %s completely rewritten but does not parse" % (what_prefix, f))
            continue
        if f.endswith(".doctrans-tmp"):
            if a is None:
                continue     # a temporary file left by an earlier, killed run was cleaned up: no damage
            fails.append("%s: temporary file %s left behind" % (what_prefix, f))
        else:
            fails.append("%s: %s is neither its old content nor the complete new content (%d bytes, old %s, new %s)" % (
                what_prefix, f, len(a) if a is not None else -1, len(b) if b is not None else None,
                len(clean_after[f]) if f in clean_after else None))
    return fails


def _build_linked(scn, root, linked):
    """L.build_project, then (linked = (target key, "symlink" | "hardlink")) that target's file moved to shared/ and the
    path named made a link to it"""
    proj = L.build_project(scn, root)
    if linked:
        p = proj["paths"][linked[0]]
        if os.path.isfile(p) and not os.path.islink(p):
            os.mkdir(os.path.join(root, "shared"))
            real = os.path.join(root, "shared", os.path.basename(p))
            os.rename(p, real)
            (os.symlink if linked[1] == "symlink" else os.link)(real, p)
    return proj


def sync_fault_points(rng, n_scn):
    """for each scenario: the fault-free outcome with the I/O operations of every emit.file call logged, then one run
    per (target, operation index, k) and one per conversion error"""
    fails, evals, hist = [], 0, collections.Counter()
    for _ in range(n_scn):
        scn = L.gen_scenario(rng, runs=1)
        if not scn["targets"]:
            continue
        # 1 scenario in 3 (drawn from a generator of its own): one target file that exists is reached through a link - the
        # real file lives in shared/, the file named is a symbolic link or a second hard link to it.  Every name must hold
        # the old or the complete new text under every fault
        lrng = random.Random(scn["ir_seed"] * 43 + 7)
        linkable = [k for k in sorted(scn["targets"]) if scn["targets"][k]["pre"] not in ("missing", "hardlink")
                    and not scn["targets"][k].get("alias_truth")]
        linked = (lrng.choice(linkable), lrng.choice(["symlink", "hardlink"])) if linkable and lrng.random() < 0.34 else None
        if linked:
            hist["target-reached-through-%s" % linked[1]] += 1
        # fault-free reference, logging the operations of each target's write
        root = tempfile.mkdtemp(prefix="doctrans-verif-c20.")
        oplogs = {}
        try:
            proj = _build_linked(scn, root, linked)
            before = L.snapshot(root)
            L.run_api(scn, proj["paths"], None)
            clean_after = L.snapshot(root)
        finally:
            shutil.rmtree(root, ignore_errors=True)
        for k in sorted(scn["targets"]):
            if clean_after.get(L.file_of(k, scn)) == before.get(L.file_of(k, scn)):
                continue
            root = tempfile.mkdtemp(prefix="doctrans-verif-c20.")
            try:
                proj = _build_linked(scn, root, linked)
                fo = L.Fault(L.file_of(k, scn), None)
                L.run_api(scn, proj["paths"], L.Recorder(), fo)
                oplogs[k] = list(fo.ops)
            finally:
                shutil.rmtree(root, ignore_errors=True)
        plans = []
        for k, ops in oplogs.items():
            plans += [("io", k, pt) for pt in L.fault_points(ops)]
            plans.append(("conv", k, None))
        for kind, k, pt in plans:
            root = tempfile.mkdtemp(prefix="doctrans-verif-c20.")
            try:
                proj = _build_linked(scn, root, linked)
                b4 = L.snapshot(root)
                desc = None
                if kind == "io":
                    fo = L.Fault(L.file_of(k, scn), pt[0], pt[1])
                    run = L.run_api(scn, proj["paths"], L.Recorder(), fo)
                    fired = fo.fired
                    desc = "%s %s" % (fo.fired_op, "k=%d" % pt[1] if fo.fired_op and fo.fired_op[0] == "write" else "")
                else:
                    m = impl()
                    name = {"class": "class_", "function": "function", "argparse_function": "argparse_function"}[L.kind_of(k)]
                    orig = getattr(m.emit, name)

                    def boom(*a, **kw):
                        raise ValueError("injected conversion error")
                    boom.__name__ = name
                    setattr(m.emit, name, boom)
                    try:
                        run = L.run_api(scn, proj["paths"], None)
                    finally:
                        setattr(m.emit, name, orig)
                    fired = True
                    desc = "conversion error"
                aft = L.snapshot(root)
            finally:
                shutil.rmtree(root, ignore_errors=True)
            if not fired:
                hist["fault-not-reached"] += 1
                continue
            evals += 1
            hist["%s:%s" % (kind, (fo.fired_op[0] + "-" + fo.fired_op[1]) if kind == "io" else "emit-raises")] += 1
            case = {"scenario": scn, "fault": [kind, k, list(pt) if pt else None], "linked": list(linked) if linked else None}
            if linked:
                desc = "%s (%s is a %s to shared/%s)" % (desc, L.file_of(linked[0], scn), linked[1], L.file_of(linked[0], scn))
            if run["exception"] is None and kind == "io":
                fails.append({"case": case, "what": "the injected I/O error (%s) was swallowed" % desc, "class": None})
            for w in _final_ok(b4, aft, clean_after, "sync with %s at %s" % (desc, k)):
                fails.append({"case": case, "what": w, "class": None})
    return fails, evals, hist


def sync_properties_fault_points(rng):
    fails, evals = [], 0
    m = impl()

    def run_once(fo, root, link=None):
        inp, outp = os.path.join(root, "in.py"), os.path.join(root, "out.py")
        open(inp, "w").write("a: Literal['x', 'y'] = 'x'\n")
        real = outp
        if link is not None:
            # the file named is a link to the real file, which lives in another directory (pkg/out.py -> ../shared/out.py):
            # a symbolic link (absolute or relative) or a second hard link
            os.mkdir(os.path.join(root, "shared"))
            real = os.path.join(root, "shared", "out.py")
        open(real, "w").write("import os\n\n\ndef f(g: str = 'x', h=2):\n    return g\n")
        if link == "symlink":
            os.symlink(real, outp)
        elif link == "symlink-relative":
            os.symlink(os.path.join("shared", "out.py"), outp)
        elif link == "hardlink":
            os.link(real, outp)
        before = L.snapshot(root)
        orig_file = m.emit.file

        def file(node, filename, mode="a", skip_black=False):
            fo.arm(filename)
            try:
                return orig_file(node, filename, mode=mode, skip_black=skip_black)
            finally:
                fo.disarm()
        m.sync_properties.emit.file = file
        exc = None
        try:
            m.sync_properties.sync_properties(input_eval=False, input_filename=inp, input_params=["a"], output_filename=outp,
                                              output_params=["f.g"])
        except Exception as e:  # noqa
            exc = exc_kind(e)
        finally:
            m.sync_properties.emit.file = orig_file
        return before, L.snapshot(root), exc

    for link in SP_LINKS:
        root = tempfile.mkdtemp(prefix="doctrans-verif-c20.")
        try:
            fo = L.Fault("out.py", None)
            _, clean_after, _ = run_once(fo, root, link)
            ops = list(fo.ops)
        finally:
            shutil.rmtree(root, ignore_errors=True)
        for pt in L.fault_points(ops):
            root = tempfile.mkdtemp(prefix="doctrans-verif-c20.")
            try:
                fo = L.Fault("out.py", pt[0], pt[1])
                before, after, exc = run_once(fo, root, link)
            finally:
                shutil.rmtree(root, ignore_errors=True)
            if not fo.fired:
                continue
            evals += 1
            case = {"command": "sync_properties", "fault": list(pt), "link": link}
            where = "sync_properties%s with %s" % (" (out.py is a %s to shared/out.py)" % link if link else "", fo.fired_op)
            if exc is None:
                fails.append({"case": case, "what": "the injected I/O error was swallowed (%s)" % where, "class": None})
            # every name - the link and the file it points to - holds the old or the complete new text
            for w in _final_ok(before, after, clean_after, where):
                fails.append({"case": case, "what": w, "class": None})
    return fails, evals


# how the output file of sync_properties is reached: named directly | a symbolic link (absolute / relative) | a hard link
SP_LINKS = [None, "symlink", "symlink-relative", "hardlink"]


# ------------------------------------------------------------------ (i'') the sync_properties rows of the command-line table
SP_NAMES = ["colour", "size", "dataset_name", "lr", "optimizer", "batch_size", "mode", "shape"]
SP_SEQS = ['("red", "green")', "(1, 2, 3)", '["adam", "sgd"]', '("a",)', "(0.1, 0.01)", '("x", 1, None)', "[True, False]",
           '("it\'s", "b")']
SP_ANNS = ["Literal['red', 'green']", "int", "Optional[str]", "List[str]", "float", "Union[int, str]"]
SP_VALS = ["'red'", "1", "None", "0.5", "('a', 'b')", "[1]"]
SP_HEADER = "from typing import Literal, Optional, List, Union\n"
SP_WRAPS = ["Optional[{output_param}]", "Optional[Union[{output_param}, str]]"]
# (kind of the input location, kind of the output location) per pair.  Left out, because the unchanged code ends them with
# an internal error (both are recorded for C14: eval-mode-replacement, argument-into-statement-position; C20 lists no
# class for them): --input-eval onto a function argument; a function argument copied onto an assignment
SP_KINDS_EVAL = [("const", "attr"), ("const", "modvar")]
SP_KINDS_PLAIN = [(i, o) for i in ("modvar", "attr", "arg") for o in ("modvar", "attr", "arg")
                  if not (i == "arg" and o != "arg")]


def sync_properties_cli_case(rng, same_file, ev, k, wrap):
    """one invocation of `sync_properties` over a generated project: k properties, each taken from a module-level
    constant (eval mode), a module-level annotated assignment, a class attribute or a function argument of the input
    module and written onto an assignment, a class attribute or a function argument of the output module; the two
    modules are two files or one file"""
    names = rng.sample(SP_NAMES, k + 1)
    pairs = [rng.choice(SP_KINDS_EVAL if ev else SP_KINDS_PLAIN) for _ in range(k)]
    ann, val = lambda: rng.choice(SP_ANNS), lambda: rng.choice(SP_VALS)  # noqa: E731
    plain = lambda: rng.choice(["str", "int", "object"])  # noqa: E731
    i_mod, i_attr, i_arg, o_mod, o_attr, o_arg, ips, ops = [], [], [], [], [], [], [], []
    for n, (ik, ok) in zip(names, pairs):
        if ik == "const":
            i_mod.append("%ss = %s" % (n, rng.choice(SP_SEQS)))
            ips.append(n + "s")
        elif ik == "modvar":
            i_mod.append("%s_default: %s = %s" % (n, ann(), val()))
            ips.append(n + "_default")
        elif ik == "attr":
            i_attr.append("    %s: %s = %s" % (n, ann(), val()))
            ips.append("Defaults." + n)
        else:
            i_arg.append("%s: %s = %s" % (n, ann(), val()))
            ips.append("defaults." + n)
        {"modvar": o_mod, "attr": o_attr, "arg": o_arg}[ok].append(n)
        ops.append({"modvar": "", "attr": "Shirt.", "arg": "make."}[ok] + n)
    # one more member that is not addressed, somewhere on the output side
    rng.choice([o_mod, o_attr, o_arg]).append(names[-1])
    for lst in (o_mod, o_attr, o_arg):
        rng.shuffle(lst)
    inp = list(i_mod)
    if i_attr:
        inp += ["", "", "class Defaults(object):", '    """Defaults"""', ""] + i_attr
    if i_arg:
        inp += ["", "", "def defaults(%s):" % ", ".join(i_arg), '    """defaults"""', "    return None"]
    out = ["%s: %s = %s" % (n, plain(), val()) for n in o_mod]
    if o_attr:
        out += ["", "", "class Shirt(object):", '    """A shirt"""', ""] + ["    %s: %s = %s" % (n, plain(), val()) for n in o_attr]
    if o_arg:
        out += ["", "", "def make(%s):" % ", ".join("%s: %s = %s" % (n, plain(), val()) for n in o_arg), '    """make"""',
                "    return None"]
    return {"same_file": bool(same_file), "eval": bool(ev), "wrap": wrap, "input_params": ips, "output_params": ops,
            "kinds": ["%s->%s" % p for p in pairs],
            "input_src": SP_HEADER + "\n" + "\n".join(inp) + "\n", "output_src": SP_HEADER + "\n" + "\n".join(out) + "\n"}


def _sync_properties_cli_run(case):
    """the real command line in a child process on real files -> what is wrong, or None.  C20 on an accepted invocation:
    it ends without an internal error, nothing but the output file is touched, and the output file parses"""
    root = tempfile.mkdtemp(prefix="doctrans-verif-cli.")
    try:
        outp = os.path.join(root, "shirt.py")
        if case["same_file"]:
            inp = outp
            with open(outp, "w") as f:
                f.write(case["input_src"] + "\n\n" + case["output_src"][len(SP_HEADER):].lstrip("\n"))
        else:
            inp = os.path.join(root, "defaults.py")
            with open(inp, "w") as f:
                f.write(case["input_src"])
            with open(outp, "w") as f:
                f.write(case["output_src"])
        argv = ["sync_properties", "--input-filename", inp, "--output-filename", outp]
        if case["eval"]:
            argv.append("--input-eval")
        for ip, op in zip(case["input_params"], case["output_params"]):
            argv += ["--input-param", ip, "--output-param", op]
        if case["wrap"] is not None:
            argv += ["--output-param-wrap", case["wrap"]]
        before = L.snapshot(root)
        r = L.run_cli(argv, cwd=root, extra_env={"PYTHONDONTWRITEBYTECODE": "1"})
        after = L.snapshot(root)
    finally:
        shutil.rmtree(root, ignore_errors=True)
    if r["rc"] == 2 and "usage:" in r["stderr"]:
        return "an invocation with existing files and as many --input-param as --output-param was rejected"
    touched = sorted(f for f in set(before) | set(after) if before.get(f) != after.get(f) and f != "shirt.py")
    if touched:
        return "sync_properties touched %s (rc=%s)" % (touched, r["rc"])
    try:
        ast.parse(after["shirt.py"].decode())
    except (SyntaxError, UnicodeDecodeError):
        return "the output file does not parse after sync_properties (rc=%s)" % r["rc"]
    if r["rc"] != 0 or "Traceback" in r["stderr"]:
        last = [l for l in r["stderr"].strip().split("\n") if l][-1:] or [""]
        return "accepted invocation ended with an internal error: %s" % last[0][:160]
    return None


def sync_properties_cli_points(rng, rounds):
    """the full grid input file = output file x --input-eval x number of property pairs 1..3 x --output-param-wrap
    absent / given, `rounds` times, the project and the kinds of the addressed locations drawn per cell"""
    cases = [sync_properties_cli_case(rng, same, ev, k, rng.choice(SP_WRAPS) if wrapped else None)
             for _ in range(rounds) for same in (False, True) for ev in (False, True) for k in (1, 2, 3)
             for wrapped in (False, True)]
    with concurrent.futures.ThreadPoolExecutor(max_workers=8) as ex:
        res = list(ex.map(_sync_properties_cli_run, cases))
    fails, hist = [], collections.Counter()
    for c, what in zip(cases, res):
        hist["sync_properties-cli:%s:%s:pairs-%d:%s:%s" % ("one-file" if c["same_file"] else "two-files", "eval" if c["eval"] else "noeval",
                                                           len(c["input_params"]), "wrap" if c["wrap"] else "nowrap",
                                                           "ok" if what is None else "FAILS")] += 1
        if what is not None:
            fails.append({"case": {"sync_properties_cli": c}, "what": what, "class": None})
    return fails, len(cases), hist


def gen_fault_points():
    """gen writes with a bare open(..., 'a'): a failing write leaves a partial new file (known finding class)"""
    fails, evals = [], 0
    m = impl()
    root = tempfile.mkdtemp(prefix="doctrans-verif-c20.")
    try:
        outp = os.path.join(root, "gen_out.py")
        real_open = open

        class W:
            def __init__(self, f):
                self.f = f

            def write(self, s):
                self.f.write(s[:max(1, len(s) // 2)])
                self.f.flush()
                raise OSError("injected: write failed mid-way")

            def __enter__(self):
                return self

            def __exit__(self, *a):
                self.f.close()
                return False

        def fake_open(p, mode="r", *a, **kw):
            if p == outp:
                return W(real_open(p, mode, *a, **kw))
            return real_open(p, mode, *a, **kw)
        modname = "c20genmod_%d" % os.getpid()
        real_open(os.path.join(root, modname + ".py"), "w").write(
            "class A(object):\n    \"\"\"\n    Doc of A\n\n    :param x: the x. Defaults to 5\n    :type x: ```int```\n    \"\"\"\n\n"
            "    def __init__(self, x=5):\n        self.x = x\n\n\nmapping = {\"A\": A}\n")
        import sys
        sys.path.insert(0, root)
        m.gen.open = fake_open
        exc = None
        buf = io.StringIO()
        try:
            with contextlib.redirect_stdout(buf):
                m.gen.gen(name_tpl="{name}Config", input_mapping=modname + ".mapping", type_="class", output_filename=outp)
        except Exception as e:  # noqa
            exc = e
        finally:
            if "open" in vars(m.gen):
                del m.gen.open
            sys.path.remove(root)
            sys.modules.pop(modname, None)
        evals += 1
        if os.path.exists(outp):
            b = real_open(outp, "rb").read()
            try:
                ast.parse(b.decode())
                parses = True
            except SyntaxError:
                parses = False
            if isinstance(exc, OSError):
                fails.append({"case": {"command": "gen", "fault": "write fails mid-way"},
                              "what": "gen left a partially written output file (%d bytes, parses=%s)" % (len(b), parses),
                              "class": "gen-write-not-atomic"})
    finally:
        shutil.rmtree(root, ignore_errors=True)
    return fails, evals


# ------------------------------------------------------------------ (i') the `gen` rows of the command-line table
GEN_IMPORTS_ROWS = [{"how": "none"}, {"how": "module"}, {"how": "file"}, {"how": "other"},
                    {"how": "symbol", "form": "obj"}, {"how": "symbol", "form": "member"},
                    {"how": "symbol", "form": "reexported"}, {"how": "symbol", "form": "from-mod"},
                    {"how": "symbol", "form": "bare"}, {"how": "package"}]
GEN_PREPEND_COLS = ["none", "final-newline", "no-final-newline", "docstring-first", "imports-input-module"]
# how --output-filename spells the output file x whether that file exists: absolute, relative to the working directory,
# with a literal `~` (HOME is the scratch root), through a symlinked directory
GEN_OUT_ROWS = [(sp, ex) for sp in ("plain", "dot-relative", "tilde", "symlinked-dir") for ex in (False, True)]


def gen_cli_cases(rng, n_random):
    """argument combinations of `gen`: the full grid --imports-from-file shape (absent, module name, file path, another
    file, symbol path of depth 1..4) x --prepend shape (absent, text with / without final newline, docstring first,
    importing the input module) with type, name template, input module and its layout (flat / package / nested package)
    drawn per cell, then n_random freely drawn ones; about one in eight onto an existing output file; then the grid
    output spelling x output exists (GEN_OUT_ROWS), the other arguments drawn per cell.  The working directory (the
    project directory / elsewhere) is drawn per case"""
    import fam_gen
    cases = []

    def one(imports, col, out=None):
        kw = dict(domain="wellformed", mostly_good=True, mapping_ref="ok", plain_keys=True,
                  type_=rng.choice(["class", "argparse", "function"]),
                  name_tpl=rng.choice(fam_gen.TEMPLATES_GOOD[:2] * 3 + fam_gen.TEMPLATES_GOOD),
                  existing=None if rng.random() < 0.88 else rng.choice(["KEEP = 1\n", "# old file", ""]))
        if out is not None:
            kw["existing"] = rng.choice(["KEEP = 1\n", "# hand written\nclass Keep(object):\n    x: int = 1\n", "# old file",
                                         ""]) if out[1] else None
        if imports is not None and imports["how"] == "package":
            kw["layout"] = {"kind": "pkg", "depth": rng.choice([1, 1, 2]), "reexport": rng.random() < 0.5,
                            "init_imports": rng.sample(fam_gen.IMPORT_LINES, rng.choice([0, 1, 2, 3]))}
            imports = {"how": "package", "level": rng.choice(["top", "top", "parent"])}
        if imports is not None:
            if imports["how"] == "other":
                lines = rng.sample(fam_gen.IMPORT_LINES, rng.choice([1, 1, 2, 3]))
                imports = {"how": "other", "src": "\n".join(lines) + "\n"}
            kw["imports"] = dict(imports)
            sym = imports["how"] == "symbol"
            if col == "none":
                kw.update({"prepend_shape": "plain"} if sym else {"prepend": None})
            elif col == "final-newline":
                if sym:
                    kw["prepend_shape"] = rng.choice(["plain", "import-before", "import-after", "stmt-after", "blank-lines"])
                else:
                    kw["prepend"] = rng.choice(fam_gen.PREPENDS_GOOD)
            elif col == "no-final-newline":
                if sym:
                    kw["prepend_shape"] = rng.choice(["no-nl", "stmt-after-no-nl"])
                else:
                    kw["prepend"] = rng.choice(fam_gen.PREPENDS_NO_NL + ["import sys", "import os\nX = 1", "from os import sep"])
            elif col == "docstring-first":
                if sym:
                    kw["prepend_shape"] = rng.choice(["doc", "doc-stmt"])
                else:
                    kw["prepend"] = rng.choice(['"""Generated"""\nimport sys', '"""Generated."""\nimport sys\n', '"""Doc"""\n',
                                                '"""Doc"""\nX = 1\nimport json'])
            elif col == "imports-input-module":
                kw["prepend_shape"] = rng.choice(["plain", "no-nl", "doc", "stmt-after-no-nl", "import-before"])
            # (a symbol path needs the prepended import that makes it resolvable: column "none" gets the plain one)
        c = fam_gen.gen_case(rng, **kw)
        c["opts"] = {"emit_call": False, "emit_default_doc": True, "decorator_list": None}
        c["route"] = "cli"
        c["out"] = {"spelling": out[0]} if out is not None else fam_gen.draw_out(rng, c["existing"])
        return c
    for imports in GEN_IMPORTS_ROWS:
        for col in GEN_PREPEND_COLS:
            cases.append(one(imports, col))
    for _ in range(n_random):
        cases.append(one(None, None))
    for out in GEN_OUT_ROWS:
        cases.append(one(None, None, out))
    return cases


def _gen_cli_run(case):
    """the real command line in a child process; (rc, last stderr line, tree before, tree after, output path rel.)"""
    import fam_gen
    import prop_C19
    from common import REPO
    ws = fam_gen.materialise(case)
    try:
        before = L.snapshot(ws["tmp"])
        r = L.run_cli(prop_C19._cli_cmd(case, ws)[3:], cwd=ws.get("cwd") or ws["tmp"],
                      extra_env=dict(ws.get("env", {}), PYTHONPATH=REPO + os.pathsep + ws["tmp"], PYTHONDONTWRITEBYTECODE="1"))
        after = L.snapshot(ws["tmp"])
    finally:
        shutil.rmtree(ws["tmp"], ignore_errors=True)
    last = [l for l in r["stderr"].strip().split("\n") if l][-1:] or [""]
    return r["rc"], last[0][:200], before, after, os.path.relpath(ws["out_path"], ws["tmp"])


def _gen_cli_judge(case, run, in_guard):
    """C20 on one `gen` invocation: rejected (existing output) => non-zero exit, tree untouched; accepted => no file but
    the output is touched, the output is absent or complete and parseable, and - inside the region where the C19 theorems
    say gen succeeds - it ends without an internal error and the output is there"""
    rc, last, before, after, out = run
    if case["existing"] is not None:
        if rc == 0 or before != after:
            return "gen onto an existing output: rc=%s, fs %s" % (rc, "untouched" if before == after else "TOUCHED")
        return None
    for f in sorted(set(before) | set(after)):
        if f != out and before.get(f) != after.get(f):
            return "gen touched %s (rc=%s)" % (f, rc)
    if out in after:
        try:
            ast.parse(after[out].decode())
        except (SyntaxError, UnicodeDecodeError):
            return "gen left an output file that does not parse (rc=%s)" % rc
    if in_guard and rc != 0:
        return "accepted invocation ended with an internal error: %s" % last
    if in_guard and out not in after:
        return "accepted invocation exited 0 without writing the output file"
    return None


def gen_cli_points(rng, n_random):
    import prop_C19
    cases = gen_cli_cases(rng, n_random)
    with concurrent.futures.ThreadPoolExecutor(max_workers=8) as ex:
        runs = list(ex.map(_gen_cli_run, cases))
    classes, model_runs = prop_C19._classify(cases)
    fails, hist, seen = [], collections.Counter(), set()
    for c, run, cl, mr in zip(cases, runs, classes, model_runs):
        cls, guard = prop_C19._decode_class(cl)
        cell = "imports-%s%s:prepend-%s" % (c["imports"]["how"], "-" + c["imports"]["form"] if "form" in c["imports"] else "",
                                            "none" if c["prepend"] is None else "final-newline" if c["prepend"].endswith("\n")
                                            else "no-final-newline")
        region = "existing-output" if c["existing"] is not None else "outside-C19-domain" if cls == "out-of-domain" \
            else "unmodelled" if mr == "(err Unmodelled)" else "in-guard_C19" if guard else "C19-class:%s" % cls
        spelling = (c.get("out") or {}).get("spelling", "plain")
        # a literal `~` names a file in a directory called "~" that does not exist: what the C19 theorems say about gen
        # succeeding assumes an output that can be created, so such a point is judged for "no damage" only
        in_guard = region == "in-guard_C19" and spelling != "tilde"
        what = _gen_cli_judge(c, run, in_guard)
        hist["gen-cli:%s:%s" % (region, "ok" if what is None else "FAILS")] += 1
        hist["gen-cli:cell:" + cell] += 1
        hist["gen-cli:output-%s:%s:cwd-%s" % (spelling, "existing" if c["existing"] is not None else "fresh", c.get("cwd"))] += 1
        if what is not None:
            fails.append({"case": {"gen_cli": {k: v for k, v in c.items() if k != "tags"}}, "what": what, "class": None})
        elif in_guard or c["existing"] is not None:
            seen.add(dumps([cell, c["type_"], sorted((c.get("layout") or {}).items()), c["existing"] is not None, spelling]))
    return fails, len(cases), hist, len(seen)


# ------------------------------------------------------------------ oracle
def oracle(rng, tier):
    failures, hist = [], collections.Counter()
    # (i) CLI table
    if tier == "thorough":
        shapes = [shape_from_counts(t, fs, ns, ex) for t in KINDS for fs in itertools.product([0, 1, 2], repeat=3)
                  for ns in itertools.product([0, 1, 2], repeat=3) for ex in (True, False)]
        exhaustive = True
    else:
        all_shapes = [shape_from_counts(t, fs, ns, ex) for t in KINDS for fs in itertools.product([0, 1, 2], repeat=3)
                      for ns in itertools.product([0, 1, 2], repeat=3) for ex in (True, False)]
        shapes = rng.sample(all_shapes, 90)
        exhaustive = False
    md = model_decisions(shapes)
    assign_spellings(shapes, md)
    # what the targets of an accepted shape hold beforehand (agreeing, missing, zero statements, ...); where the files of a
    # rejected shape are named (every other one: in directories that do not exist)
    assign_pre_states(shapes, md)
    assign_fresh_dirs(shapes, md)
    # plus the grid truth kind x pre-state of the targets, all of it accepted
    grid = pre_state_grid()
    shapes = shapes + grid
    md = md + model_decisions(grid)
    with concurrent.futures.ProcessPoolExecutor(max_workers=14) as ex:
        res = list(ex.map(_cli_point_star, shapes, chunksize=4))
    seen = set()
    for s, d, (ok, what) in zip(shapes, md, res):
        hist["cli:%s:%s" % (d["decision"], "names-complete" if d["names_complete"] else "names-incomplete")] += 1
        hist["cli:%s:spelled-%s" % (d["decision"], s.get("spelling"))] += 1
        if s.get("fresh_dirs"):
            hist["cli:%s:files-in-directories-that-do-not-exist" % d["decision"]] += 1
        for k, pre in sorted((s.get("pre") or {}).items()):
            hist["cli:%s:target-before:%s" % (d["decision"], "zero-statements" if pre.startswith("zero:") else pre)] += 1
        want_reject = d["decision"] == "reject"
        if want_reject != (what == "rejected"):
            failures.append({"case": {"cli_shape": s}, "what": "model decision %s but the command line %s" % (d["decision"], what), "class": None})
            continue
        seen.add(dumps([s["truth"], sorted(s["files"].items()), sorted(s["names"].items()), s["exists"], sorted((s.get("pre") or {}).items()),
                        bool(s.get("fresh_dirs"))]))
        if not ok:
            cls = "accepted-file-without-name" if (d["decision"] == "run" and not d["names_complete"]) else None
            failures.append({"case": {"cli_shape": s}, "what": what, "class": cls})
    for ok, what, facts in other_commands_points():
        hist["cli:other"] += 1
        if not ok:
            failures.append({"case": facts, "what": what, "class": None})
    # (ii) faults
    f2, e2, h2 = sync_fault_points(rng, 10 if tier == "quick" else 120)
    failures += f2
    hist.update(h2)
    f3, e3 = sync_properties_fault_points(rng)
    failures += f3
    f4, e4 = gen_fault_points()
    failures += f4
    # (i') the gen rows of the command-line table (drawn last: the draws above do not depend on them)
    f5, e5, h5, s5 = gen_cli_points(rng, 10 if tier == "quick" else 300)
    failures += f5
    hist.update(h5)
    e4, gen_seen = e4 + e5, s5
    # (i'') the sync_properties rows of the command-line table (drawn after everything else)
    f6, e6, h6 = sync_properties_cli_points(rng, 1 if tier == "quick" else 12)
    failures += f6
    hist.update(h6)
    e4, gen_seen = e4 + e6, gen_seen + e6 - len(f6)
    return {"evaluations": len(shapes) + 4 + e2 + e3 + e4, "distinct_nontrivial": len(seen) + e2 + gen_seen,
            "rule": "CLI: argument shapes of `sync` (each of six options absent/once/twice x truth x truth-file-exists; "
                    + ("all 4374 enumerated" if exhaustive else "sampled in quick tier, exhaustive in thorough") +
                    "; accepted shapes over the pre-states of their targets - agreeing, missing, absent, stale, a file of zero "
                    "statements: touched / blank lines / comments only - plus the grid truth kind x pre-state; every other rejected "
                    "shape with its files named in directories that do not exist; the snapshot compared holds file names, bytes and "
                    "directory names) run through the real command line, plus sync_properties/gen rejections (also those of the "
                    "argument parser itself, files in directories that do not exist), plus `sync_properties` over the "
                    "grid input file = output file x --input-eval x 1..3 property pairs x template absent/given on generated "
                    "projects (locations: module constants, assignments, class attributes, function arguments; judged for 'no "
                    "internal error, nothing but the output touched, output parses'), plus `gen` over the grid "
                    "--imports-from-file shape (absent, module, file path, other file, symbol path of depth 1..4) x --prepend "
                    "shape (absent, with/without final newline, docstring first, importing the input module) x type x input "
                    "module layout (judged for 'no internal error' inside guard_C19, for 'no damage' everywhere); faults: every write point "
                    "(open tmp, k characters written, replace, read old) and a conversion error at every target of generated sync projects, "
                    "sync_properties' single write, gen's write; non-trivial = distinct shape / fault point actually reached",
            "failures": failures, "histogram": dict(hist), "exhaustive": exhaustive,
            "samples": [{"cli_shape": shapes[0]}, {"cli_shape": shapes[-1]}]}


def check_case(case):
    if "cli_shape" in case:
        ok, what, _ = cli_point(case["cli_shape"])
        return ok, what
    if "gen_cli" in case:
        import prop_C19
        c = case["gen_cli"]
        cl, mr = prop_C19._classify([c])
        _, guard = prop_C19._decode_class(cl[0])
        what = _gen_cli_judge(c, _gen_cli_run(c), guard and c["existing"] is None and mr[0] != "(err Unmodelled)"
                              and (c.get("out") or {}).get("spelling") != "tilde")
        return what is None, what or ""
    if "sync_properties_cli" in case:
        what = _sync_properties_cli_run(case["sync_properties_cli"])
        return what is None, what or ""
    if case.get("command") == "gen":
        f, _ = gen_fault_points()
        return (not f), "; ".join(x["what"] for x in f)
    if "scenario" in case and "fault" in case:
        return True, "replay by re-running the C20 check (fault points are enumerated per scenario)"
    return True, ""
